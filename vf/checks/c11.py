"""C11 — API diff: silent on compatible change, reports every public removal / re-kinding.

Workload: structured packages (public and private modules, ``__all__`` present/absent, re-exports
through aliases, classes with inheritance incl. private bases, methods, attributes) and edit
scripts drawn from a catalogue of compatible edits (add public object, add optional keyword
parameter, change private object, add base, reorder, add module) and incompatible edits (remove
object, change kind, remove base class, change attribute value) applied at random public and
private locations, plus dangling / cyclic re-exports.
Oracle: a *public-surface model* computed from the generator's structure (never from
``is_public``) gives the public paths of every object; incompatible edits on an object with >= 1
public path must yield a breakage of the expected kind on one of its paths, everything else must
be silent.  CLI leg: ``python -m griffe check`` in a scratch git repository; exit code must be 1
exactly when the in-process diff reports something.
"""
from __future__ import annotations

import copy
import os
import random
import subprocess
import sys

from vf.core.util import case_watchdog, tmp_tree

PROP = "C11"
LEVEL = "exploration"
ANCHORS = ["diff.py"]
RULE = ("structured package pk (modules pk, pk.core, pk._impl, pk.sub, pk.sub.mod; functions, classes with methods/"
        "attributes and public or private bases, attributes; __all__ present or absent per module; re-exports of public "
        "and private-module objects, listed in __all__ or not) x edit script of 1-4 edits from the catalogue "
        "{add public object, add optional keyword parameter, change private object, add base, reorder, add module | remove "
        "object, change kind, remove base, change attribute value} at random public/private locations; optional dangling or "
        "cyclic re-export injected in both versions. distinct = digest of (old files, new files); non-trivial = script has "
        "an incompatible edit on an object whose only public path goes through a re-export or inheritance")
LEVEL_TEXT = ("Both versions are loaded statically with aliases resolved (as `griffe check` does) and diffed by the real "
              "find_breaking_changes; the generator's public-surface model decides, per edit, whether a breakage of a given "
              "kind must appear on one of the object's paths, and that nothing else may be reported; identical copies and "
              "compatible-only scripts must be silent; every breakage must explain() in all styles; the CLI exit code is "
              "compared with the in-process result on a sample.")
LEVEL_NOTE = ("trusted: the public-surface model (written from the documented rules: underscore names, __all__, imported "
              "names are private unless exported, modules only by underscore); a breakage located at the canonical "
              "definition path of an object that has a public path is accepted as 'on that object'")
TECHNIQUE = "runtime monitoring: reference-model monitor (public-surface model) over generated two-version histories + CLI exit-code oracle"
REQUIRED_COUNTERS = ["pairs_diffed", "identical_pairs_silent", "compatible_scripts_silent", "incompatible_public_edits_reported",
                     "incompatible_private_edits_silent", "breakages_explained", "cli_exit_codes_compared",
                     "edits_behind_reexport_or_inheritance"]
EXHAUSTIVE = {"quick": False, "thorough": False}
ASSUMPTIONS = ["attribute values and parameter lists are simple literals so that C03/C10 findings cannot surface here"]
SHARD_TIMEOUT = {"quick": 900, "thorough": 7200}


# -- model -------------------------------------------------------------------------------------
def new_obj(name, kind, **kw):  # noqa: ANN001, ANN003, ANN201
    o = {"name": name, "kind": kind, "params": [], "bases": [], "members": [], "value": "0", "doc": None}
    o.update(kw)
    return o


def gen_model(rng: random.Random) -> dict:
    mods: dict[str, dict] = {}
    counter = [0]

    def fresh(prefix: str) -> str:
        counter[0] += 1
        return f"{prefix}{counter[0]}"

    def gen_class(name: str, bases: list[str]) -> dict:
        members = []
        for _ in range(rng.randint(1, 3)):
            mname = fresh(rng.choice(["m", "m", "_pm"]))
            if rng.random() < 0.7:
                members.append(new_obj(mname, "func", params=[("self", None), ("x", None)][: rng.randint(1, 2)]))
            else:
                members.append(new_obj(mname, "attr", value=str(rng.randint(0, 9))))
        return new_obj(name, "class", bases=list(bases), members=members)

    def gen_objs(n: int, private_share: float) -> list[dict]:
        objs = []
        for _ in range(n):
            priv = rng.random() < private_share
            k = rng.choice(["func", "func", "class", "attr"])
            name = fresh(("_" if priv else "") + {"func": "f", "class": "C", "attr": "A"}[k])
            if k == "func":
                params = [(fresh("p"), rng.choice([None, "0"])) for _ in range(rng.randint(0, 2))]
                params.sort(key=lambda p: p[1] is not None)
                objs.append(new_obj(name, "func", params=params))
            elif k == "class":
                objs.append(gen_class(name, []))
            else:
                objs.append(new_obj(name, "attr", value=str(rng.randint(0, 9))))
        return objs

    core = gen_objs(rng.randint(3, 6), 0.25)
    # inheritance inside core: a (possibly private) base and a public subclass
    base = gen_class(fresh(rng.choice(["Base", "_Base"])), [])
    sub = gen_class(fresh("Sub"), [base["name"]])
    core += [base, sub]
    impl = gen_objs(rng.randint(2, 4), 0.2)
    mods["pk.core"] = {"objs": core, "imports": [], "all": None}
    mods["pk._impl"] = {"objs": impl, "imports": [], "all": None}
    if rng.random() < 0.5:
        mods["pk.core"]["all"] = [o["name"] for o in core if rng.random() < 0.75]
    init_imports = []
    for o in rng.sample(core, rng.randint(0, min(3, len(core)))):
        init_imports.append(("pk.core", o["name"], rng.choice([None, None, o["name"] + "_re"])))
    for o in rng.sample(impl, rng.randint(1, min(3, len(impl)))):
        # private-module objects (some with private names) re-exported, possibly under a public name
        init_imports.append(("pk._impl", o["name"], rng.choice([None, o["name"] + "_re", o["name"].lstrip("_") + "_pub"])))
    init_objs = gen_objs(rng.randint(0, 2), 0.2)
    init_all = None
    if rng.random() < 0.7:
        init_all = [(a or n) for (_m, n, a) in init_imports if rng.random() < 0.7] + [o["name"] for o in init_objs if rng.random() < 0.8]
    mods["pk"] = {"objs": init_objs, "imports": init_imports, "all": init_all}
    mods["pk.sub"] = {"objs": gen_objs(rng.randint(0, 2), 0.2), "imports": [], "all": None}
    # pk.sub.mod: a class inheriting from a core class through an import
    core_classes = [o for o in core if o["kind"] == "class"]
    target = rng.choice(core_classes)
    submod_objs = gen_objs(rng.randint(1, 2), 0.2)
    submod_objs.append(gen_class(fresh("D"), [target["name"]]))
    mods["pk.sub.mod"] = {"objs": submod_objs, "imports": [("pk.core", target["name"], None)], "all": None}
    # underscore-named modules that are public all the same: listed in the parent's __all__, or special (__main__)
    if mods["pk"]["all"] is not None and rng.random() < 0.35:
        mods["pk"]["all"].append("_impl")
    if rng.random() < 0.3:
        mods["pk.__main__"] = {"objs": gen_objs(rng.randint(1, 2), 0.2), "imports": [], "all": None}
    if rng.random() < 0.3:
        mods["pk.sub._low"] = {"objs": gen_objs(rng.randint(1, 2), 0.2), "imports": [], "all": None}
        if rng.random() < 0.7:
            mods["pk.sub"]["all"] = [o["name"] for o in mods["pk.sub"]["objs"] if rng.random() < 0.8] + (["_low"] if rng.random() < 0.7 else [])
    extra = rng.choice([None, None, "dangling", "cyclic"])
    if extra and mods["pk"]["all"] is not None:
        mods["pk"]["all"].append("ghost" if extra == "dangling" else "loop_a")  # the broken re-export is exported
    return {"mods": mods, "extra": extra}


def render_obj(o: dict, indent: str = "") -> str:
    if o["kind"] == "func":
        ps = ", ".join(n if d is None else f"{n}={d}" for n, d in o["params"])
        return f"{indent}def {o['name']}({ps}): ...\n"
    if o["kind"] == "attr":
        return f"{indent}{o['name']} = {o['value']}\n"
    head = f"{indent}class {o['name']}" + (f"({', '.join(o['bases'])})" if o["bases"] else "") + ":\n"
    body = "".join(render_obj(m, indent + "    ") for m in o["members"]) or f"{indent}    pass\n"
    return head + body


def render(model: dict) -> dict[str, str]:
    files = {}
    pkgs = {"pk", "pk.sub"} | {m for m in model["mods"] if any(x.startswith(m + ".") for x in model["mods"])}
    for mod, m in model["mods"].items():
        src = ""
        for frm, name, asname in m["imports"]:
            src += f"from {frm} import {name}" + (f" as {asname}" if asname else "") + "\n"
        if mod == "pk" and model.get("extra") == "dangling":
            src += "from pk.nowhere import ghost\n"
        if mod == "pk" and model.get("extra") == "cyclic":
            src += "from pk.core import loop_a\n"
        if mod == "pk.core" and model.get("extra") == "cyclic":
            src += "from pk import loop_a\n"
        for o in m["objs"]:
            src += render_obj(o)
        if m["all"] is not None:
            src += f"__all__ = {m['all']!r}\n"
        rel = mod.replace(".", "/") + ("/__init__.py" if mod in pkgs else ".py")
        files[rel] = src or "\n"
    return files


# -- public surface model ------------------------------------------------------------------------
def module_public(model: dict, mod: str) -> bool:
    """Every component below the top-level package must be public by the documented rules: a module without leading
    underscore is public whatever ``__all__`` says; an underscore-named one is public when its parent's (non-empty)
    ``__all__`` lists it, private when that ``__all__`` omits it, and - without ``__all__`` - public only when its
    name is special (``__main__``)."""
    parts = mod.split(".")
    for i in range(1, len(parts)):
        name = parts[i]
        if not name.startswith("_"):
            continue
        parent = model["mods"].get(".".join(parts[:i]))
        if parent and parent["all"]:
            if name not in parent["all"]:
                return False
        elif not (name.startswith("__") and name.endswith("__")):
            return False
    return True


def name_public(m: dict, name: str, imported: bool) -> bool:
    if m["all"]:
        return name in m["all"]
    if name.startswith("_"):
        return False
    return not imported


def find_obj(model: dict, mod: str, name: str) -> dict | None:
    return next((o for o in model["mods"][mod]["objs"] if o["name"] == name), None)


def class_lookup(model: dict, mod: str, cname: str) -> tuple[str, dict] | None:
    """Resolve a base-class name used in module ``mod`` to (defining module, class object)."""
    o = find_obj(model, mod, cname)
    if o and o["kind"] == "class":
        return mod, o
    for frm, name, asname in model["mods"][mod]["imports"]:
        if (asname or name) == cname:
            t = find_obj(model, frm, name)
            if t and t["kind"] == "class":
                return frm, t
    return None


def public_paths(model: dict) -> dict[str, set[str]]:
    """canonical path of every object (incl. class members) -> set of *public* paths it is reachable by."""
    out: dict[str, set[str]] = {}
    mods = model["mods"]
    # module-level objects through their definition and through re-exports
    top_paths: dict[tuple[str, str], set[str]] = {}
    for mod, m in mods.items():
        for o in m["objs"]:
            s = top_paths.setdefault((mod, o["name"]), set())
            if module_public(model, mod) and name_public(m, o["name"], imported=False):
                s.add(f"{mod}.{o['name']}")
    for mod, m in mods.items():
        for frm, name, asname in m["imports"]:
            if (frm, name) in top_paths and module_public(model, mod) and name_public(m, asname or name, imported=True):
                top_paths[(frm, name)].add(f"{mod}.{asname or name}")
    for (mod, name), paths in top_paths.items():
        out[f"{mod}.{name}"] = set(paths)
    # class members, own and inherited
    for mod, m in mods.items():
        for o in m["objs"]:
            if o["kind"] != "class":
                continue
            cpaths = top_paths[(mod, o["name"])]
            seen_names = set()
            chain = [(mod, o)]
            visited = set()
            while chain:
                cmod, cls = chain.pop(0)
                if (cmod, cls["name"]) in visited:
                    continue
                visited.add((cmod, cls["name"]))
                for mem in cls["members"]:
                    canon = f"{cmod}.{cls['name']}.{mem['name']}"
                    out.setdefault(canon, set())
                    if mem["name"] in seen_names:
                        continue
                    seen_names.add(mem["name"])
                    if not mem["name"].startswith("_"):
                        out[canon] |= {f"{p}.{mem['name']}" for p in cpaths}
                for b in cls["bases"]:
                    r = class_lookup(model, cmod, b)
                    if r:
                        chain.append(r)
    return out


# -- edits ---------------------------------------------------------------------------------------
COMPAT = ["add_object", "add_kwarg", "change_private", "add_base", "reorder", "add_module"]
INCOMPAT = ["remove", "change_kind", "remove_base", "change_value"]


def all_objects(model: dict):  # noqa: ANN201
    for mod, m in model["mods"].items():
        for o in m["objs"]:
            yield mod, None, o
            if o["kind"] == "class":
                for mem in o["members"]:
                    yield mod, o, mem


def prefer_hidden(rng: random.Random, cands: list, surface: dict):  # noqa: ANN201
    """Bias incompatible edits towards objects that are public *only* through a re-export or inheritance
    (their canonical path is not among their public paths) and towards members of such objects."""
    def hidden(c):  # noqa: ANN001, ANN202
        m, cls, o = c
        top = canon(m, None, cls) if cls else canon(m, cls, o)
        paths = surface.get(canon(m, cls, o), set())
        return bool(paths) and canon(m, cls, o) not in paths or (bool(surface.get(top)) and top not in surface.get(top, set()))
    hid = [c for c in cands if hidden(c)]
    if hid and rng.random() < 0.5:
        return rng.choice(hid)
    return rng.choice(cands)


def apply_edit(rng: random.Random, old: dict, new: dict, kind: str, surface: dict) -> dict | None:  # noqa: C901, PLR0911, PLR0912
    """Mutates ``new``; returns an expectation record or None when not applicable."""
    objs = list(all_objects(new))
    if kind == "add_object":
        mod = rng.choice(list(new["mods"]))
        name = f"added{rng.randint(100, 999)}"
        new["mods"][mod]["objs"].append(new_obj(name, rng.choice(["func", "attr", "class"])))
        # an *empty* __all__ declares nothing (names decide): giving it a first entry would un-publish every other
        # object of the module, which is no compatible edit - only a non-empty __all__ is extended
        if new["mods"][mod]["all"] and rng.random() < 0.7:
            new["mods"][mod]["all"].append(name)
        return {"edit": kind, "where": f"{mod}.{name}", "expect": None}
    if kind == "add_kwarg":
        cands = [(m, c, o) for m, c, o in objs if o["kind"] == "func"]
        if not cands:
            return None
        m, c, o = rng.choice(cands)
        taken = {p[0] for p in o["params"]}
        kwname = f"kw{rng.randint(10, 99)}"
        while kwname in taken:  # two edits of one function must not draw the same name (SyntaxError in the generated module)
            kwname += "x"
        o["params"].append((kwname, "None"))
        return {"edit": kind, "where": canon(m, c, o), "expect": None}
    if kind == "change_private":
        cands = [(m, c, o) for m, c, o in objs if not surface.get(canon(m, c, o)) and not (c and surface.get(canon(m, None, c)) and not o["name"].startswith("_"))]
        cands = [(m, c, o) for m, c, o in cands if not surface.get(canon(m, c, o))]
        if not cands:
            return None
        m, c, o = rng.choice(cands)
        if o["kind"] == "attr":
            o["value"] = str(int(o["value"]) + 100)
        elif o["kind"] == "func":
            o["params"] = [(f"r{rng.randint(10, 99)}", None)] + ([("self", None)] if c else [])
            o["params"].sort(key=lambda p: p[0] != "self")
        else:
            o["members"] = []
        return {"edit": kind, "where": canon(m, c, o), "expect": None}
    if kind == "add_base":
        cands = [(m, c, o) for m, c, o in objs if o["kind"] == "class" and c is None]
        if not cands:
            return None
        m, c, o = rng.choice(cands)
        o["bases"].append("object") if not o["bases"] else o["bases"].append("Exception") if "Exception" not in o["bases"] and False else None
        if not o["bases"]:
            o["bases"].append("object")
        return {"edit": kind, "where": canon(m, c, o), "expect": None}
    if kind == "reorder":
        mod = rng.choice(list(new["mods"]))
        rng.shuffle(new["mods"][mod]["objs"])
        # keep base classes before subclasses inside one module (Python needs the name at class creation; Griffe does not care)
        return {"edit": kind, "where": mod, "expect": None}
    if kind == "add_module":
        new["mods"][f"pk.extra{rng.randint(1, 9)}"] = {"objs": [new_obj("thing", "func")], "imports": [], "all": None}
        return {"edit": kind, "where": "pk.extraN", "expect": None}
    # incompatible ---------------------------------------------------------------------------
    if kind == "remove":
        m, c, o = prefer_hidden(rng, objs, surface)
        path = canon(m, c, o)
        if c:
            c["members"].remove(o)
        else:
            new["mods"][m]["objs"].remove(o)
            # drop re-exports, __all__ entries and base-class uses so the new version stays importable
            for mod2, mm in new["mods"].items():
                for imp in list(mm["imports"]):
                    if imp[0] == m and imp[1] == o["name"]:
                        mm["imports"].remove(imp)
                        if mm["all"] is not None and (imp[2] or imp[1]) in mm["all"]:
                            mm["all"].remove(imp[2] or imp[1])
                        for oo in mm["objs"]:
                            if oo["kind"] == "class" and (imp[2] or imp[1]) in oo["bases"]:
                                oo["bases"].remove(imp[2] or imp[1])
            mm = new["mods"][m]
            if mm["all"] is not None and o["name"] in mm["all"]:
                mm["all"].remove(o["name"])
            for oo in mm["objs"]:
                if oo["kind"] == "class" and o["name"] in oo["bases"]:
                    oo["bases"].remove(o["name"])
        return {"edit": kind, "where": path, "expect": "Public object was removed"}
    if kind == "change_kind":
        cands = [(m, c, o) for m, c, o in objs if not (o["kind"] == "class" and any(o["name"] in x["bases"] for _m, _c, x in objs if x["kind"] == "class"))]
        # a class used as a base (also through imports) cannot silently become a function in valid code
        used_as_base = set()
        for mod2, mm in new["mods"].items():
            for oo in mm["objs"]:
                if oo["kind"] == "class":
                    for b in oo["bases"]:
                        r = class_lookup(new, mod2, b)
                        if r:
                            used_as_base.add((r[0], r[1]["name"]))
        cands = [(m, c, o) for m, c, o in cands if not (c is None and (m, o["name"]) in used_as_base)]
        if not cands:
            return None
        m, c, o = prefer_hidden(rng, cands, surface)
        path = canon(m, c, o)
        newkind = rng.choice([k for k in ("func", "attr", "class") if k != o["kind"]])
        o["kind"] = newkind
        o["params"] = [("self", None)] if (c and newkind == "func") else []
        o["members"] = []
        o["bases"] = []
        o["value"] = "5"
        return {"edit": kind, "where": path, "expect": "Public object points to a different kind of object"}
    if kind == "remove_base":
        cands = [(m, c, o) for m, c, o in objs if o["kind"] == "class" and o["bases"]]
        if not cands:
            return None
        m, c, o = rng.choice(cands)
        removed = o["bases"].pop()
        return {"edit": kind, "where": canon(m, c, o), "expect": "Base class was removed", "removed_base": removed}
    if kind == "change_value":
        cands = [(m, c, o) for m, c, o in objs if o["kind"] == "attr"]
        if not cands:
            return None
        m, c, o = prefer_hidden(rng, cands, surface)
        o["value"] = str(int(o["value"]) + 10)
        return {"edit": kind, "where": canon(m, c, o), "expect": "Attribute value was changed"}
    return None


def canon(mod: str, cls: dict | None, o: dict) -> str:
    return f"{mod}.{cls['name']}.{o['name']}" if cls else f"{mod}.{o['name']}"


def fix_class_order(model: dict) -> None:
    """After a reorder keep same-module base classes before their subclasses (valid Python)."""
    for m in model["mods"].values():
        names = [o["name"] for o in m["objs"]]
        changed = True
        while changed:
            changed = False
            for i, o in enumerate(m["objs"]):
                if o["kind"] == "class":
                    for b in o["bases"]:
                        if b in names and names.index(b) > i:
                            j = names.index(b)
                            m["objs"].insert(i, m["objs"].pop(j))
                            names = [x["name"] for x in m["objs"]]
                            changed = True
                            break
                if changed:
                    break


# -- judge ---------------------------------------------------------------------------------------
def load_pkg(root):  # noqa: ANN001, ANN201
    import griffe

    loader = griffe.GriffeLoader(search_paths=[root], allow_inspection=False)
    pkg = loader.load("pk")
    loader.resolve_aliases(implicit=False, external=None)
    return pkg


def diff_in_process(old_files: dict, new_files: dict):  # noqa: ANN201
    import griffe

    with tmp_tree(old_files) as r1, tmp_tree(new_files) as r2:
        old, new = load_pkg(r1), load_pkg(r2)
        breakages = list(griffe.find_breaking_changes(old, new))
        rows = []
        for b in breakages:
            texts = [b.explain(style) for style in griffe.ExplanationStyle]
            assert all(isinstance(t, str) and t for t in texts)
            rows.append({"kind": b.kind.value, "path": b.obj.path, "canonical": b.obj.canonical_path if hasattr(b.obj, "canonical_path") else b.obj.path})
        return rows


def surface(model: dict) -> dict[str, dict]:
    """public path -> descriptor of the object reachable there (definition, re-export and inherited paths alike)."""
    paths = public_paths(model)
    desc: dict[str, dict] = {}
    for mod, cls, o in all_objects(model):
        c = canon(mod, cls, o)
        desc[c] = {"canonical": c, "kind": o["kind"], "value": o["value"] if o["kind"] == "attr" else None,
                   "bases": list(o["bases"]) if o["kind"] == "class" else None}
    out = {}
    for c, ps in paths.items():
        for p in ps:
            out[p] = desc[c]
    return out


KIND_NAMES = {"func": "function", "class": "class", "attr": "attribute"}


def expected_differences(old_surface: dict, new_surface: dict) -> list[dict]:
    """The reference diff of the two public surfaces."""
    diffs = []
    for p, od in old_surface.items():
        nd = new_surface.get(p)
        if nd is None:
            parent = p.rsplit(".", 1)[0]
            if parent in old_surface and (parent not in new_surface or new_surface[parent]["kind"] != old_surface[parent]["kind"]):
                continue  # reported once, on the removed / re-kinded parent
            diffs.append({"path": p, "canonical": od["canonical"], "kind": "Public object was removed"})
        elif nd["kind"] != od["kind"]:
            diffs.append({"path": p, "canonical": od["canonical"], "kind": "Public object points to a different kind of object"})
        elif od["kind"] == "attr" and od["value"] != nd["value"]:
            diffs.append({"path": p, "canonical": od["canonical"], "kind": "Attribute value was changed"})
        elif od["kind"] == "class" and od["bases"] != nd["bases"] and len(nd["bases"]) < len(od["bases"]):
            diffs.append({"path": p, "canonical": od["canonical"], "kind": "Base class was removed"})
    return diffs


def judge(rec, case: dict, expectations: list[dict], old_surface: dict, new_surface: dict, rows: list[dict]) -> tuple | None:  # noqa: ANN001
    """Completeness: every changed public object is reported (same kind) on one of its public paths or at its definition.
    Soundness: every reported breakage corresponds to a difference of that kind between the two public surfaces."""
    diffs = expected_differences(old_surface, new_surface)
    by_obj: dict[tuple[str, str], list[dict]] = {}
    for d in diffs:
        by_obj.setdefault((d["canonical"], d["kind"]), []).append(d)
    for (canonical, kind), ds in by_obj.items():
        paths = {d["path"] for d in ds} | {canonical}
        hit = any(r["kind"] == kind and (r["path"] in paths or r["canonical"] in paths) for r in rows)
        behind = all(d["path"] != canonical for d in ds)
        rec.count("incompatible_public_edits_reported" if hit else "incompatible_public_edits_missed")
        if behind:
            rec.count("edits_behind_reexport_or_inheritance")
        if not hit:
            return (f"public object {canonical} ({kind}) changed on public path(s) {sorted(d['path'] for d in ds)} but no such breakage is reported",
                    rows, ds)
    for r in rows:
        ok = any(d["kind"] == r["kind"] and (r["path"] == d["path"] or r["canonical"] == d["canonical"] or r["path"] == d["canonical"])
                 for d in diffs)
        if not ok:
            fid = None
            if r["kind"] == "Attribute value was changed" and r["path"].endswith(".__all__"):
                modpath = r["path"][: -len(".__all__")]
                rel = modpath.replace(".", "/")
                src = case["old"].get(rel + "/__init__.py", case["old"].get(rel + ".py", ""))
                if "__all__ = []" in src:
                    fid = "C11-empty-all-is-itself-public"
            return (f"breakage '{r['kind']}' on {r['path']} does not correspond to any difference between the public surfaces "
                    "(private / imported-not-exported object, or nothing changed there)", rows, diffs, fid)
    for e in expectations:
        if e["expect"] and not any(d["canonical"].startswith(e["where"]) or e["where"].startswith(d["canonical"]) for d in diffs):
            rec.count("incompatible_private_edits_silent")
    return None


def cli_exit(old_files: dict, new_files: dict) -> tuple[int, int, str]:
    """Run `python -m griffe check` in a scratch git repository; returns (exit code, stderr lines, stderr tail)."""
    import tempfile

    root = tempfile.mkdtemp(prefix="vfc11git-")
    env = dict(os.environ, GIT_CONFIG_GLOBAL="/dev/null", GIT_CONFIG_SYSTEM="/dev/null", GIT_AUTHOR_NAME="t", GIT_AUTHOR_EMAIL="t@t",
               GIT_COMMITTER_NAME="t", GIT_COMMITTER_EMAIL="t@t", TMPDIR=root + "/tmp", NO_COLOR="1")
    os.makedirs(root + "/tmp")
    repo = root + "/repo"
    os.makedirs(repo)

    def git(*a):  # noqa: ANN002, ANN202
        return subprocess.run(["git", *a], cwd=repo, env=env, capture_output=True, text=True, check=True)

    def write(files):  # noqa: ANN001, ANN202
        import shutil

        shutil.rmtree(repo + "/pk", ignore_errors=True)
        for rel, content in files.items():
            p = os.path.join(repo, rel)
            os.makedirs(os.path.dirname(p), exist_ok=True)
            with open(p, "w") as fh:
                fh.write(content)

    try:
        git("init", "-q", "-b", "main")
        write(old_files)
        git("add", "-A")
        git("commit", "-q", "-m", "v1")
        git("tag", "v1")
        write(new_files)
        proc = subprocess.run([sys.executable, "-m", "griffe", "check", "pk", "-s", ".", "-a", "v1"], cwd=repo, env=env,
                              capture_output=True, text=True, timeout=120, check=False)
        lines = [ln for ln in proc.stderr.splitlines() if ln.strip()]
        return proc.returncode, len(lines), proc.stderr[-400:]
    finally:
        import shutil

        shutil.rmtree(root, ignore_errors=True)


def run_case(rec, old_model: dict, script: list[str], rng: random.Random, with_cli: bool) -> None:  # noqa: ANN001
    new_model = copy.deepcopy(old_model)
    paths_old = public_paths(old_model)
    expectations = []
    for kind in script:
        e = apply_edit(rng, old_model, new_model, kind, paths_old)
        if e:
            expectations.append(e)
    fix_class_order(new_model)
    fix_class_order(old_model)
    old_files, new_files = render(old_model), render(new_model)
    judge_files(rec, old_files, new_files, expectations, surface(old_model), surface(new_model), with_cli)


def judge_files(rec, old_files, new_files, expectations, old_surface, new_surface, with_cli) -> None:  # noqa: ANN001
    case = {"old": old_files, "new": new_files, "expectations": expectations, "old_surface": old_surface, "new_surface": new_surface}
    incompat = [e for e in expectations if e["expect"]]
    diffs = expected_differences(old_surface, new_surface)
    nontrivial = any(d["path"] != d["canonical"] for d in diffs)
    try:
        with case_watchdog(180):
            for src in list(old_files.values()) + list(new_files.values()):
                compile(src, "<c11>", "exec")
            rows = diff_in_process(old_files, new_files)
            rec.count("pairs_diffed")
            rec.count("breakages_explained", len(rows))
            res = judge(rec, case, expectations, old_surface, new_surface, rows)
            if not res and not incompat:
                rec.count("identical_pairs_silent" if not expectations else "compatible_scripts_silent")
            if not res and with_cli:
                code, nlines, tail = cli_exit(old_files, new_files)
                rec.count("cli_exit_codes_compared")
                want = 1 if rows else 0
                if code != want:
                    res = (f"CLI exit code {code} but in-process diff reports {len(rows)} breakage(s)", {"exit": code, "stderr": tail}, want)
                elif rows and nlines < len(rows):
                    res = ("CLI printed fewer lines than breakages", {"lines": nlines, "stderr": tail}, len(rows))
    except Exception as exc:  # noqa: BLE001
        rec.fail_exc(case, f"{type(exc).__name__} during API comparison", exc, nontrivial=nontrivial)
        return
    if res:
        rec.fail(case, res[0], observed=res[1], expected=res[2], finding=res[3] if len(res) > 3 else None,
                 tried=["C11-empty-all-is-itself-public"], nontrivial=nontrivial)
    else:
        tags = tuple(sorted({e["edit"] for e in expectations})) or ("identical",)
        rec.ok(case, nontrivial=nontrivial, tags=tags)


def shards(tier: str, seed: int) -> list[dict]:
    n = 110 if tier == "quick" else 900
    return [{"count": n, "cli": 1 if tier == "quick" else 6} for _ in range(16)]


def run_shard(spec: dict, rec) -> None:  # noqa: ANN001
    rng = random.Random(spec["seed"])
    for i in range(spec["count"]):
        model = gen_model(rng)
        r = rng.random()
        if r < 0.12:
            script: list[str] = []
        elif r < 0.40:
            script = [rng.choice(COMPAT) for _ in range(rng.randint(1, 4))]
        else:
            script = [rng.choice(INCOMPAT + COMPAT) for _ in range(rng.randint(1, 3))] + [rng.choice(INCOMPAT)]
            script = script[-rng.randint(1, 4):]
            # one incompatible edit per script keeps expectations independent of each other
            inc = [k for k in script if k in INCOMPAT][:1]
            script = [k for k in script if k in COMPAT] + inc
        run_case(rec, model, script, rng, with_cli=i < spec["cli"])


def run_replay(inp: dict, rec) -> None:  # noqa: ANN001
    judge_files(rec, inp["old"], inp["new"], inp["expectations"], inp["old_surface"], inp["new_surface"], with_cli=False)


def run_pinned(findings: list[dict], rec) -> dict:  # noqa: ANN001
    from vf.core.rec import Recorder, pinned_result

    out = {}
    for f in findings:
        sub = Recorder(PROP, {})
        w = f["witness"]
        judge_files(sub, w["old"], w["new"], w.get("expectations", []), w["old_surface"], w["new_surface"], with_cli=False)
        out[f["id"]] = pinned_result(sub, f)
    return out
