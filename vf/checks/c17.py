"""C17 — Static and dynamic analysis agree on the API skeleton.

Workload: generated executable, side-effect-free packages: functions of every signature shape,
classes with static/class/instance methods, properties, nested classes, inheritance (in-module
and across modules), module/class attributes bound to literals, docstrings, intra-package
imports of classes, functions, modules and plain values; annotations of every spelling on parameters, returns and
attributes (objects, whole or partial strings, ``from __future__ import annotations``) that name builtins, earlier and later
module-level classes, classes nested in the enclosing class, names imported under ``if TYPE_CHECKING:`` only, type
parameters (PEP 695), undefined names, or are no expression at all; non-literal defaults; functools.wraps / identity
decorators, cached properties; imports from the standard library (Python and C implemented, classes, functions, modules,
plain values); wildcard imports between the modules (absolute and relative, chains, out of and into a sub-package, of a
package, before / between / after single-name imports, colliding with a local definition either way) from modules whose
``__all__`` is absent, empty (list, tuple, annotated), a list / tuple / annotated literal, grown with ``+=``, composed from
another module's ``__all__``, and lists private, dunder, imported and wildcard-imported names; any module-level or
class-level definition may sit inside a compound statement (nested too) built so that CPython runs exactly that block:
try/except with the handler taken (missing accelerator module, raise, NameError; one or several handlers, ``as``, bare,
tuple), the optional-accelerator idiom (same name imported in the try body and defined in the handler), try/else/finally,
``except*``, if/elif/else on conditions only the interpreter evaluates, match/case (literal, sequence, mapping, class,
or-patterns, guards, captures), with, for/while with else and break; the other blocks hold definitions that never run;
default values of every kind (sentinels ``object()``, instances with / without ``__repr__``, partial objects, enum members,
functions / classes / builtins / modules / lambdas, containers of such objects, nan / inf, negative and computed numbers, bytes,
Ellipsis, strings with quotes and newlines, very long literals, module-level names spelled like parameters) also in
``__init__``; docstrings of every layout CPython stores unchanged (quote styles, raw, joined, summary on or below the opening
line, first line deeper / shallower than the following, column zero, tabs, blank first / last lines, empty); in half of the
modules parameter defaults, arguments of decorator factories (identity decorators anywhere in the stack, ``functools.lru_cache``),
arguments of calls that compute a base class and values of class keywords are drawn from the whole expression grammar
(vf.gen.exprs, hostile domain: operators, calls with unpacking, subscripts and slices, displays, comprehensions, lambdas,
conditional expressions, ``:=``, f-strings with conversions and format specs) plus the spellings PEP 701 made legal (f-strings
nested in replacement fields, in call arguments inside a field and in format specs, quotes of the enclosing literal reused),
over names a support module next to the package makes evaluable; every drawn text is kept only if CPython evaluates it at that
very place without error or warning, names bound by ``:=`` are unbound again by a ``del`` statement.
Oracle: each package (unique name) is loaded statically and with ``force_inspection=True`` in
this child; normalised skeletons are compared, allowed differences are removed *by rule*
(dunder names the source does not assign, instance attributes, attribute docstrings, line
numbers, label vocabulary, origin of imported plain values).  Third leg: ``inspect.signature``
of the really imported objects.  Imports from outside the package are arbitrated by CPython (both target paths
must reach the same object; only plain values may lose their origin); names bound under ``if TYPE_CHECKING:`` only are a
static-only difference removed by a syntactic rule.  For every module body the static member names are also compared
with the namespace CPython built by running the module (what a wildcard import really bound).  For every def / class statement
of a compared body the statement as CPython parsed it is a witness too: the static agent must hold one decorator per decorator
expression and one base per base expression (an expression it cannot build is dropped silently otherwise); a class with a
computed base is judged against ``__bases__`` of the class CPython built, the label ``cached`` against the type of the object
CPython built.
"""
from __future__ import annotations

import ast
import functools
import importlib
import importlib.util
import inspect
import random
import sys

from vf.checks import c02
from vf.core.util import case_watchdog, tmp_tree
from vf.gen import exprs as gx

PROP = "C17"
LEVEL = "exploration"
ANCHORS = ["agents/inspector.py", "agents/nodes/runtime.py", "importer.py"]
RULE = ("generated importable packages (init + 2-3 modules, optional sub-package with 1-2 modules): functions over random parameter lists (all five kinds, defaults, "
        "annotations as objects / strings / under the annotations future import, resolvable at module level or not: nested "
        "classes, TYPE_CHECKING-only imports, type parameters, undefined names, non-expressions; return annotations; wraps and "
        "identity decorators; standard-library imports; wildcard imports over every __all__ shape, chains, sub-packages, "
        "name collisions; definitions inside executed and non-executed blocks of try/except/else/finally, except*, if/elif/else, "
        "match/case, with, for/while/else; defaults, decorator-factory arguments, base-class call arguments and class keywords "
        "drawn from the whole expression grammar incl. PEP 701 f-string spellings, kept when CPython evaluates them in place), classes with instance/static/class methods, properties, nested classes, single and cross-module "
        "inheritance, literal module/class attributes, __init__ with instance attributes, docstrings, imports of classes/"
        "functions/modules/plain values between the modules. distinct = digest of files; non-trivial = package with "
        "inheritance, a property and an intra-package import")
LEVEL_TEXT = ("Every generated package is analysed by both agents in one interpreter and the two trees are walked in "
              "parallel: member names and kinds at every level, parameters (names, kinds, required-ness) also against "
              "inspect.signature of the imported objects, base classes, docstrings of modules/classes/functions and the "
              "final targets of aliases must agree; only the differences the statement allows are filtered, by rule.")
LEVEL_NOTE = ("trusted: CPython import + inspect.signature; names bound only under `if TYPE_CHECKING:` are excluded from the "
              "member comparison (static-only by construction); attributes are bound to plain literals only (alias = func / "
              "lambda bindings are attributes for one agent and functions for the other: not generated)")
TECHNIQUE = "runtime monitoring: differential oracle (visitor vs inspector vs inspect.signature) over generated importable packages"
REQUIRED_COUNTERS = ["packages_compared", "members_compared", "functions_compared", "signatures_vs_cpython", "classes_compared",
                     "docstrings_compared", "aliases_compared", "functions_compared_annotated", "functions_compared_str_annotation",
                     "functions_compared_str_annotation_unevaluable", "functions_compared_return_annotation",
                     "functions_compared_wrapped", "external_imports_compared", "module_namespaces_vs_cpython",
                     "wildcard_imports_compared", "wildcard_source_all_absent", "wildcard_source_all_empty",
                     "wildcard_source_all_nonempty", "wildcard_source_all_augmented", "wildcard_source_all_composed",
                     "wildcard_source_all_lists_private", "wildcard_chain", "wildcard_of_package", "wildcard_in_subpackage",
                     "wildcard_name_also_bound_locally", "class_namespaces_vs_cpython", "defs_in_try_handler", "defs_in_trystar_handler",
                     "defs_in_match_case", "defs_in_if_body", "defs_in_if_orelse", "defs_in_try_body", "defs_in_try_orelse",
                     "defs_in_try_finalbody", "defs_in_with_body", "defs_in_for_body", "defs_in_for_orelse", "defs_in_while_body",
                     "defs_in_while_orelse", "fallback_idiom_defs", "non_taken_branch_names_excluded",
                     "defaults_compared", "default_repr_has_address", "default_is_container_with_address_in_repr", "default_has_dunder_name",
                     "default_is_partial", "default_is_enum_member", "default_is_nan_or_inf", "default_repr_is_long", "default_has_own_repr",
                     "docstrings_vs_cpython", "doc_multiline", "doc_summary_below_opening_quotes",
                     "doc_first_line_deeper_than_a_following_one", "doc_first_line_shallower_than_following_ones", "doc_with_tabs",
                     "doc_trailing_blank", "doc_blank_first_lines", "doc_empty_or_blank",
                     "default_exprs_compound", "default_expr_fstring", "default_expr_nested_fstring", "default_expr_fstring_reusing_quotes",
                     "default_expr_fstring_field_in_format_spec", "default_expr_walrus", "default_expr_lambda", "default_expr_conditional",
                     "default_expr_comprehension", "default_expr_unpacking", "default_expr_slice", "default_expr_operator",
                     "decorators_vs_source", "decorator_exprs_compound", "decorator_expr_nested_fstring",
                     "decorator_expr_fstring_reusing_quotes", "decorator_expr_walrus", "decorator_expr_lambda",
                     "decorator_expr_comprehension", "cached_label_vs_cpython", "class_bases_vs_source", "class_bases_vs_cpython",
                     "class_base_is_call", "base_exprs_compound", "base_expr_nested_fstring", "base_expr_fstring_reusing_quotes",
                     "base_expr_walrus", "base_expr_lambda", "base_expr_comprehension", "class_keyword_exprs_compound"]
EXHAUSTIVE = {"quick": False, "thorough": False}
ASSUMPTIONS = ["generated code has no import-time side effects; packages get unique names and are purged from sys.modules",
               "default values: the skeleton is name / kind / required-ness of each parameter; required-ness is judged against "
               "inspect.signature of the imported object, the TEXT of a default is not compared (source text for the static agent, "
               "repr or __name__ of the object for the dynamic one)",
               "docstrings: compared between the agents exactly, and against inspect.getdoc of the object's own __doc__ modulo trailing "
               "white space, an empty docstring counting as none",
               "the dynamic loader gets the interpreter's sys.path after the package root as search paths (the inspector imports with "
               "sys.path replaced by the search paths)",
               "branches of compound statements: the module CPython executed is the ground truth. A name written only in blocks that "
               "did not run (absent from the real namespace, every binding statement inside a compound statement; also when it arrives "
               "through a wildcard import of such a module) may appear in the static tree and is not judged; every name CPython bound "
               "is judged in full on the static side",
               "a name written in several branches is only generated so that the binding CPython executes is the one written last and "
               "all bindings are def / class / import statements (the optional-accelerator idiom); for assignments in if / except "
               "blocks the visitor deliberately keeps the first one ('prefer the no-exception case'), which no agent can decide",
               "expressions of the whole grammar are evaluable through a support module written next to the package (class `Any` whose "
               "class object and instances answer every operation with themselves and store nothing; imported, so both agents see an "
               "alias to an external class); a drawn expression is kept only when CPython evaluates it at its place without error or "
               "warning; names it binds with := are deleted right after the statement, so they are members for nobody",
               "decorators and computed bases: the count (and order) of decorator / base expressions of the statement CPython parsed "
               "is the ground truth for the static agent, __bases__ of the built class for the dynamic agent; which class a call "
               "returns is not asked of the static agent"]
KIND_TXT = {c02.PO: "positional-only", c02.PK: "positional or keyword", c02.VP: "variadic positional", c02.KO: "keyword-only",
            c02.VK: "variadic keyword"}


BUILTIN_TYPES = ["int", "str", "float", "bytes", "bool"]
# Imports from the standard library: (statement, names usable as annotations once it ran). Whether such a name is a class,
# a function, a module or a plain value is never looked up here: the oracle asks CPython (see compare_external).
EXTERNALS = [
    ("import typing", ["typing.Any", "typing.Optional[int]"]),
    ("import os", []),
    ("import collections.abc", ["collections.abc.Sequence"]),
    ("import os.path as osp", []),
    ("from typing import Any", ["Any"]),
    ("from typing import Optional as Opt", ["Opt[int]"]),
    ("from collections import OrderedDict", ["OrderedDict"]),
    ("from os.path import join", []),
    ("from functools import partial", ["partial"]),
    ("from enum import Enum", ["Enum"]),
    ("from abc import abstractmethod as abstract", []),
    ("from sys import maxsize", []),
    # implemented in C: built-in functions and classes, modules that name themselves differently (posix, _io)
    ("from math import sqrt", []),
    ("from io import StringIO", ["StringIO"]),
    ("from os import getcwd", []),
    ("from itertools import chain", ["chain"]),
    ("from time import sleep as pause", []),
    ("from typing import final", []),
]
# decorators of the standard library that hand the decorated function back: they change nothing of the skeleton
IDENTITY_DECORATORS = {"from abc import abstractmethod as abstract": "abstract", "from typing import final": "final"}
GUARDED_EXTERNALS = [("decimal", "Decimal"), ("fractions", "Fraction"), ("pathlib", "Path")]
PEP695 = sys.version_info >= (3, 12)


class Scope:
    """What an annotation / a default written at some place of a generated module may name.

    evaluable: expressions CPython can evaluate when the ``def`` statement runs (safe without quotes);
    deferred:  names that are legal only inside a string annotation or under ``from __future__ import annotations``:
               defined later in the module, nested in the enclosing class, imported under ``if TYPE_CHECKING:``,
               type parameters, or defined nowhere at all;
    defaults:  expressions usable as a default value at this place.
    """

    def __init__(self, future: bool, evaluable: list[str], deferred: list[str], defaults: list[str], ctx: dict | None = None) -> None:
        self.future, self.evaluable, self.deferred, self.defaults = future, list(evaluable), list(deferred), list(defaults)
        self.ctx = ctx if ctx is not None else {"pkg": "", "tag": "x", "n": 0}  # shared by the scopes of one module

    def child(self, evaluable: tuple | list = (), deferred: tuple | list = ()) -> Scope:
        return Scope(self.future, [*self.evaluable, *evaluable], [*self.deferred, *deferred], self.defaults, self.ctx)


def gen_ann(rng: random.Random, sc: Scope) -> str:
    """An annotation that leaves the module importable: any object, any string is legal for CPython."""
    if rng.random() < 0.05:
        return rng.choice(['"free text"', '"a b"', "None", "1", '"in:valid["', '""', "(int, str)"])
    use_def = bool(sc.deferred) and rng.random() < 0.5
    atom = rng.choice(sc.deferred if use_def else sc.evaluable)
    shape = rng.choice(["{}", "{}", "{}", "{} | None", "list[{}]", "dict[str, {}]", "tuple[{}, ...]"])
    if use_def and not sc.future:
        if "[" in shape and rng.random() < 0.4:
            return shape.format('"' + atom + '"')  # partially quoted: list["X"]
        return '"' + shape.format(atom) + '"'
    txt = shape.format(atom)
    return '"' + txt + '"' if rng.random() < 0.25 else txt


# Default values CPython can evaluate anywhere (no name of the module needed). What counts for the skeleton is whether a
# parameter HAS a default; its text may differ between the agents (source text vs repr of the object).
LITERAL_DEFAULTS = [
    "0", "'s'", "None", "1.5", "(1, 2)", "True", "[]", "{}", "set()", "frozenset({1})", "{'k': [1, (2, 3)]}", "range(3)",
    # negative and other unary / computed numbers
    "-1", "-2.5", "-1j", "+3", "~0", "1 + 2", "not 0", "1 if True else 2", "[x for x in range(3)]", "2 ** 70",
    # special floats (1e309 is the literal spelling of inf)
    "float('nan')", "float('inf')", "-float('inf')", "1e309", "-1e309", "-0.0",
    # bytes, Ellipsis, singletons
    "b'bytes'", "b'\\x00\\xff'", "bytearray(b'x')", "...", "Ellipsis", "NotImplemented", "__name__",
    # strings with quotes, newlines, escapes, prefixes, implicit concatenation, nothing at all
    '"it\'s"', "'say \"hi\"'", "'line\\nbreak'", "\'\'\'triple\'\'\'", "r'raw\\n'", "'a' 'b'", "''", "'\\u00e9\\u2603'", "'None'",
    "f'{1}'", "' at 0x7f'",
    # very long literals
    repr("x" * 300), "[" + ", ".join(map(str, range(120))) + "]", str(10 ** 60),
    # objects whose repr carries a memory address: sentinels, lambdas, containers holding them
    "object()", "[object()]", "{'k': object()}", "(object(), 1)", "lambda: 0", "lambda x, y=1: x", "[lambda: 0]",
    # functions, classes, builtins, methods as values
    "len", "print", "int", "type", "str.upper", "''.join", "[].append", "dict.fromkeys",
]


def gen_default(rng: random.Random, sc: Scope) -> str:
    """A default value: literal of any shape, an object defined or imported by the module, a name visible at this place, or
    (in modules with the grammar header) any expression of the grammar that CPython can evaluate there."""
    if sc.ctx.get("grammar") is not None and rng.random() < 0.3:
        return grammar_expr(sc)
    pools = [LITERAL_DEFAULTS, LITERAL_DEFAULTS]
    if sc.defaults:
        pools.append(sc.defaults)
    objs = sc.ctx.get("objects")
    if objs:
        pools += [objs, objs]
    return rng.choice(rng.choice(pools))


# -- expressions of the whole grammar, made evaluable ---------------------------------------------------------------------
# A support module next to the generated package (outside of it: for both agents its names are imports from elsewhere, like
# the standard library's). The class ``Any`` (and each instance of it) answers every operation an expression can apply with
# itself, so that a randomly drawn expression over it usually evaluates; a class, because both agents treat an imported
# class alike, while a callable instance bound in a module is an attribute for one agent and a function for the other (the
# domain restriction of DESIGN C17). ``mark`` builds identity decorators, ``base`` hands out a base class.
ANY_MODULE = "vfc17any"
ANY_SOURCE = '''"""Support objects for generated expressions: they accept whatever an expression does to them."""


def _same(self, *args, **kwargs):
    return self


def _getattr(self, name):
    if name.startswith("__") and name.endswith("__"):
        raise AttributeError(name)
    return self


OPERATIONS = {name: _same for name in (
    "__getitem__ __add__ __radd__ __sub__ __rsub__ __mul__ __rmul__ __matmul__ __rmatmul__ __truediv__ __rtruediv__ "
    "__floordiv__ __rfloordiv__ __mod__ __rmod__ __pow__ __rpow__ __lshift__ __rlshift__ __rshift__ __rrshift__ __and__ "
    "__rand__ __or__ __ror__ __xor__ __rxor__ __neg__ __pos__ __invert__ __abs__ __lt__ __le__ __gt__ __ge__").split()}
OPERATIONS.update(
    __getattr__=_getattr,
    __iter__=lambda self: iter((self,)),
    keys=lambda self: ["vfkey"],
    __bool__=lambda self: True,
    __len__=lambda self: 1,
    __contains__=lambda self, item: True,
    __index__=lambda self: 1,
    __format__=lambda self, spec: "any",
    # nothing can be stored: `for x.a in ...` / `for x[0] in ...` are legal comprehension targets, and state kept on these
    # objects would make the value of a later expression depend on what was evaluated before
    __setattr__=lambda self, name, value: None,
    __setitem__=lambda self, key, value: None,
)


class AnyType(type):
    """The class `Any` itself answers every operation with itself (calling it makes an instance)."""

    locals().update(OPERATIONS)


class Any(metaclass=AnyType):
    """Every operation on an instance answers with the instance."""

    locals().update(OPERATIONS)
    __call__ = _same

    def __init__(self, *args, **kwargs):
        pass

    def __repr__(self):
        return "<any>"


class Mixin:
    """A base class that accepts class keywords."""

    def __init_subclass__(cls, **kwargs):
        super().__init_subclass__()


def base(*args, **kwargs):
    """A base class computed by a call."""
    return Mixin


def mark(*args, **kwargs):
    """A decorator factory: the decorated object comes back unchanged."""
    def same(obj):
        return obj
    return same
'''
GRAMMAR_HEADER = (f"from {ANY_MODULE} import Any as _va, Any as _vb\nfrom {ANY_MODULE} import mark as _vmark, base as _vbase\n"
                  "import functools as _vft\n_vs = 'id'\n_vn = 4\n")
GRAMMAR_NAMES = ["_va", "_va", "_vb", "_vb", "_vs", "_vn", "int", "str"]
GRAMMAR_NUMBERS = [0, 1, 7, 12, 10 ** 30, 1.5, 0.0, 1e-07, 1e300, 2j, 0j, float("inf")]
FTEXT_312 = ["", "", "-x", "id: ", "<", ">", " and ", "x="]


class _EvalGen(gx.ExprGen):
    """The full (hostile) expression grammar of vf.gen.exprs over names the grammar header binds. Left out: ``yield`` /
    ``await`` (no expression of a def statement's header may hold them at module or class level) and integer powers /
    shifts of constants (evaluation must stay cheap: the left operand of ``**`` / ``<<`` is a name)."""

    def __init__(self, rng: random.Random, holes: float) -> None:
        super().__init__(rng, clean=False)
        self.p_hole = holes
        self.holes: list[str] = []

    def name(self) -> ast.Name:
        if self.rng.random() < self.p_hole:
            self.holes.append(f"_VFHOLE{len(self.holes)}_")  # replaced by an f-string in PEP 701 spelling after unparsing
            return ast.Name(self.holes[-1], ast.Load())
        return ast.Name(self.rng.choice(GRAMMAR_NAMES), ast.Load())

    def constant(self, *, no_int: bool = False) -> ast.Constant:
        node = super().constant(no_int=no_int)
        if isinstance(node.value, (int, float, complex)) and not isinstance(node.value, bool):
            v = self.rng.choice(GRAMMAR_NUMBERS)
            node = ast.Constant(1.5 if no_int and type(v) is int else v)
        return node

    def g_Yield(self, d: int, leak: bool) -> ast.expr:
        return self.expr(d, 0, leak)

    g_YieldFrom = g_Await = g_Yield

    def g_BinOp(self, d: int, leak: bool) -> ast.expr:
        op = self.rng.choice(gx.BINOPS)
        left = ast.Name(self.rng.choice(GRAMMAR_NAMES[:4]), ast.Load()) if op in (ast.Pow, ast.LShift) else self.sub(d, 2, leak)
        return ast.BinOp(left, op(), self.sub(d, 2, leak))


class GrammarExprs:
    """Draws expression texts CPython evaluates without error and without warning at the place they are written.

    Rejection sampling: a candidate is compiled and evaluated as a parameter default of a probe function (inside a probe
    class for class bodies: comprehensions and ``:=`` obey other rules there) in a namespace equal to what the grammar header
    binds. ``draw`` also reports the names the evaluation bound (``:=`` outside of lambdas), so that the generator can unbind
    them again: the workload is about expressions, not about members created by them."""

    def __init__(self, rng: random.Random) -> None:
        import collections

        self.rng = rng
        self.tries = 0
        self.rejected: collections.Counter = collections.Counter()
        support: dict = {"__name__": ANY_MODULE}
        exec(compile(ANY_SOURCE, ANY_MODULE, "exec"), support)  # noqa: S102
        self.ns = {"__name__": "vfc17probe", "_va": support["Any"], "_vb": support["Any"], "_vmark": support["mark"],
                   "_vbase": support["base"], "_vft": functools, "_vs": "id", "_vn": 4}

    def text(self, depth: int, holes: float) -> str:
        gen = _EvalGen(self.rng, holes)
        out = ast.unparse(gen.expr(depth))
        for hole in gen.holes:
            out = out.replace(hole, self.fstring_312(), 1)
        return out

    def field(self) -> str:
        """Text for a replacement field: any expression; what would end the field early (``:`` of a lambda, ``:=``,
        a leading brace) sits in parentheses or after a blank."""
        inner = self.text(self.rng.choice([0, 1, 1, 2]), 0.0)
        if self.rng.random() < 0.5 or not (inner[0].isalnum() or inner[0] in "_[('\""):
            inner = "(" + inner + ")"
        if inner.startswith(("lambda", "not ")) or ":=" in inner.split("(")[0]:
            inner = "(" + inner + ")"
        return inner

    def fstring_312(self) -> str:
        """An f-string spelled as PEP 701 (Python 3.12) allows: f-strings nested in replacement fields, in call arguments
        inside a field and in format specifications, with the quotes of the enclosing literal reused."""
        r = self.rng
        q = r.choice(['"', '"', "'", '"""'])
        alt = r.choice([q, q, q, "'" if q != "'" else '"'])  # mostly the same quotes again; sometimes the pre-3.12 alternation
        t1, t2 = r.choice(FTEXT_312), r.choice(FTEXT_312)
        x = self.field()
        form = r.randrange(8)
        if form == 0:
            return f"f{q}{t1}{{{x}}}{t2}{q}"                                   # string literals of the field may reuse the quote
        if form == 1:
            return f"f{q}{{f{alt}{{{x}}}{alt}}}{t2}{q}"                        # nested once
        if form == 2:
            return f"f{q}{t1}{{f{alt}{{f{alt}{{{x}}}{alt}}}{alt}}}{q}"         # nested twice
        if form == 3:
            return f"f{q}{t1}{{{x}!r:>{{_vn}}}}{q}"                            # conversion, field inside the format spec
        if form == 4:
            return f"f{q}{{_va(f{alt}{{{x}}}:{{_vn}}{alt})}}{q}"               # nested f-string as a call argument in a field
        if form == 5:
            return f"f{q}{{_va:{{f{alt}{{_vn}}{alt}}}}}{t2}{q}"                # nested f-string inside a format spec
        if form == 6:
            return f"f{q}{{f{alt}{t1}{{_vs}}{alt} + {x}}}{{{self.field()}}}{q}"  # nested f-string as an operand, two fields
        return f"f{q}{{{x}=}}{t2}{q}"                                          # self-documenting field

    def draw(self, in_class: bool) -> tuple[str, list[str]]:
        import warnings

        for _ in range(300):
            self.tries += 1
            try:
                text = self.text(self.rng.choice([1, 2, 2, 3, 3, 4]), 0.12)
            except Exception as exc:  # noqa: BLE001  -- a tree ast.unparse cannot write
                self.rejected["unparse " + type(exc).__name__] += 1
                continue
            if len(text) > 240 or "\n" in text:
                self.rejected["long"] += 1
                continue
            ns = dict(self.ns)
            code = (f"class _VfProbe:\n    def probe(self, p={text}):\n        pass\n" if in_class
                    else f"def _vf_probe(p={text}):\n    pass\n")
            try:
                with warnings.catch_warnings():
                    warnings.simplefilter("error")
                    exec(compile(code, "<c17-probe>", "exec"), ns)  # noqa: S102
                    func = ns["_VfProbe"].probe if in_class else ns["_vf_probe"]
                    repr(func.__defaults__)
            except Exception as exc:  # noqa: BLE001
                self.rejected[type(exc).__name__] += 1
                continue
            if in_class:
                bound = [k for k in vars(ns["_VfProbe"]) if not k.startswith("__") and k != "probe"]
            else:
                bound = [k for k in ns if k not in self.ns and k not in ("_vf_probe", "__builtins__")]
            return text, sorted(bound)
        return "0", []


def grammar_expr(sc: Scope) -> str:
    """An evaluable expression of the grammar for the place `sc` describes; names it binds are queued for unbinding."""
    text, bound = sc.ctx["grammar"].draw(bool(sc.ctx.get("in_class")))
    sc.ctx.setdefault("unbind", set()).update(bound)
    return text


def unbind_stmt(sc: Scope, ind: str) -> str:
    """``del`` statement for the names bound by ``:=`` in the expressions drawn since the last call."""
    names = sorted(sc.ctx.pop("unbind", ()))
    return f"{ind}del {', '.join(names)}\n" if names else ""


def grammar_args(rng: random.Random, sc: Scope) -> str:
    """Argument list (positional and keyword) of grammar expressions for a decorator factory / a base-class call."""
    args = [grammar_expr(sc) for _ in range(rng.choice([1, 1, 1, 2]))]
    if rng.random() < 0.3:
        args.append("key=" + grammar_expr(sc))
    return ", ".join(args)


def gen_prelude(rng: random.Random, tag: str) -> tuple[str, list[str]]:
    """Module-level objects made to be default values: (source, expressions usable as defaults after it).

    Sentinels, instances of classes without / with a ``__repr__`` (of several flavours), a ``functools.partial``, enum members
    and special floats of the standard library, modules, and module-level names spelled like parameters (``p0``), so that a
    default may read ``p1=p0``.
    """
    t, cls = tag.strip("_"), tag.strip("_").capitalize()
    shown = rng.choice(['"<shown>"', '"Shown()"', '""', '"<Shown object at 0x7f00>"', '"first\\nsecond"', '"None"'])
    src = (f"import functools as _ft\nimport math as _math\nimport re as _re\nfrom http import HTTPStatus as _Status\n"
           f"_{t}_MISSING = object()\n"
           f'class _{cls}Plain:\n    """Instances print with their address."""\n'
           f'class _{cls}Shown:\n    """Instances print as the class says."""\n    def __repr__(self):\n        return {shown}\n'
           f"_{t}_plain = _{cls}Plain()\n_{t}_shown = _{cls}Shown()\n")
    exprs = [f"_{t}_MISSING", f"_{t}_MISSING", f"_{t}_plain", f"_{t}_shown", f"_{cls}Plain()", f"_{cls}Shown()", f"_{cls}Plain", f"[_{t}_MISSING]",
             f"(_{t}_plain, 1)", f"{{'k': _{t}_MISSING}}", f"{{_{t}_MISSING}}", f"[_{t}_shown, _{t}_plain]",
             "_ft.partial(int, base=2)", f"_ft.partial(_{cls}Plain)", "_ft.partial(print, end='')", "_ft.reduce", "_ft", "_math",
             "_math.inf", "-_math.inf", "_math.nan", "_math.pi", "_re.IGNORECASE", "_re.I | _re.M", "_Status.OK", "_Status", "_re.compile('a')"]
    for i in rng.sample(range(4), rng.choice([0, 1, 2])):
        # module-level names spelled like parameters: `def f(p0, p1=p0)` reads the module's p0 when the def statement runs
        src += f"p{i} = {rng.choice(['7', repr('module level'), f'_{t}_MISSING', 'None'])}\n"
        exprs += [f"p{i}"] * 3
    return src, exprs


def rand_params(rng: random.Random, sc: Scope, first: str | None = None) -> str:
    """Parameter list and return annotation: ``(p0, /, *p1: "X", p2=0) -> T`` without the ``def name`` part."""
    n = rng.randint(0, 4)
    for _ in range(100):
        kinds = tuple(sorted(rng.choice([c02.PO, c02.PK, c02.PK, c02.KO, c02.VP, c02.VK]) for _ in range(n)))
        if kinds.count(c02.VP) <= 1 and kinds.count(c02.VK) <= 1:
            break
    else:
        kinds = ()
    npos = sum(1 for k in kinds if k in (c02.PO, c02.PK))
    fd = rng.randint(0, npos)
    dfl, seen = [], 0
    for k in kinds:
        if k in (c02.PO, c02.PK):
            dfl.append(1 if seen >= fd else 0)
            seen += 1
        elif k == c02.KO:
            dfl.append(rng.randint(0, 1))
        else:
            dfl.append(0)
    annotated = rng.random() < 0.5  # annotated functions tend to annotate several parameters
    parts = []
    for i, k in enumerate(kinds):
        name = f"p{i}"
        if k == c02.KO and c02.VP not in kinds and (i == 0 or kinds[i - 1] != c02.KO):
            parts.append("*")
        txt = {c02.VP: "*" + name, c02.VK: "**" + name}.get(k, name)
        if annotated and rng.random() < 0.6:
            txt += ": " + gen_ann(rng, sc)
            if dfl[i]:
                txt += " = " + gen_default(rng, sc)
        elif dfl[i]:
            txt += "=" + gen_default(rng, sc)
        parts.append(txt)
        if k == c02.PO and (i + 1 == len(kinds) or kinds[i + 1] != c02.PO):
            parts.append("/")
    if first:
        if annotated and rng.random() < 0.1:
            first += ": " + gen_ann(rng, sc)
        parts.insert(0, first)  # before a leading positional-only group `self` is positional-only too
    ret = " -> " + gen_ann(rng, sc) if (annotated and rng.random() < 0.6) or rng.random() < 0.05 else ""
    return "(" + ", ".join(parts) + ")" + ret


def doc_stmt(rng: random.Random, ind: str, text: str) -> str:  # noqa: PLR0911
    """A docstring statement at indentation `ind`: every layout whose value CPython stores in ``__doc__`` unchanged."""
    r = rng.random()
    if r < 0.4:
        return f'{ind}"""{text}"""\n'
    shapes = [
        f"{ind}'{text}'\n", f'{ind}"{text}"\n', f"{ind}\'\'\'{text}\'\'\'\n", f'{ind}u"""{text}"""\n',
        f'{ind}r"""{text} Raw \\n stays."""\n', f'{ind}"{text}\\nSecond line by escape."\n', f'{ind}"{text}" " Joined."\n',
        # summary on the opening line, body lines at block indentation, deeper, shallower, at column 0
        f'{ind}"""{text}\n\n{ind}More text.\n{ind}"""\n',
        f'{ind}"""{text}\n{ind}        deep\n{ind}    shallow\n{ind}"""\n',
        f'{ind}"""{text}\ncolumn zero\n{ind}indented\n{ind}"""\n',
        f'{ind}"""{text}\n{ind}Closing quotes on the text line."""\n',
        # summary on the line after the opening quotes
        f'{ind}"""\n{ind}{text}\n{ind}More text.\n{ind}"""\n',
        f'{ind}"""\n{ind}{text}\n{ind}"""\n',
        # first content line indented deeper than a following one / shallower than the following ones
        f'{ind}"""\n{ind}      {text}\n{ind}more\n{ind}"""\n',
        f'{ind}"""\n{ind}    {text}\n{ind}  two\n{ind}      six\n{ind}"""\n',
        f'{ind}"""\n{ind}{text}\n{ind}    indented more\n{ind}  and less\n{ind}"""\n',
        f'{ind}"""   {text}\n{ind}    Second.\n{ind}"""\n',
        # blank first lines, trailing blank lines, trailing spaces, whitespace-only lines inside
        f'{ind}"""\n\n\n{ind}{text}\n{ind}"""\n',
        f'{ind}"""{text}\n\n\n{ind}"""\n', f'{ind}"""{text}   """\n', f'{ind}"""{text}\n{ind}   \n      \n{ind}Last.   \n\n"""\n',
        # tabs
        f'{ind}"""\n\t{text}\n\tTabbed too.\n"""\n', f'{ind}"""{text}\n{ind}\tTab after spaces.\n{ind}"""\n', f'{ind}"""\t{text}\t"""\n',
        # nothing / blanks only / non-ASCII
        f'{ind}""""""\n', f'{ind}"""   """\n', f'{ind}"""\n{ind}"""\n', f'{ind}"""{text} \u00e9\u2603 \u4e2d"""\n',
    ]
    return rng.choice(shapes)


def gen_def(rng: random.Random, sc: Scope, ind: str, name: str, first: str | None, doc: str, deco: list[str] | None,
            pre: tuple = (), allow_async: float = 0.2) -> str:
    """One function definition: optional decorators, async, PEP 695 type parameter, annotations, docstring."""
    kw = "async def" if rng.random() < allow_async else "def"
    tp = ""
    if PEP695 and rng.random() < 0.08:
        tp = "[T]"
        sc = sc.child(evaluable=["T", "T"], deferred=["T"])
    grammar = sc.ctx.get("grammar") is not None
    sc.ctx["in_class"] = bool(ind)
    decos = list(pre)
    for d in deco or ():
        # functools.wraps decorators (the signature CPython reports is the decorated function's) and identity decorators
        if rng.random() < 0.15:
            decos.append(d)
    if grammar and rng.random() < 0.12:
        # decorator factories called with expressions of the whole grammar: an identity decorator anywhere in the stack,
        # the standard library's cache (the decorated object is no plain function any more) next to the function
        decos.insert(rng.randint(0, len(decos)), f"_vmark({grammar_args(rng, sc)})")
    if grammar and rng.random() < 0.06:
        decos.append(f"_vft.lru_cache(maxsize={rng.choice(['None', '8', '_vn'])}, typed={grammar_expr(sc)})")
    src = "".join(f"{ind}@{d}\n" for d in decos)
    src += f"{ind}{kw} {name}{tp}{rand_params(rng, sc, first)}:"
    if doc:
        src += "\n" + doc_stmt(rng, ind + "    ", doc).rstrip("\n")
    return src + f"\n{ind}    return 1\n" + unbind_stmt(sc, ind)


TRUE_CONDITIONS = ['__name__ != "__main__"', 'len("ab") == 2', "isinstance(1, int)", 'not ""', "True", "1", "not False"]
FALSE_CONDITIONS = ['__name__ == "__main__"', 'len("ab") == 3', "isinstance(1, str)", '""', "False", "0", "not True"]
MATCHES = [("1", "1", "2"), ("(1, 2)", "(1, _vf_captured)", "(3, _)"), ('"posix"', '"posix"', '"nt"'), ('len("ab")', "2", "3"), ("(1, 2)", "(1, _)", "(3, _)"),
           ("None", "None", "0"), ('{"k": 1}', '{"k": 1}', '{"z": _}'), ("1", "1 | 2", "3 | 4"), ("1.5", "float()", "str()"), ("2", "int()", "str()"), ('"a"', '"a" | "b"', '"c"'), ("[1]", "[1]", "[]"),
           ("(1, 2)", "[1, *_vf_rest]", "[]")]


def decoy(rng: random.Random, ind: str, name: str, in_class: bool, kinds: tuple = ("function", "class", "value", "import")) -> str:
    """A definition for a branch that never runs: CPython binds nothing, whatever the static agent makes of it."""
    k = rng.choice(kinds)
    if k == "function":
        return (f'{ind}def {name}({"self, " if in_class else ""}not_taken, other=0):\n{ind}    """Never defined when the module runs."""\n'
                f"{ind}    return 0\n")
    if k == "class":
        return (f'{ind}class {name}:\n{ind}    """Never defined when the module runs."""\n{ind}    flag = 0\n'
                f"{ind}    def probe(self):\n{ind}        return 0\n")
    if k == "value":
        return f"{ind}{name} = 0\n"
    return rng.choice([f"{ind}from os import sep as {name}\n", f"{ind}import json as {name}\n"])


def wrap_block(rng: random.Random, sc: Scope, ind: str, taken: str, name: str, kind: str, in_class: bool = False) -> str:  # noqa: C901, PLR0912, PLR0915
    """Put the definition `taken` (text at indentation `ind`) into a compound statement so that CPython runs exactly it.

    Other branches get definitions under fresh names, or under the *same* name when they are ``def``/``class`` statements
    written before the one that runs (the fallback idiom: the binding that counts is the last one written and executed).
    """
    ctx = sc.ctx

    def fresh() -> str:
        ctx["n"] += 1
        return f"{name.lower()}_nt{ctx['n']}"

    def deeper(text: str) -> str:
        return "".join("    " + ln if ln.strip() else ln for ln in text.splitlines(True))

    i1 = ind + "    "
    redefinable = kind in ("function", "class")
    T = deeper(taken)

    def D(before: bool = False) -> str:  # noqa: N802
        if before and redefinable and rng.random() < 0.5:
            return decoy(rng, i1, name, in_class, ("function", "class"))
        return decoy(rng, i1, fresh(), in_class)

    def X() -> str:  # noqa: N802  -- something harmless that really runs
        return rng.choice([f"{i1}pass\n", f"{i1}{fresh().replace('_nt', '_run')} = 1\n"])

    form = rng.choice(["try_except", "try_except", "try_except", "try_else_finally", "except_star", "if", "if", "match", "match",
                       "with", "for", "while"])
    if form == "try_except":
        raisers = [("import _vf_missing_accelerator\n", "import"), ('raise ImportError("no accelerator")\n', "import"),
                   ("_vf_undefined_name\n", "name"), ("from _vf_missing_accelerator import speedup\n", "import")]
        if redefinable:  # the optional-accelerator idiom: the same name is imported in the try body and defined in the handler
            raisers += [(f"from {ctx['pkg']}._vf_speedups import {name}\n", "import"), (f"import _vf_missing_accelerator as {name}\n", "import"),
                        (f"from ._vf_speedups import {name}\n", "import")] * 2
        raiser, exc = rng.choice(raisers)
        heads = {"import": ["except ImportError:", "except (ImportError, AttributeError):", "except Exception as exc:", "except:",
                            "except ImportError as error:"],
                 "name": ["except NameError:", "except (NameError, ImportError):", "except Exception:", "except:"]}[exc]
        if "missing" in raiser or "speedups" in raiser:
            heads = [*heads, "except ModuleNotFoundError:"]
        out = f"{ind}try:\n{i1}{raiser}"
        if rng.random() < 0.3:
            out += f"{ind}except KeyError:\n{D(before=True)}"
        out += f"{ind}{rng.choice(heads)}\n{T}"
        if rng.random() < 0.2:
            out += f"{ind}finally:\n{X()}"
        return out
    if form == "try_else_finally":
        where = rng.choice(["try", "else", "finally"])
        out = f"{ind}try:\n{T if where == 'try' else X()}{ind}except ImportError:\n{D()}"
        if where == "else" or rng.random() < 0.3:
            out += f"{ind}else:\n{T if where == 'else' else X()}"
        if where == "finally" or rng.random() < 0.3:
            out += f"{ind}finally:\n{T if where == 'finally' else X()}"
        return out
    if form == "except_star":
        out = f'{ind}try:\n{i1}raise ExceptionGroup("optional parts", [ImportError("no accelerator")])\n'
        if rng.random() < 0.4:
            out += f"{ind}except* KeyError:\n{D(before=True)}"
        return out + f"{ind}except* {rng.choice(['ImportError', '(ImportError, OSError)', 'Exception'])}:\n{T}"
    if form == "if":
        yes, no = rng.choice(TRUE_CONDITIONS), rng.choice(FALSE_CONDITIONS)
        where = rng.choice(["if", "elif", "else"])
        if where == "if":
            if rng.random() < 0.03:
                yes = f"(_{fresh().lstrip('_').replace('_nt', '_wal')} := 2) > 1"
            out = f"{ind}if {yes}:\n{T}"
            if rng.random() < 0.5:
                out += (f"{ind}elif {rng.choice(TRUE_CONDITIONS + FALSE_CONDITIONS)}:\n{D()}" if rng.random() < 0.4 else "") + f"{ind}else:\n{D()}"
            return out
        if where == "elif":
            return f"{ind}if {no}:\n{D(before=True)}{ind}elif {yes}:\n{T}" + (f"{ind}else:\n{D()}" if rng.random() < 0.5 else "")
        return f"{ind}if {no}:\n{D(before=True)}" + (f"{ind}elif {rng.choice(FALSE_CONDITIONS)}:\n{D(before=True)}" if rng.random() < 0.3 else "") + f"{ind}else:\n{T}"
    if form == "match":
        # patterns that capture a name bind it in a position the visitor has no handler for: rare
        subject, hit, miss = rng.choice([mt for mt in MATCHES if "_vf_" not in mt[1]] if rng.random() < 0.9 else MATCHES)
        i2 = i1 + "    "
        T2 = deeper(T)  # noqa: N806
        dec = lambda before: deeper(D(before))  # noqa: E731
        out = f"{ind}match {subject}:\n"
        if rng.random() < 0.6:
            out += f"{i1}case {miss}:\n{dec(True)}"
        if rng.random() < 0.6:
            out += f"{i1}case {hit}" + (" if True" if rng.random() < 0.2 else "") + f":\n{T2}" + (f"{i1}case _:\n{dec(False)}" if rng.random() < 0.5 else "")
        else:
            out += f"{i1}case _:\n{T2}"
        del i2
        return out
    if form == "with":
        # `as` binds a (private) name in a position the visitor has no handler for
        target = f" as _{fresh().lstrip('_').replace('_nt', '_w')}" if rng.random() < 0.04 else ""
        return f"{ind}with memoryview(b\"\"){target}:\n{T}"
    if form == "for":
        var = f"_{fresh().lstrip('_').replace('_nt', '_i')}"
        if rng.random() < 0.6:
            # mostly the loop variable is unbound again before anyone can see it; otherwise it stays a (private) name
            return (f"{ind}for {var} in range(1):\n{T}" + (f"{ind}else:\n{X()}" if rng.random() < 0.4 else "")
                    + (f"{ind}del {var}\n" if rng.random() < 0.95 else ""))
        return f"{ind}for {var} in ():\n{D(before=True)}{ind}else:\n{T}"
    if rng.random() < 0.6:
        return f"{ind}while True:\n{T}{i1}break\n" + (f"{ind}else:\n{D()}" if rng.random() < 0.4 else "")
    return f"{ind}while {rng.choice(FALSE_CONDITIONS)}:\n{D(before=True)}{ind}else:\n{T}"


def maybe_wrap(rng: random.Random, sc: Scope, ind: str, taken: str, name: str, kind: str, in_class: bool = False, p: float = 0.25) -> str:
    if rng.random() >= p:
        return taken
    out = wrap_block(rng, sc, ind, taken, name, kind, in_class)
    if rng.random() < 0.15:  # compound statements nest
        out = wrap_block(rng, sc, ind, out, name, "nested", in_class)
    return out


def gen_class(rng: random.Random, sc: Scope, name: str, bases: list[str], deco: list[str] | None, indent: str = "", depth: int = 0,
              outer: tuple = ()) -> str:
    ind = indent + "    "
    src, after = "", ""
    if sc.ctx.get("grammar") is not None:
        # expressions of the whole grammar in the class statement: arguments of a decorator factory, of a call that computes
        # a base class (written last: a fresh class may follow any other base in the MRO), values of class keywords
        sc.ctx["in_class"] = bool(indent)
        bases = list(bases)
        if rng.random() < 0.12:
            src += f"{indent}@_vmark({grammar_args(rng, sc)})\n"
        if rng.random() < 0.2:
            bases.append(f"_vbase({grammar_args(rng, sc)})")
            if rng.random() < 0.3:
                bases.append(f"tag={grammar_expr(sc)}")
        after = unbind_stmt(sc, indent)
    src += f"{indent}class {name}" + (f"({', '.join(bases)})" if bases else "") + ":\n"
    if rng.random() < 0.6:
        src += doc_stmt(rng, ind, f"Class {name}.")
    # names of classes that are no module-level globals (this class when nested, its own nested class): a string
    # annotation naming them is a forward reference only a type checker can follow
    inner = name + "Inner" if depth == 0 and rng.random() < 0.4 else None
    inner_first = inner is not None and rng.random() < 0.5
    msc = sc.child(deferred=[name, *outer])
    if inner:
        msc = msc.child(evaluable=[inner, inner] if inner_first else (), deferred=[inner, inner, f"{name}.{inner}"])
    if inner and inner_first:
        src += gen_class(rng, sc, inner, [], deco, ind, depth + 1, outer=(name,))
    for i in range(rng.randint(1, 4)):
        r = rng.random()
        mname = f"{name.lower()}_m{i}"
        doc = f"Doc of {mname}." if rng.random() < 0.5 else ""
        kind = "function"
        if r < 0.35:
            chunk = gen_def(rng, msc, ind, mname, "self", doc, deco)
        elif r < 0.5:
            chunk = gen_def(rng, msc, ind, mname, None, doc, deco, pre=("staticmethod",))
        elif r < 0.65:
            chunk = gen_def(rng, msc, ind, mname, "cls", doc, deco, pre=("classmethod",))
        elif r < 0.8:
            ret = " -> " + gen_ann(rng, msc) if rng.random() < 0.3 else ""
            # functools is imported by the modules that define a wraps decorator
            prop = "functools.cached_property" if any(d.endswith("_deco") for d in deco or ()) and rng.random() < 0.3 else "property"
            chunk = f"{ind}@{prop}\n{ind}def {mname}(self){ret}:" + ("\n" + doc_stmt(rng, ind + "    ", doc).rstrip("\n") if doc else "") + f"\n{ind}    return 1\n"
        else:
            kind = "value"
            ann = ": " + gen_ann(rng, msc) if rng.random() < 0.25 else ""
            chunk = f"{ind}{mname}{ann} = {rng.choice(['1', repr('v'), '(1, 2)', 'None', '2.5'])}\n"
        src += maybe_wrap(rng, msc, ind, chunk, mname, kind, in_class=True, p=0.15)
        if rng.random() < 0.002:
            src += f"{ind}_{mname.lstrip('_')}_u, _{mname.lstrip('_')}_v = 1, 2\n"  # unpacking assignment: binds two (private) class attributes
    if rng.random() < 0.4:
        msc.ctx["in_class"] = True
        sig = "(self, a=0)" if rng.random() < 0.5 else rand_params(rng, msc, "self").split(" -> ")[0]
        src += f"{ind}def __init__{sig}:\n{ind}    self.inst_{name.lower()} = 0\n" + unbind_stmt(msc, ind)
    if inner and not inner_first:
        src += gen_class(rng, sc, inner, [], deco, ind, depth + 1, outer=(name,))
    return src + after


class Mod:
    """A module of the generated package: dotted path below the package root, identifier-safe tag for member names."""

    def __init__(self, path: str, tag: str, is_pkg: bool = False) -> None:
        self.path, self.tag, self.is_pkg = path, tag, is_pkg
        self.parts = path.split(".")
        self.pkg_parts = self.parts if is_pkg else self.parts[:-1]
        self.exported: list[tuple[str, str]] = []   # names a later module may import explicitly
        self.star: list[tuple[str, str]] = []       # names `from <this> import *` binds for sure (with their kinds)
        self.all: list[str] | None = None           # value of __all__ once the module ran, None when absent
        self.all_is_list = True


def rel_import(cur: Mod, target: Mod) -> str:
    """Relative spelling (``.a``, ``..a``, ``.sub.x``) of `target` as seen from `cur`."""
    common = 0
    while common < min(len(cur.pkg_parts), len(target.parts)) and cur.pkg_parts[common] == target.parts[common]:
        common += 1
    return "." * (len(cur.pkg_parts) - common + 1) + ".".join(target.parts[common:])


def gen_all(rng: random.Random, name: str, mod: Mod, names: list[str], wild: list[Mod]) -> tuple[str, str, str]:  # noqa: C901, PLR0912
    """The ``__all__`` of a module: (import line needed, text for the top, text for the bottom of the module).

    Every shape griffe documents as supported and CPython accepts: absent, empty (list, tuple, annotated), list / tuple /
    annotated literal, literal then ``+=``, composed from the ``__all__`` of a module whose names were all imported here
    (through a wildcard import). Listed names always exist in the module (CPython refuses a wildcard import otherwise), but
    they may be private, dunder, imported, or sub-modules.
    """
    shape = rng.choice(["absent"] * 7 + ["empty"] * 4 + ["literal"] * 5 + ["augmented"] * 2 + ["composed"] * 3)
    composable = [w for w in wild if w.all is not None]
    if shape == "composed" and not composable:
        shape = "literal"
    if shape == "absent" or (not names and shape != "empty"):
        mod.all = None
        return "", "", ""
    pick = rng.sample(names, rng.randint(1, len(names))) if names else []
    lit = lambda xs, tup=False: ("(" + ", ".join(map(repr, xs)) + ("," if len(xs) == 1 else "") + ")") if tup else "[" + ", ".join(map(repr, xs)) + "]"  # noqa: E731
    imp = top = bottom = ""
    if shape == "empty":
        mod.all = []
        txt = rng.choice(["__all__ = []", "__all__ = ()", "__all__: list[str] = []", "__all__: tuple = ()", "__all__ = list()"][:4])
        mod.all_is_list = "[" in txt.split("=")[1]
        top = txt + "\n"
    elif shape == "literal":
        mod.all = pick
        tup = rng.random() < 0.3
        mod.all_is_list = not tup
        ann = rng.choice(["", "", ": list[str]" if not tup else ": tuple"])
        top = f"__all__{ann} = {lit(pick, tup)}\n"
    elif shape == "augmented":
        cut = rng.randint(0, len(pick))  # 0: starts empty, grows later
        mod.all = pick
        top = f"__all__ = {lit(pick[:cut])}\n"
        rest = pick[cut:]
        mid = rng.randint(0, len(rest))
        bottom = "".join(f"__all__ += {lit(part, rng.random() < 0.3)}\n" for part in (rest[:mid], rest[mid:]) if part)
        bottom = bottom or "__all__ += []\n"
    else:
        src_mod = rng.choice(composable)
        extras = [n for n in pick if n not in src_mod.all][:3]
        mod.all = [*src_mod.all, *extras]
        form = rng.random()
        if form < 0.5:
            var = f"_{src_mod.tag}_all"
            how = rng.random()
            imp = (f"from {name}.{src_mod.path} import __all__ as {var}\n" if how < 0.5 else f"from {rel_import(mod, src_mod)} import __all__ as {var}\n")
            ref = var
        else:
            var = f"_{src_mod.tag}_m"
            imp = f"import {name}.{src_mod.path} as {var}\n"
            ref = f"{var}.__all__"
        r = rng.random()
        if r < 0.35 and src_mod.all_is_list:
            top = f"__all__ = {ref} + {lit(extras)}\n"
        elif r < 0.7:
            top = f"__all__ = [*{ref}, {', '.join(map(repr, extras))}]\n" if extras else f"__all__ = [*{ref}]\n"
        else:
            top = f"__all__ = [{', '.join(map(repr, extras))}{', ' if extras else ''}*{ref}]\n"
            mod.all = [*extras, *src_mod.all]
    if rng.random() < 0.5 and not bottom:
        top, bottom = "", top  # __all__ at the end of the module
    return imp, top, bottom


def gen_module(rng: random.Random, name: str, mod: Mod, prevs: list[Mod]) -> str:  # noqa: C901, PLR0912, PLR0915
    m = mod.tag
    src = doc_stmt(rng, "", f"Module {m}.") if rng.random() < 0.7 else ""
    future = rng.random() < 0.3
    if future:
        src += "from __future__ import annotations\n"
    defs: list[tuple[str, str]] = []
    evaluable, deferred, defaults = list(BUILTIN_TYPES), [f"Missing{m.upper()}"], ["len"]
    # imports from the standard library
    stmts = rng.sample(EXTERNALS, rng.choice([0, 0, 1, 2, 3]))
    tc_mode = rng.choice([None, None, "from", "attr", "local"])
    use_wraps = rng.random() < 0.4
    lines = [s for s, _ in stmts]
    if tc_mode == "from":
        lines.append("from typing import TYPE_CHECKING")
    if tc_mode == "attr" and "import typing" not in lines:
        lines.append("import typing")
        stmts.append(EXTERNALS[0])
    if use_wraps:
        lines.append("import functools")
    rng.shuffle(lines)
    src += "".join(ln + "\n" for ln in lines)
    for _, anns in stmts:
        evaluable += anns
    # imports from earlier modules: single names, the module itself, everything (`import *`)
    wild: list[Mod] = []
    for prev in prevs:
        stmts_prev = []
        for nm, kind in rng.sample(prev.exported, min(len(prev.exported), rng.randint(0, 3))):
            form = rng.random()
            if form < 0.5:
                stmts_prev.append((f"from {name}.{prev.path} import {nm}\n", [(nm, "imported-" + kind)]))
            elif form < 0.75:
                stmts_prev.append((f"from {rel_import(mod, prev)} import {nm} as {nm}_x\n", [(nm + "_x", "imported-" + kind)]))
        if rng.random() < 0.3:
            parent = ".".join([name, *prev.parts[:-1]])
            stmts_prev.append((f"from {parent} import {prev.parts[-1]} as mod_{prev.tag}\n", [(f"mod_{prev.tag}", "imported-module")]))
            evaluable += [f"mod_{prev.tag}.{nm}" for nm, kind in prev.exported if kind == "class"][:1]
        if rng.random() < 0.3:
            target = f"{name}.{prev.path}" if rng.random() < 0.5 else rel_import(mod, prev)
            # CPython rebinds names in statement order: the wildcard may come before, between or after the single imports
            star = (f"from {target} import *\n", [(nm, "imported-" + kind) for nm, kind in prev.star])
            # a name of the wildcard defined here as well: the later statement wins, for CPython by execution order
            clash = [nm for nm, kind in prev.star if kind in ("function", "value") and not nm.startswith("__")]
            if clash and rng.random() < 0.25:
                nm = rng.choice(clash)
                own = f'def {nm}(shadow):\n    """Own {nm} of {m}."""\n    return 1\n'
                if rng.random() < 0.5:
                    stmts_prev.append((own, []))                    # defined first, rebound by the wildcard import
                    stmts_prev.append(star)
                else:
                    stmts_prev.append(star)
                    stmts_prev.append((own, [(nm, "function")]))    # imported first, rebound by the definition
            else:
                stmts_prev.insert(rng.randint(0, len(stmts_prev)), star)
            wild.append(prev)
        for text, bound in stmts_prev:
            src += text
            for nm, kind in bound:
                defs = [d for d in defs if d[0] != nm] + [(nm, kind)]
    evaluable += [d for d, k in defs if k == "imported-class"]
    # imports for type checkers only: the names do not exist when the module runs
    if tc_mode:
        if tc_mode == "local":
            src += "TYPE_CHECKING = False\n"
        src += "if typing.TYPE_CHECKING:\n" if tc_mode == "attr" else "if TYPE_CHECKING:\n"
        cands = [(f"{name}.{p.path}", nm) for p in prevs for nm, kind in p.exported if kind == "class" and not nm.startswith("_")]
        for modname, nm in rng.sample(cands, min(len(cands), rng.randint(0, 2))) or [rng.choice(GUARDED_EXTERNALS)]:
            src += f"    from {modname} import {nm} as {nm}_t\n"
            deferred += [f"{nm}_t"] * 2
    objects: list[str] = []
    if rng.random() < 0.6:
        prelude, objects = gen_prelude(rng, m)
        src += prelude
    grammar = None
    if rng.random() < 0.5:
        # names for expressions of the whole grammar (defaults, decorator and base-class arguments)
        grammar = getattr(rng, "vf_grammar", None)
        if grammar is None:
            grammar = rng.vf_grammar = GrammarExprs(rng)
        src += GRAMMAR_HEADER
    head, src = src, ""
    deco = [d for st, d in IDENTITY_DECORATORS.items() if st in lines]
    if use_wraps:
        deco.append(f"{m}_deco")
        src += (f"def {m}_deco(fn):\n    @functools.wraps(fn)\n    def wrapper(*args, **kwargs):\n        return fn(*args, **kwargs)\n"
                "    return wrapper\n")
        defs.append((f"{m}_deco", "function"))
    plan = []
    for i in range(rng.randint(2, 5)):
        r = rng.random()
        plan.append((f"{m}_o{i}", "function" if r < 0.4 else "class" if r < 0.75 else "value"))
    # names a wildcard import skips unless __all__ lists them
    if rng.random() < 0.35:
        plan.append((f"_{m}_p{len(plan)}", rng.choice(["function", "class", "value"])))
    if rng.random() < 0.15:
        plan.append(("__version__", "value"))
    cap = lambda nm: nm.capitalize() if not nm.startswith("_") else "_" + nm[1:].capitalize()  # noqa: E731
    later = [cap(nm) for nm, kind in plan if kind == "class"]
    ctx = {"pkg": name, "tag": m, "n": 0, "objects": objects, "grammar": grammar}
    for nm, kind in plan:
        sc = Scope(future, evaluable, deferred + later, defaults, ctx)
        if kind == "function":
            doc = f"Function {nm}." if rng.random() < 0.5 else ""
            src += maybe_wrap(rng, sc, "", gen_def(rng, sc, "", nm, None, doc, deco, allow_async=0.15), nm, "function")
            defs.append((nm, "function"))
        elif kind == "class":
            cname = cap(nm)
            bases = []
            classes_here = [d for d, k in defs if k in ("class", "imported-class")]
            if classes_here and rng.random() < 0.6:
                bases = [rng.choice(classes_here)]
            later.remove(cname)
            csc = Scope(future, evaluable, deferred + later, defaults, ctx)
            src += maybe_wrap(rng, csc, "", gen_class(rng, csc, cname, bases, deco), cname, "class")
            defs.append((cname, "class"))
            evaluable.append(cname)
            defaults.append(cname)
        else:
            ann = ": " + gen_ann(rng, sc) if rng.random() < 0.2 else ""
            src += maybe_wrap(rng, sc, "", f"{nm}{ann} = {rng.choice(['1', repr('text'), '[1, 2]', 'None', '3.5', '{1: 2}'])}\n", nm, "value")
            defs.append((nm, "value"))
            defaults.append(nm)
        if rng.random() < 0.004:
            # unpacking assignments bind (private) module attributes without a plain-name target
            t = nm.strip("_")
            src += rng.choice([f"_{t}_u, _{t}_v = 1, 2\n", f"[_{t}_u, _{t}_v] = 1, 2\n", f"_{t}_u, *_{t}_v = 1, 2, 3\n",
                               f"_{t}_u, (_{t}_v, _{t}_w) = 1, (2, 3)\n"])
    kinds = {d: k.replace("imported-", "") for d, k in defs}
    imp, top, bottom = gen_all(rng, name, mod, list(kinds), wild)
    mod.exported = [(d, k) for d, k in kinds.items() if not d.startswith("mod_")]
    if mod.all is None:
        mod.star = [(d, k) for d, k in kinds.items() if not d.startswith("_")]
    else:
        mod.star = [(d, kinds[d]) for d in dict.fromkeys(mod.all)]
    return head + imp + top + src + bottom


def gen_package(rng: random.Random, name: str) -> dict[str, str]:
    files = {}
    mods = [Mod("a", "a"), Mod("b", "b")] + ([Mod("c", "c")] if rng.random() < 0.4 else [])
    if rng.random() < 0.4:
        # a sub-package: its modules import from the modules above (`..a`), its __init__ from its own modules (`.x`)
        mods += [Mod("sub.x", "sx")] + ([Mod("sub.y", "sy")] if rng.random() < 0.4 else []) + [Mod("sub", "s", is_pkg=True)]
    for mi, mod in enumerate(mods):
        fname = f"{name}/{mod.path.replace('.', '/')}" + ("/__init__.py" if mod.is_pkg else ".py")
        files[fname] = gen_module(rng, name, mod, mods[:mi])
    init = doc_stmt(rng, "", f"Package {name}.")
    top_level = [mod for mod in mods if len(mod.parts) == 1]
    for mod in mods:
        stmts = [f"from {name}.{mod.path} import {nm}\n" for nm, kind in rng.sample(mod.exported, min(len(mod.exported), 2 if mod in top_level else 1))]
        if rng.random() < 0.25:
            target = f"{name}.{mod.path}" if rng.random() < 0.5 else "." + mod.path
            stmts.insert(rng.randint(0, len(stmts)), f"from {target} import *\n")
        init += "".join(stmts)
    # sub-modules imported by the package itself, under their own and under other names
    for mod in top_level:
        m = mod.path
        r = rng.random()
        if r < 0.2:
            init += f"from . import {m} as {m}_alias\n"
        elif r < 0.35:
            init += f"import {name}.{m} as {m}_mod\n"
        elif r < 0.5:
            init += f"from {name} import {m}\n"
    init += "top_value = 1\n"
    files[f"{name}/__init__.py"] = init
    if any(GRAMMAR_HEADER in text for text in files.values()):
        files[ANY_MODULE + ".py"] = ANY_SOURCE  # next to the package, not in it
    return files


def shards(tier: str, seed: int) -> list[dict]:
    n = 120 if tier == "quick" else 1400
    return [{"count": n} for _ in range(16)]


# -- comparison ---------------------------------------------------------------------------------
@functools.lru_cache(maxsize=64)
def _parse(src: str) -> ast.Module:
    return ast.parse(src)


def _sub_bodies(st: ast.stmt):  # noqa: ANN202
    """(label, statement list) for every block nested directly in a compound statement."""
    kind = type(st).__name__.lower().replace("async", "")
    if isinstance(st, (ast.If, ast.For, ast.AsyncFor, ast.While)):
        return [(f"{kind}_body", st.body), (f"{kind}_orelse", st.orelse)]
    if isinstance(st, (ast.Try, ast.TryStar)):
        return [(f"{kind}_body", st.body), *[(f"{kind}_handler", h.body) for h in st.handlers], (f"{kind}_orelse", st.orelse),
                (f"{kind}_finalbody", st.finalbody)]
    if isinstance(st, (ast.With, ast.AsyncWith)):
        return [("with_body", st.body)]
    if isinstance(st, ast.Match):
        return [("match_case", c.body) for c in st.cases]
    return []


def _target_names(node: ast.AST) -> list[str]:
    return [n.id for n in ast.walk(node) if isinstance(n, ast.Name) and isinstance(n.ctx, ast.Store)]


class Bindings:
    """Who binds which name in one module / class body, read off the syntax only.

    plain:   name -> labels of the places where a def / class / import / assignment to a bare name binds it, in source order
             ("top" for the body itself, "try_handler", "match_case", "if_orelse", ... for blocks of compound statements);
    targets: names bound in positions the visitor has no handler for: unpacking assignments, ``for`` and ``with ... as``
             targets, ``:=`` in a statement's own expressions, captures of ``case`` patterns;
    idiom:   names imported in a ``try`` body and defined by def / class in a handler of the same ``try``.
    """

    def __init__(self) -> None:
        self.plain: dict[str, list[str]] = {}
        self.targets: set[str] = set()
        self.idiom: set[str] = set()

    @property
    def top(self) -> set[str]:
        return {n for n, labels in self.plain.items() if "top" in labels}

    @property
    def nested(self) -> set[str]:
        return {n for n, labels in self.plain.items() if any(lb != "top" for lb in labels)}


def _collect(body: list, label: str, out: Bindings) -> None:  # noqa: C901, PLR0912
    for st in body:
        names: list[str] = []
        if isinstance(st, (ast.FunctionDef, ast.AsyncFunctionDef, ast.ClassDef)):
            names = [st.name]
        elif isinstance(st, ast.Assign):
            names = [t.id for t in st.targets if isinstance(t, ast.Name)]
            for t in st.targets:
                if isinstance(t, (ast.Tuple, ast.List)):
                    out.targets.update(_target_names(t))
        elif isinstance(st, ast.AnnAssign) and isinstance(st.target, ast.Name):
            names = [st.target.id]
        elif isinstance(st, ast.Import):
            names = [(a.asname or a.name.split(".")[0]) for a in st.names]
        elif isinstance(st, ast.ImportFrom):
            names = [(a.asname or a.name) for a in st.names if a.name != "*"]
        for n in names:
            out.plain.setdefault(n, []).append(label)
        if isinstance(st, (ast.For, ast.AsyncFor)):
            out.targets.update(_target_names(st.target))
        if isinstance(st, (ast.With, ast.AsyncWith)):
            for item in st.items:
                if item.optional_vars is not None:
                    out.targets.update(_target_names(item.optional_vars))
        if isinstance(st, ast.Match):
            for case in st.cases:
                for n in ast.walk(case.pattern):
                    if isinstance(n, (ast.MatchAs, ast.MatchStar)) and n.name:
                        out.targets.add(n.name)
                    elif isinstance(n, ast.MatchMapping) and n.rest:
                        out.targets.add(n.rest)
        # `:=` in the statement's own expressions (not in nested blocks, functions, classes)
        for field in ("test", "value", "iter", "subject"):
            expr = getattr(st, field, None)
            if isinstance(expr, ast.AST) and not isinstance(st, (ast.FunctionDef, ast.AsyncFunctionDef, ast.ClassDef)):
                out.targets.update(n.target.id for n in ast.walk(expr) if isinstance(n, ast.NamedExpr))
        if isinstance(st, (ast.Try, ast.TryStar)):
            imported = {(a.asname or a.name.split(".")[0]) for x in st.body if isinstance(x, (ast.Import, ast.ImportFrom)) for a in x.names}
            for h in st.handlers:
                out.idiom.update(x.name for x in h.body if isinstance(x, (ast.FunctionDef, ast.AsyncFunctionDef, ast.ClassDef))
                                 and x.name in imported)
        for sub_label, sub in _sub_bodies(st):
            _collect(sub, sub_label, out)


def _reuses_quotes(text: str) -> bool:
    """Does an f-string of `text` hold, inside a replacement field, a string literal or f-string delimited by the quotes of
    an enclosing f-string (the spelling PEP 701 made legal)? Decided by CPython's tokenizer."""
    import io
    import tokenize

    open_quotes: list[str] = []
    if not hasattr(tokenize, "FSTRING_START"):
        return False  # before Python 3.12 an f-string is one token and cannot hold its own quotes
    try:
        for tok in tokenize.generate_tokens(io.StringIO(text + "\n").readline):
            if tok.type == tokenize.FSTRING_START:
                quote = tok.string.lstrip("rRfFbBuU")
                if quote in open_quotes:
                    return True
                open_quotes.append(quote)
            elif tok.type == tokenize.FSTRING_END:
                open_quotes.pop()
            elif tok.type == tokenize.STRING and open_quotes:
                body = tok.string.lstrip("rRfFbBuU")
                if (body[:3] if body[:3] in ('"""', "'''") else body[:1]) in open_quotes:
                    return True
    except (tokenize.TokenError, SyntaxError, IndexError):
        return False
    return False


def expr_features(node: ast.AST | str, text: str | None = None) -> set[str]:  # noqa: C901
    """Shapes of an expression as CPython's parser (and tokenizer) read it: evidence of the input classes reached."""
    if isinstance(node, str):
        text, node = node, ast.parse(node, mode="eval").body
    out: set[str] = set()
    for n in ast.walk(node):
        if isinstance(n, ast.JoinedStr):
            out.add("fstring")
        elif isinstance(n, ast.FormattedValue):
            if any(isinstance(x, ast.JoinedStr) for x in ast.walk(n.value)):
                out.add("nested_fstring")
            if n.format_spec is not None and any(isinstance(x, ast.FormattedValue) for x in ast.walk(n.format_spec)):
                out.add("fstring_field_in_format_spec")
        elif isinstance(n, ast.NamedExpr):
            out.add("walrus")
        elif isinstance(n, ast.Lambda):
            out.add("lambda")
        elif isinstance(n, ast.IfExp):
            out.add("conditional")
        elif isinstance(n, (ast.ListComp, ast.SetComp, ast.DictComp, ast.GeneratorExp)):
            out.add("comprehension")
        elif isinstance(n, ast.Starred) or (isinstance(n, ast.Dict) and None in n.keys) or (isinstance(n, ast.keyword) and n.arg is None):
            out.add("unpacking")
        elif isinstance(n, ast.Slice):
            out.add("slice")
        elif isinstance(n, (ast.BinOp, ast.BoolOp, ast.UnaryOp, ast.Compare)):
            out.add("operator")
        elif isinstance(n, (ast.Call, ast.Subscript, ast.Attribute)):
            out.add("call_subscript_attribute")
    if "fstring" in out and text is not None and _reuses_quotes(text):
        out.add("fstring_reusing_quotes")
    return out


def _find_defs(body: list, name: str) -> list:
    found = []
    for st in body:
        if isinstance(st, (ast.FunctionDef, ast.AsyncFunctionDef, ast.ClassDef)) and st.name == name:
            found.append(st)
        for _, sub in _sub_bodies(st):
            found += _find_defs(sub, name)
    return found


def find_def(src: str, class_path: list[str], name: str):  # noqa: ANN201
    """The def / class statement CPython ran for `name` in the module body / the given class body (written last), or None."""
    if not src:
        return None
    body = _parse(src).body
    for cname in class_path:
        classes = _find_classes(body, cname)
        if not classes:
            return None
        body = sorted(classes, key=lambda c: c.lineno)[-1].body
    found = _find_defs(body, name)
    return sorted(found, key=lambda c: c.lineno)[-1] if found else None


def observe_exprs(rec, src: str, site: str, nodes: list) -> None:  # noqa: ANN001
    """Evidence: which expression shapes were written at `site` (default / decorator / base) of a compared definition."""
    for node in nodes:
        if isinstance(node, (ast.Name, ast.Constant)):
            continue
        rec.count(f"{site}_exprs_compound")
        for feat in expr_features(node, ast.get_source_segment(src, node)):
            rec.count(f"{site}_expr_{feat}")


def _find_classes(body: list, name: str) -> list[ast.ClassDef]:
    found = []
    for st in body:
        if isinstance(st, ast.ClassDef) and st.name == name:
            found.append(st)
        for _, sub in _sub_bodies(st):
            found += _find_classes(sub, name)
    return found


@functools.lru_cache(maxsize=512)
def _scope_bindings(src: str, class_path: tuple) -> Bindings:
    body = _parse(src).body
    for cname in class_path:
        # a class defined in several branches: the one written last (the generator lets CPython run that one)
        body = sorted(_find_classes(body, cname), key=lambda c: c.lineno)[-1].body
    out = Bindings()
    _collect(body, "top", out)
    return out


def scope_bindings(src: str, class_path: list[str]) -> Bindings:
    return _scope_bindings(src, tuple(class_path))


def assigned_names(src: str, class_path: list[str]) -> set[str]:
    """Names bound by statements of the module body / the given class body itself (not in blocks of compound statements)."""
    return set(scope_bindings(src, class_path).top)


def phantom_names(files: dict, modname: str, seen: frozenset = frozenset()) -> set[str]:
    """Names the static agent may show in a module although CPython bound nothing: written only in branches that did not run
    (def / class / import / assignment inside a compound statement, absent from the module's real namespace), or received by
    a wildcard import from a module without ``__all__`` where they are such names. Syntax and CPython only, never griffe."""
    rel = modname.replace(".", "/")
    src = files.get(rel + "/__init__.py", files.get(rel + ".py"))
    pymod = sys.modules.get(modname)
    if src is None or pymod is None or modname in seen:
        return set()
    b = scope_bindings(src, [])
    out = {n for n in b.nested - b.top if n not in vars(pymod)}
    for absname in wildcard_sources(src, modname, rel + "/__init__.py" in files):
        srcmod = sys.modules.get(absname)
        if srcmod is not None and getattr(srcmod, "__all__", None) is None:
            out |= {n for n in phantom_names(files, absname, seen | {modname}) if not n.startswith("_") and n not in vars(pymod)}
    return out


def wildcard_sources(src: str, modpath: str, is_pkg: bool) -> list[str]:
    """Absolute names of the modules a module body imports with ``from X import *``, in statement order."""
    package = modpath if is_pkg else modpath.rpartition(".")[0]
    out = []
    for st in ast.parse(src).body:
        if isinstance(st, ast.ImportFrom) and any(a.name == "*" for a in st.names):
            out.append(importlib.util.resolve_name("." * st.level + (st.module or ""), package) if st.level else st.module)
    return out


def observe_wildcard(rec, files: dict, absname: str, srcmod, importer: str) -> None:  # noqa: ANN001
    """Evidence: which kind of wildcard import was compared. The shape of ``__all__`` is read off the source module's
    syntax and off the value CPython computed, never off griffe."""
    rec.count("wildcard_imports_compared")
    rel = absname.replace(".", "/")
    text = files.get(rel + "/__init__.py", files.get(rel + ".py", ""))
    body = ast.parse(text).body if text else []
    if hasattr(srcmod, "__path__"):
        rec.count("wildcard_of_package")
    if importer.count(".") >= 1 and (importer.replace(".", "/") + "/__init__.py" in files or importer.count(".") >= 2):
        rec.count("wildcard_in_subpackage")
    if any(isinstance(st, ast.ImportFrom) and any(a.name == "*" for a in st.names) for st in body):
        rec.count("wildcard_chain")
    value = getattr(srcmod, "__all__", None)
    if value is None:
        rec.count("wildcard_source_all_absent")
        return
    rec.count("wildcard_source_all_nonempty" if len(value) else "wildcard_source_all_empty")
    if any(n.startswith("_") for n in value):
        rec.count("wildcard_source_all_lists_private")
    is_all = lambda t: isinstance(t, ast.Name) and t.id == "__all__"  # noqa: E731
    for st in body:
        if isinstance(st, ast.AugAssign) and is_all(st.target):
            rec.count("wildcard_source_all_augmented")
            break
    for st in body:
        rhs = st.value if (isinstance(st, ast.Assign) and any(is_all(t) for t in st.targets)) or (
            isinstance(st, ast.AnnAssign) and is_all(st.target)) else None
        if rhs is not None and any(isinstance(n, (ast.Name, ast.Attribute)) for n in ast.walk(rhs)):
            rec.count("wildcard_source_all_composed")
            break
    if isinstance(value, tuple):
        rec.count("wildcard_source_all_tuple")


def observe_branches(rec, b: Bindings, pyns: dict) -> None:  # noqa: ANN001
    """Evidence: definitions CPython really bound that are written inside a block of a compound statement (by block kind;
    for a name written in several blocks, the last one, which is the one the generator lets CPython run)."""
    for n, labels in b.plain.items():
        if n in pyns and labels[-1] != "top":
            rec.count("defs_in_" + labels[-1])
            rec.count("defs_in_compound_statements")
            if len(labels) > 1:
                rec.count("defs_rebound_across_branches")
    for n in b.idiom:
        if n in pyns and (inspect.isroutine(pyns[n]) or inspect.isclass(pyns[n]) or isinstance(pyns[n], (staticmethod, classmethod, property))):
            rec.count("fallback_idiom_defs")


def _is_type_checking(test: ast.expr) -> bool:
    return (isinstance(test, ast.Name) and test.id == "TYPE_CHECKING") or (
        isinstance(test, ast.Attribute) and test.attr == "TYPE_CHECKING" and isinstance(test.value, ast.Name) and test.value.id == "typing")


def type_guarded_names(src: str, class_path: list[str]) -> set[str]:
    """Names bound in the body of an ``if TYPE_CHECKING:`` block of the module body / the given class body.

    They exist for a static reader only (the block never runs): a difference only one agent can know, like instance
    attributes; it is removed by this syntactic rule, never by asking griffe.
    """
    body = _parse(src).body
    for cname in class_path:
        body = sorted(_find_classes(body, cname), key=lambda c: c.lineno)[-1].body
    out = set()
    for st in body:
        if isinstance(st, ast.If) and _is_type_checking(st.test):
            for sub in st.body:
                if isinstance(sub, ast.Import):
                    out.update((a.asname or a.name.split(".")[0]) for a in sub.names)
                elif isinstance(sub, ast.ImportFrom):
                    out.update((a.asname or a.name) for a in sub.names)
                elif isinstance(sub, (ast.FunctionDef, ast.AsyncFunctionDef, ast.ClassDef)):
                    out.add(sub.name)
                elif isinstance(sub, ast.Assign):
                    out.update(t.id for t in sub.targets if isinstance(t, ast.Name))
    return out


_MISSING = object()


def import_path(path: str):  # noqa: ANN201
    """The object CPython reaches through a dotted path (longest importable module prefix, then attributes)."""
    parts = path.split(".")
    for i in range(len(parts), 0, -1):
        try:
            obj = importlib.import_module(".".join(parts[:i]))
        except ImportError:
            continue
        try:
            for p in parts[i:]:
                obj = getattr(obj, p)
        except AttributeError:
            return _MISSING
        return obj
    return _MISSING


def external_path(m, pkgname: str):  # noqa: ANN001, ANN201
    """Path outside the generated package that an alias (possibly through re-exports inside the package) points at."""
    from _griffe.exceptions import AliasResolutionError, CyclicAliasError

    for _ in range(50):
        if not m.is_alias:
            return None
        if m.target_path.split(".")[0] != pkgname:
            return m.target_path
        try:
            m = m.target
        except (AliasResolutionError, CyclicAliasError):
            return None
    return None


def compare_external(rec, where: str, sm, dm, spath: str | None, dpath: str | None):  # noqa: ANN001, ANN201, PLR0911
    """Imports from outside the generated package (never loaded by griffe here): CPython arbitrates.

    Both agents alias -> the two target paths must reach the *same object* (``os.path.join`` and ``posixpath.join`` do).
    Only the static agent aliases -> allowed for plain values (their origin is agent-specific), not for classes,
    functions and modules.
    """
    rec.count("external_imports_compared")
    if spath and dpath:
        so, do = import_path(spath), import_path(dpath)
        if so is _MISSING or do is _MISSING or so is not do:
            return (f"{where}: aliases of an external import reach different objects", dpath, spath, None, [])
        return None
    if not spath:
        return (f"{where}: only the dynamic agent sees an import from outside the package", dpath, sm.kind.value, None, [])
    so = import_path(spath)
    if so is _MISSING:
        return (f"{where}: static alias target does not exist for CPython", None, spath, None, [])
    if inspect.isclass(so) or inspect.isroutine(so) or inspect.ismodule(so):
        return (f"{where}: imported external {type(so).__name__} is an alias for the static agent only", dm.kind.value,
                spath, None, [])
    if dm.is_alias or not dm.is_attribute:
        return (f"{where}: imported plain value is a {dm.kind.value} for the dynamic agent", dm.kind.value, "attribute", None, [])
    return None


def compare_doc_cpython(rec, pyobj, sd: str | None, where: str):  # noqa: ANN001, ANN201, C901
    """Third witness for a docstring: what ``inspect.getdoc`` makes of the ``__doc__`` CPython stored on the object itself
    (never an inherited one). Trailing white space is not part of the comparison; an empty docstring equals none."""
    if pyobj is None:
        return None
    if isinstance(pyobj, (property, functools.cached_property)):
        raw = (pyobj.fget if isinstance(pyobj, property) else pyobj.func).__doc__
    elif inspect.isclass(pyobj):
        raw = vars(pyobj).get("__doc__")
    else:
        raw = getattr(pyobj, "__doc__", None)
    if raw is not None and not isinstance(raw, str):
        return None
    rec.count("docstrings_vs_cpython")
    if raw is not None:
        lines = raw.expandtabs().split("\n")
        body = [ln for ln in lines[1:] if ln.strip()]
        if "\n" in raw:
            rec.count("doc_multiline")
        if not lines[0].strip() and body:
            rec.count("doc_summary_below_opening_quotes")
            first = len(body[0]) - len(body[0].lstrip())
            rest = [len(ln) - len(ln.lstrip()) for ln in body[1:]]
            if rest and first > min(rest):
                rec.count("doc_first_line_deeper_than_a_following_one")
            if rest and first < min(rest):
                rec.count("doc_first_line_shallower_than_following_ones")
        if lines[0].strip() and len({len(ln) - len(ln.lstrip()) for ln in body}) > 1:
            rec.count("doc_body_lines_of_different_depth")
        if "\t" in raw:
            rec.count("doc_with_tabs")
        if raw != raw.rstrip():
            rec.count("doc_trailing_blank")
        if len(lines) > 2 and not lines[0].strip() and not lines[1].strip():
            rec.count("doc_blank_first_lines")
        if not raw.strip():
            rec.count("doc_empty_or_blank")
        if any(ln and not ln[0].isspace() for ln in lines[1:]):
            rec.count("doc_line_at_column_zero")
    want = inspect.cleandoc(raw).rstrip() if raw is not None else None
    have = sd.rstrip() if sd is not None else None
    if (want or None) != (have or None):
        return (f"{where}: static docstring differs from inspect.getdoc of the imported object", have, want, None, [])
    return None


def stale_chain(sroot, alias):  # noqa: ANN001, ANN201
    """Final path of an alias chain followed *by path through the members the tree holds now*, when that differs from the
    chain of cached target objects at some hop (a hop's cached target is no longer the member stored under its target
    path); None when no hop is stale or the chain cannot be followed."""
    stale = False
    m = alias
    for _ in range(50):
        if not m.is_alias:
            return m.path if stale else None
        parts = m.target_path.split(".")
        if parts[0] != sroot.name:
            return None
        cur = sroot
        try:
            for part in parts[1:]:
                cur = cur.members[part]
            if m._target is not None and m._target is not cur:
                stale = True
        except (KeyError, AttributeError):
            return None
        m = cur
    return None


def classify(what: str, sobj, dobj, extra: dict) -> tuple[str | None, list[str]]:  # noqa: ANN001
    tried = ["C17-inspector-variadic-required", "C17-inspector-classmethod-drops-cls", "C17-wildcard-misses-side-effect-submodule",
             "C17-static-misses-pattern-targets", "C17-stale-alias-after-wildcard-overwrite"]
    if extra.get("mech") == "variadic-required":
        return "C17-inspector-variadic-required", tried
    if extra.get("mech") == "classmethod-cls":
        return "C17-inspector-classmethod-drops-cls", tried
    return None, tried


def observe_annotations(rec, pyobj) -> None:  # noqa: ANN001
    """Evidence of the input classes reached, judged by CPython on the really imported function."""
    try:
        func = inspect.unwrap(pyobj)
    except ValueError:
        func = pyobj
    if func is not pyobj:
        rec.count("functions_compared_wrapped")
    if getattr(func, "__isabstractmethod__", False) or getattr(func, "__final__", False):
        rec.count("functions_compared_marked_by_decorator")
    if getattr(func, "__type_params__", ()):
        rec.count("functions_compared_generic")
    anns = getattr(func, "__annotations__", None) or {}
    if not anns:
        return
    rec.count("functions_compared_annotated")
    if "return" in anns:
        rec.count("functions_compared_return_annotation")
    if not any(isinstance(a, str) for a in anns.values()):
        return
    rec.count("functions_compared_str_annotation")
    try:
        inspect.signature(pyobj, eval_str=True)
    except Exception as exc:  # noqa: BLE001
        # a string annotation CPython cannot evaluate in the function's globals: forward reference to a nested class,
        # a name imported for type checkers only, a type parameter, an undefined name, text that is no expression
        rec.count("functions_compared_str_annotation_unevaluable")
        rec.add_to_set("unevaluable_annotation_errors", type(exc).__name__)


def observe_defaults(rec, sig) -> None:  # noqa: ANN001, C901, PLR0912
    """Evidence of the kinds of default values reached, read off the objects CPython holds."""
    import enum
    import math

    def has_address(obj, depth: int = 0) -> bool:  # noqa: ANN001
        try:
            return " at 0x" in repr(obj)
        except Exception:  # noqa: BLE001
            return False

    for prm in sig.parameters.values():
        d = prm.default
        if d is prm.empty:
            continue
        rec.count("defaults_compared")
        named = hasattr(d, "__name__")
        if isinstance(d, functools.partial):
            rec.count("default_is_partial")
        if isinstance(d, enum.Enum):
            rec.count("default_is_enum_member")
        if isinstance(d, float) and (math.isnan(d) or math.isinf(d)):
            rec.count("default_is_nan_or_inf")
        if isinstance(d, (int, float, complex)) and not isinstance(d, bool) and d != d.__class__() and (d.real < 0 or d.imag < 0):
            rec.count("default_is_negative_number")
        if isinstance(d, (bytes, bytearray)):
            rec.count("default_is_bytes")
        if d is Ellipsis or d is NotImplemented:
            rec.count("default_is_singleton_object")
        if isinstance(d, str) and any(ch in d for ch in "'\"\n\\"):
            rec.count("default_is_str_with_quotes_or_newlines")
        if named:
            rec.count("default_has_dunder_name")  # functions, classes, builtins, modules, lambdas
            if inspect.ismodule(d):
                rec.count("default_is_module")
            if getattr(d, "__name__", "") == "<lambda>":
                rec.count("default_is_lambda")
        elif has_address(d):
            if isinstance(d, (list, tuple, dict, set, frozenset)):
                rec.count("default_is_container_with_address_in_repr")
            else:
                rec.count("default_repr_has_address")  # sentinels, instances without __repr__, partial objects
        elif type(d).__module__ not in ("builtins", "functools", "re", "http", "enum", "math") and "__repr__" in vars(type(d)):
            rec.count("default_has_own_repr")
        try:
            if len(repr(d)) > 200:
                rec.count("default_repr_is_long")
        except Exception:  # noqa: BLE001
            pass


def compare_params(rec, sfunc, dfunc, pyobj, label: str):  # noqa: ANN001, ANN201, C901, PLR0911
    """Returns (what, observed, expected, extra) or None. The CPython leg is the arbiter of 'as CPython binds them'."""
    sp = [(p.name, p.kind.value if p.kind else None, p.required) for p in sfunc.parameters]
    dp = [(p.name, p.kind.value if p.kind else None, p.required) for p in dfunc.parameters] if dfunc.parameters is not None else None
    if dp is None:
        return (f"{label}: inspector could not get a signature", None, sp, {})
    rec.count("functions_compared")
    cp = None
    if pyobj is not None:
        observe_annotations(rec, pyobj)
        try:
            sig = inspect.signature(pyobj)
            cp = [(p.name, KIND_TXT[c02.INSPECT_KIND[p.kind]], p.default is p.empty and p.kind not in (p.VAR_POSITIONAL, p.VAR_KEYWORD))
                  for p in sig.parameters.values()]
            rec.count("signatures_vs_cpython")
            observe_defaults(rec, sig)
        except (TypeError, ValueError):
            cp = None
    if sp != dp:
        # known mechanism (b): inspector sees the *bound* classmethod, so `cls` is missing dynamically
        if "classmethod" in dfunc.labels and sp[1:] == dp and sp and sp[0][0] == "cls":
            return (f"{label}: dynamic agent drops the first parameter of a classmethod", dp, sp, {"mech": "classmethod-cls"})
        # known mechanism (a): variadic parameters are 'required' for the inspector
        sp_n = [(n, k, False if k in ("variadic positional", "variadic keyword") else r) for n, k, r in sp]
        dp_n = [(n, k, False if k in ("variadic positional", "variadic keyword") else r) for n, k, r in dp]
        cls_shift = "classmethod" in dfunc.labels and sp_n[1:] == dp_n
        if sp_n == dp_n or cls_shift:
            return (f"{label}: required-ness of a variadic parameter differs between the agents", dp, sp,
                    {"mech": "variadic-required" if not cls_shift else "classmethod-cls"})
        return (f"{label}: parameters differ between static and dynamic analysis", dp, sp, {})
    if cp is not None:
        unbound = cp
        if sp != unbound and not (sp[1:] == unbound and sp and sp[0][0] in ("self", "cls")):
            return (f"{label}: static parameters differ from inspect.signature", sp, cp, {})
    return None


def _is_dotted_name(node: ast.AST) -> bool:
    while isinstance(node, ast.Attribute):
        node = node.value
    return isinstance(node, ast.Name)


def _reached(cls, base) -> str | None:  # noqa: ANN001
    """Path of the object a stored base (expression or string) reaches in the tree the class lives in, as resolved_bases does."""
    from _griffe.exceptions import AliasResolutionError, CyclicAliasError

    path = base if isinstance(base, str) else base.canonical_path
    try:
        obj = cls.modules_collection.get_member(path)
        return (obj.final_target if obj.is_alias else obj).path
    except (AliasResolutionError, CyclicAliasError, KeyError):
        return None


def compare_computed_bases(rec, src: str, node: ast.ClassDef, sfin, dfin, pycls, where: str):  # noqa: ANN001, ANN201
    """Base classes of a class statement with a base that is no (dotted) name. Witnesses: the statement as CPython parsed it
    (one stored base per base expression, in order) and ``__bases__`` of the class CPython built (what the dynamic agent
    must list). Bases written as names must reach the same class for both agents, position by position."""
    rec.count("class_bases_vs_source")
    rec.count("class_bases_vs_cpython")
    observe_exprs(rec, src, "base", [a for bn in node.bases if isinstance(bn, ast.Call) for a in [*bn.args, *[k.value for k in bn.keywords]]])
    observe_exprs(rec, src, "class_keyword", [k.value for k in node.keywords])
    written = [ast.unparse(bn) for bn in node.bases]
    if len(sfin.bases) != len(written):
        return (f"{where}: the static agent does not hold one base per base expression of the class statement",
                [str(b) for b in sfin.bases], written, None, [])
    real = [f"{b.__module__}.{b.__qualname__}" for b in pycls.__bases__]
    if [str(b) for b in dfin.bases] != real:
        return (f"{where}: bases of the dynamic agent differ from __bases__ of the class CPython built", [str(b) for b in dfin.bases],
                real, None, [])
    if any(isinstance(bn, ast.Starred) for bn in node.bases) or len(real) != len(written):
        return None
    for i, bn in enumerate(node.bases):
        if isinstance(bn, ast.Call):
            rec.count("class_base_is_call")
        if _is_dotted_name(bn):
            sreach, dreach = _reached(sfin, sfin.bases[i]), _reached(dfin, dfin.bases[i])
            if sreach is None or sreach != dreach:
                return (f"{where}: base class {written[i]} reaches different objects for the two agents", dreach, sreach, None, [])
    return None


def compare_decorators(rec, src: str, node, sfin, pyraw, where: str):  # noqa: ANN001, ANN201
    """Decorators of a def / class statement. Witnesses: the statement as CPython parsed it (the static agent holds one
    decorator per decorator expression) and the object CPython built (a function wrapped by the standard library's cache is
    what the static agent labels ``cached``; a property is compared by the caller)."""
    rec.count("decorators_vs_source")
    observe_exprs(rec, src, "decorator", [a for dn in node.decorator_list if isinstance(dn, ast.Call)
                                          for a in [*dn.args, *[k.value for k in dn.keywords]]])
    if len(sfin.decorators) != len(node.decorator_list):
        return (f"{where}: the static agent does not hold one decorator per decorator expression of the statement",
                [str(d.value) for d in sfin.decorators], [ast.unparse(dn) for dn in node.decorator_list], None, [])
    if sfin.is_function:
        cached = isinstance(pyraw, functools._lru_cache_wrapper)  # noqa: SLF001
        if cached:
            rec.count("cached_label_vs_cpython")
        if cached != ("cached" in sfin.labels):
            return (f"{where}: label `cached` of the static agent disagrees with the object CPython built", sorted(sfin.labels),
                    type(pyraw).__name__, None, [])
    return None


def walk_compare(rec, files: dict, pkgname: str, sroot, droot):  # noqa: ANN001, ANN201, C901, PLR0912, PLR0915
    from _griffe.exceptions import AliasResolutionError, CyclicAliasError

    deferred = None
    stack = [(sroot, droot, [])]
    while stack:
        s, d, cpath = stack.pop()
        modpath = s.module.path
        rel = modpath.replace(".", "/")
        src = files.get(rel + "/__init__.py", files.get(rel + ".py", ""))
        b = scope_bindings(src, cpath) if src else Bindings()
        pyscope = sys.modules.get(s.path) if s.is_module and not cpath else resolve_py(pkgname, s.path)
        pyns = dict(vars(pyscope)) if inspect.ismodule(pyscope) or inspect.isclass(pyscope) else None
        # bound by the source: statements of the body itself, and statements in blocks of compound statements that CPython ran
        bound = b.top | {n for n in b.nested if pyns is None or n in pyns}
        if pyns is not None:
            observe_branches(rec, b, pyns)
        snames = dict(s.members)
        dnames = dict(d.members)
        # names CPython really bound through `from X import *` count as bound by the source (a dunder listed in __all__)
        pymod = sys.modules.get(s.path) if s.is_module and not cpath else None
        side_effect: set[str] = set()
        if pymod is not None and src:
            for absname in wildcard_sources(src, s.path, rel + "/__init__.py" in files):
                srcmod = sys.modules.get(absname)
                if srcmod is None:
                    continue
                observe_wildcard(rec, files, absname, srcmod, s.path)
                offered = getattr(srcmod, "__all__", None)
                if offered is None:
                    offered = [k for k in vars(srcmod) if not k.startswith("_")]
                taken = {k for k in offered if k in vars(pymod)}
                rec.count("wildcard_names_bound", len(taken))
                for k in taken & assigned_names(src, []):
                    if inspect.isroutine(vars(pymod)[k]) or inspect.isclass(vars(pymod)[k]):
                        # the module also binds the name itself: who wins is decided by CPython's execution order
                        rec.count("wildcard_name_also_bound_locally")
                        rec.count("wildcard_wins_over_local" if vars(pymod)[k] is vars(srcmod).get(k) else "local_wins_over_wildcard")
                # known mechanism: a package without __all__ also offers the sub-modules the import system attached to it
                # as a side effect of some earlier import (no statement of its __init__ binds the name); CPython binds
                # them in the importing module, the static agent only exposes sub-modules the package imports by name
                if hasattr(srcmod, "__path__") and getattr(srcmod, "__all__", None) is None:
                    srcsrc = files.get(absname.replace(".", "/") + "/__init__.py", "")
                    stated = assigned_names(srcsrc, []) if srcsrc else set()
                    for k in sorted(taken - stated - bound):
                        obj = vars(pymod)[k]
                        if inspect.ismodule(obj) and obj.__name__ == f"{absname}.{k}" and vars(srcmod).get(k) is obj \
                                and k in dnames and k not in snames:
                            side_effect.add(k)
                bound |= taken
            for k in side_effect:
                del dnames[k]
            if side_effect:
                rec.count("wildcard_side_effect_submodules")
                deferred = deferred or (
                    f"{s.path}: wildcard import of a package without __all__ misses sub-modules bound as an import side effect",
                    {"dynamic_and_cpython_only": sorted(side_effect)}, None, "C17-wildcard-misses-side-effect-submodule",
                    ["C17-wildcard-misses-side-effect-submodule"])
        # allowed: interpreter-provided dunders the source does not assign
        for n in list(dnames):
            if n.startswith("__") and n.endswith("__") and n not in bound:
                del dnames[n]
        for n in list(snames):
            if n.startswith("__") and n.endswith("__") and n not in bound and n not in dnames:
                del snames[n]
        # allowed: instance attributes assigned in __init__ (static only)
        for n, m in list(snames.items()):
            if not m.is_alias and m.is_attribute and n not in bound and "instance-attribute" in m.labels and n not in dnames:
                del snames[n]
        # allowed (static only): names written only in branches CPython did not run
        if pyns is not None:
            phantom = phantom_names(files, s.path) if s.is_module and not cpath else {n for n in b.nested - b.top if n not in pyns}
            for n in phantom:
                if n in snames and n not in dnames and n not in pyns:
                    del snames[n]
                    rec.count("non_taken_branch_names_excluded")
        # known mechanism: names bound only in target positions the visitor has no handler for
        if pyns is not None:
            unseen = {n for n in b.targets - set(b.plain) if n in pyns and n in dnames and n not in snames}
            for n in unseen:
                del dnames[n]
            if unseen:
                rec.count("pattern_target_names_missed", len(unseen))
                deferred = deferred or (
                    f"{s.path}: names bound by unpacking / for / with-as / := / case targets are missing from the static tree",
                    {"dynamic_and_cpython_only": sorted(unseen)}, None, "C17-static-misses-pattern-targets",
                    ["C17-static-misses-pattern-targets"])
        else:
            unseen = set()
        # allowed: names bound under `if TYPE_CHECKING:` only (static only)
        for n in (type_guarded_names(src, cpath) if src else set()) - bound:
            if n in snames and n not in dnames:
                del snames[n]
                rec.count("type_guarded_names_excluded")
        # sub-modules: the inspector leaves on-disk sub-modules to the loader; compare through the loader's tree
        if set(snames) != set(dnames):
            return (f"member names of {s.path} differ", {"static_only": sorted(set(snames) - set(dnames)),
                                                             "dynamic_only": sorted(set(dnames) - set(snames))}, None, None, [])
        # third leg for module bodies: the namespace CPython built by running the module
        if pymod is not None and src:
            rec.count("module_namespaces_vs_cpython")
            cnames = {k for k in vars(pymod) if not (k.startswith("__") and k.endswith("__") and k not in bound)} - side_effect - unseen
            if set(snames) != cnames:
                return (f"static member names of {s.path} differ from the namespace CPython built",
                        {"static_only": sorted(set(snames) - cnames), "cpython_only": sorted(cnames - set(snames))}, None, None, [])
        if pymod is None and pyns is not None and src:
            rec.count("class_namespaces_vs_cpython")
            cnames = {k for k in pyns if not (k.startswith("__") and k.endswith("__") and k not in bound)} - unseen
            if set(snames) != cnames:
                return (f"static member names of class {s.path} differ from the class namespace CPython built",
                        {"static_only": sorted(set(snames) - cnames), "cpython_only": sorted(cnames - set(snames))}, None, None, [])
        for n in sorted(snames):
            sm, dm = snames[n], dnames[n]
            rec.count("members_compared")
            spath, dpath = external_path(sm, pkgname), external_path(dm, pkgname)
            if spath or dpath:
                res = compare_external(rec, f"{s.path}.{n}", sm, dm, spath, dpath)
                if res:
                    return res
                continue
            try:
                sfin = sm.final_target if sm.is_alias else sm
                dfin = dm.final_target if dm.is_alias else dm
            except (AliasResolutionError, CyclicAliasError) as exc:
                return (f"{s.path}.{n}: alias not resolvable in one agent", repr(exc)[:200], None, None, [])
            if sm.is_alias or dm.is_alias:
                rec.count("aliases_compared")
                if sfin.is_attribute and dfin.is_attribute:
                    continue  # allowed: origin of imported plain values
                if sm.is_alias != dm.is_alias:
                    return (f"{s.path}.{n}: imported {sfin.kind.value} is an alias for one agent only",
                            {"static_alias": sm.is_alias, "dynamic_alias": dm.is_alias}, None, None, [])
                if sfin.path != dfin.path:
                    what = f"{s.path}.{n}: aliases reach different final targets"
                    if sm.is_alias and stale_chain(sroot, sm) == dfin.path:
                        # known mechanism: a hop of the static chain caches a member that a later wildcard expansion replaced
                        deferred = deferred or (what + " (static chain holds a member replaced by a wildcard expansion)", dfin.path,
                                                sfin.path, "C17-stale-alias-after-wildcard-overwrite", ["C17-stale-alias-after-wildcard-overwrite"])
                        continue
                    return (what, dfin.path, sfin.path, None, ["C17-stale-alias-after-wildcard-overwrite"])
                continue
            if sfin.kind is not dfin.kind:
                return (f"{s.path}.{n}: kinds differ", dfin.kind.value, sfin.kind.value, None, [])
            is_prop = sfin.is_attribute and "property" in sfin.labels and "property" in dfin.labels
            if sfin.is_function or sfin.is_class or sfin.is_module or is_prop:
                rec.count("docstrings_compared")
                sd = sfin.docstring.value if sfin.docstring else None
                dd = dfin.docstring.value if dfin.docstring else None
                if sd != dd:
                    return (f"{s.path}.{n}: docstrings differ", dd, sd, None, [])
                res = compare_doc_cpython(rec, sys.modules.get(sfin.path) if sfin.is_module else resolve_py(pkgname, sfin.path), sd,
                                          f"{s.path}.{n}")
                if res:
                    return res
            # the statement CPython ran for a definition of this very body (not for what an import brought here)
            node = find_def(src, cpath, n) if not (sm.is_alias or dm.is_alias) and (sfin.is_function or sfin.is_class) else None
            if node is not None:
                res = compare_decorators(rec, src, node, sfin, resolve_py(pkgname, sfin.path, raw=True), f"{s.path}.{n}")
                if res:
                    return res
            if sfin.is_function:
                pyobj = resolve_py(pkgname, sfin.path)
                if isinstance(node, (ast.FunctionDef, ast.AsyncFunctionDef)):
                    observe_exprs(rec, src, "default", [*node.args.defaults, *[x for x in node.args.kw_defaults if x is not None]])
                res = compare_params(rec, sfin, dfin, pyobj, sfin.path)
                if res:
                    fid, tried = classify(res[0], sfin, dfin, res[3])
                    if fid:
                        deferred = deferred or (res[0], res[1], res[2], fid, tried)
                    else:
                        return (res[0], res[1], res[2], None, tried)
            elif sfin.is_attribute:
                sprop, dprop = "property" in sfin.labels, "property" in dfin.labels
                if sprop != dprop:
                    return (f"{s.path}.{n}: property-ness differs", dprop, sprop, None, [])
                pyattr = resolve_py(pkgname, sfin.path) if sprop else None
                if isinstance(pyattr, property):
                    rec.count("properties_compared")
                elif isinstance(pyattr, functools.cached_property):
                    rec.count("cached_properties_compared")
            elif sfin.is_class:
                rec.count("classes_compared")
                pycls = resolve_py(pkgname, sfin.path)
                if isinstance(node, ast.ClassDef) and inspect.isclass(pycls) and any(
                        not _is_dotted_name(bn) for bn in node.bases):
                    # a base class computed by an expression: no agent can name it statically; CPython holds the classes
                    res = compare_computed_bases(rec, src, node, sfin, dfin, pycls, f"{s.path}.{n}")
                    if res:
                        return res
                    stack.append((sfin, dfin, [*cpath, n]))
                    continue
                if isinstance(node, ast.ClassDef):
                    rec.count("class_bases_vs_source")
                    if len(sfin.bases) != len(node.bases):
                        return (f"{s.path}.{n}: the static agent does not hold one base per base expression of the class statement",
                                [str(b) for b in sfin.bases], [ast.unparse(bn) for bn in node.bases], None, [])
                # a base may be named through a re-export (one-hop alias path): compare the classes the names reach
                sb = [b.path for b in sfin.resolved_bases]
                db = [b.path for b in dfin.resolved_bases]
                if len(sb) != len(sfin.bases) or len(db) != len(dfin.bases):
                    return (f"{s.path}.{n}: a base class cannot be resolved by one agent",
                            {"static": [str(b) for b in sfin.bases], "dynamic": [str(b) for b in dfin.bases]}, None, None, [])
                if sb != db:
                    return (f"{s.path}.{n}: base classes differ", db, sb, None, [])
                stack.append((sfin, dfin, [*cpath, n]))
            elif sfin.is_module:
                stack.append((sfin, dfin, []))
    sdoc = sroot.docstring.value if sroot.docstring else None
    ddoc = droot.docstring.value if droot.docstring else None
    rec.count("docstrings_compared")
    if sdoc != ddoc:
        return (f"module docstring of {sroot.path} differs", ddoc, sdoc, None, [])
    res = compare_doc_cpython(rec, sys.modules.get(sroot.path), sdoc, sroot.path)
    if res:
        return res
    return deferred


def resolve_py(pkgname: str, path: str, raw: bool = False):  # noqa: ANN201
    parts = path.split(".")
    for i in range(len(parts), 0, -1):
        mod = sys.modules.get(".".join(parts[:i]))
        if mod is not None:
            obj = mod
            try:
                for p in parts[i:]:
                    obj = inspect.getattr_static(obj, p)
                    if isinstance(obj, (staticmethod, classmethod)):
                        obj = obj.__func__
                if raw:
                    obj = inspect.unwrap(obj, stop=lambda f: isinstance(f, functools._lru_cache_wrapper))  # noqa: SLF001
            except AttributeError:
                return None
            return obj
    return None


def run_case(rec, files: dict, pkgname: str, nontrivial: bool) -> None:  # noqa: ANN001
    import griffe

    case = {"files": files, "package": pkgname}
    res = None
    try:
        with case_watchdog(120), tmp_tree(files) as root:
            try:
                sl = griffe.GriffeLoader(search_paths=[root], allow_inspection=False)
                spkg = sl.load(pkgname)
                sl.resolve_aliases(implicit=True, external=False)
                # the inspector imports with sys.path *replaced* by the search paths: the interpreter's own path must be among
                # them, or a generated module could only import standard-library modules this process happens to have loaded
                dl = griffe.GriffeLoader(search_paths=[root, *sys.path], allow_inspection=True, force_inspection=True)
                dpkg = dl.load(pkgname)
                dl.resolve_aliases(implicit=True, external=False)
                rec.count("packages_compared")
                res = walk_compare(rec, files, pkgname, spkg, dpkg)
            finally:
                for k in [k for k in sys.modules if k == pkgname or k.startswith(pkgname + ".")]:
                    del sys.modules[k]
                importlib.invalidate_caches()
    except Exception as exc:  # noqa: BLE001
        rec.fail_exc(case, f"{type(exc).__name__} while loading with one of the agents", exc, nontrivial=nontrivial)
        return
    if res:
        rec.fail(case, res[0], observed=res[1], expected=res[2], finding=res[3], tried=res[4], nontrivial=nontrivial)
    else:
        rec.ok(case, nontrivial=nontrivial)


def features(files: dict) -> bool:
    text = "\n".join(files.values())
    import re

    return bool(re.search(r"class \w+\(\w+\)", text)) and "@property" in text and "import" in text


def run_shard(spec: dict, rec) -> None:  # noqa: ANN001
    rng = random.Random(spec["seed"])
    for i in range(spec["count"]):
        name = f"vfq{spec['seed'] % 100000}_{i}"
        files = gen_package(rng, name)
        run_case(rec, files, name, features(files))


def run_replay(inp: dict, rec) -> None:  # noqa: ANN001
    run_case(rec, inp["files"], inp["package"], True)


def run_pinned(findings: list[dict], rec) -> dict:  # noqa: ANN001
    from vf.core.rec import Recorder, pinned_result

    out = {}
    for f in findings:
        sub = Recorder(PROP, {})
        run_case(sub, f["witness"]["files"], f["witness"]["package"], True)
        out[f["id"]] = pinned_result(sub, f)
    return out
