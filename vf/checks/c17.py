"""C17 — Static and dynamic analysis agree on the API skeleton.

Workload: generated executable, side-effect-free packages: functions of every signature shape,
classes with static/class/instance methods, properties, nested classes, inheritance (in-module
and across modules), module/class attributes bound to literals, docstrings, intra-package
imports of classes, functions, modules and plain values; annotations of every spelling on parameters, returns and
attributes (objects, whole or partial strings, ``from __future__ import annotations``) that name builtins, earlier and later
module-level classes, classes nested in the enclosing class, names imported under ``if TYPE_CHECKING:`` only, type
parameters (PEP 695), undefined names, or are no expression at all; non-literal defaults; functools.wraps / identity
decorators, cached properties; imports from the standard library (Python and C implemented, classes, functions, modules,
plain values).
Oracle: each package (unique name) is loaded statically and with ``force_inspection=True`` in
this child; normalised skeletons are compared, allowed differences are removed *by rule*
(dunder names the source does not assign, instance attributes, attribute docstrings, line
numbers, label vocabulary, origin of imported plain values).  Third leg: ``inspect.signature``
of the really imported objects.  Imports from outside the package are arbitrated by CPython (both target paths
must reach the same object; only plain values may lose their origin); names bound under ``if TYPE_CHECKING:`` only are a
static-only difference removed by a syntactic rule.
"""
from __future__ import annotations

import ast
import functools
import importlib
import inspect
import random
import sys

from vf.checks import c02
from vf.core.util import case_watchdog, tmp_tree

PROP = "C17"
LEVEL = "exploration"
ANCHORS = ["agents/inspector.py", "agents/nodes/runtime.py", "importer.py"]
RULE = ("generated importable packages (init + 2-3 modules): functions over random parameter lists (all five kinds, defaults, "
        "annotations as objects / strings / under the annotations future import, resolvable at module level or not: nested "
        "classes, TYPE_CHECKING-only imports, type parameters, undefined names, non-expressions; return annotations; wraps and "
        "identity decorators; standard-library imports), classes with instance/static/class methods, properties, nested classes, single and cross-module "
        "inheritance, literal module/class attributes, __init__ with instance attributes, docstrings, imports of classes/"
        "functions/modules/plain values between the modules. distinct = digest of files; non-trivial = package with "
        "inheritance, a property and an intra-package import")
LEVEL_TEXT = ("Every generated package is analysed by both agents in one interpreter and the two trees are walked in "
              "parallel: member names and kinds at every level, parameters (names, kinds, required-ness) also against "
              "inspect.signature of the imported objects, base classes, docstrings of modules/classes/functions and the "
              "final targets of aliases must agree; only the differences the statement allows are filtered, by rule.")
LEVEL_NOTE = ("trusted: CPython import + inspect.signature; names bound only under `if TYPE_CHECKING:` are excluded from the "
              "member comparison (static-only by construction); attributes are bound to plain literals only (alias = func / "
              "lambda bindings are attributes for one agent and functions for the other: not generated)")
TECHNIQUE = "runtime monitoring: differential oracle (visitor vs inspector vs inspect.signature) over generated importable packages"
REQUIRED_COUNTERS = ["packages_compared", "members_compared", "functions_compared", "signatures_vs_cpython", "classes_compared",
                     "docstrings_compared", "aliases_compared", "functions_compared_annotated", "functions_compared_str_annotation",
                     "functions_compared_str_annotation_unevaluable", "functions_compared_return_annotation",
                     "functions_compared_wrapped", "external_imports_compared"]
EXHAUSTIVE = {"quick": False, "thorough": False}
ASSUMPTIONS = ["generated code has no import-time side effects; packages get unique names and are purged from sys.modules"]
KIND_TXT = {c02.PO: "positional-only", c02.PK: "positional or keyword", c02.VP: "variadic positional", c02.KO: "keyword-only",
            c02.VK: "variadic keyword"}


BUILTIN_TYPES = ["int", "str", "float", "bytes", "bool"]
# Imports from the standard library: (statement, names usable as annotations once it ran). Whether such a name is a class,
# a function, a module or a plain value is never looked up here: the oracle asks CPython (see compare_external).
EXTERNALS = [
    ("import typing", ["typing.Any", "typing.Optional[int]"]),
    ("import os", []),
    ("import collections.abc", ["collections.abc.Sequence"]),
    ("import os.path as osp", []),
    ("from typing import Any", ["Any"]),
    ("from typing import Optional as Opt", ["Opt[int]"]),
    ("from collections import OrderedDict", ["OrderedDict"]),
    ("from os.path import join", []),
    ("from functools import partial", ["partial"]),
    ("from enum import Enum", ["Enum"]),
    ("from abc import abstractmethod as abstract", []),
    ("from sys import maxsize", []),
    # implemented in C: built-in functions and classes, modules that name themselves differently (posix, _io)
    ("from math import sqrt", []),
    ("from io import StringIO", ["StringIO"]),
    ("from os import getcwd", []),
    ("from itertools import chain", ["chain"]),
    ("from time import sleep as pause", []),
    ("from typing import final", []),
]
# decorators of the standard library that hand the decorated function back: they change nothing of the skeleton
IDENTITY_DECORATORS = {"from abc import abstractmethod as abstract": "abstract", "from typing import final": "final"}
GUARDED_EXTERNALS = [("decimal", "Decimal"), ("fractions", "Fraction"), ("pathlib", "Path")]
PEP695 = sys.version_info >= (3, 12)


class Scope:
    """What an annotation / a default written at some place of a generated module may name.

    evaluable: expressions CPython can evaluate when the ``def`` statement runs (safe without quotes);
    deferred:  names that are legal only inside a string annotation or under ``from __future__ import annotations``:
               defined later in the module, nested in the enclosing class, imported under ``if TYPE_CHECKING:``,
               type parameters, or defined nowhere at all;
    defaults:  expressions usable as a default value at this place.
    """

    def __init__(self, future: bool, evaluable: list[str], deferred: list[str], defaults: list[str]) -> None:
        self.future, self.evaluable, self.deferred, self.defaults = future, list(evaluable), list(deferred), list(defaults)

    def child(self, evaluable: tuple | list = (), deferred: tuple | list = ()) -> Scope:
        return Scope(self.future, [*self.evaluable, *evaluable], [*self.deferred, *deferred], self.defaults)


def gen_ann(rng: random.Random, sc: Scope) -> str:
    """An annotation that leaves the module importable: any object, any string is legal for CPython."""
    if rng.random() < 0.05:
        return rng.choice(['"free text"', '"a b"', "None", "1", '"in:valid["', '""', "(int, str)"])
    use_def = bool(sc.deferred) and rng.random() < 0.5
    atom = rng.choice(sc.deferred if use_def else sc.evaluable)
    shape = rng.choice(["{}", "{}", "{}", "{} | None", "list[{}]", "dict[str, {}]", "tuple[{}, ...]"])
    if use_def and not sc.future:
        if "[" in shape and rng.random() < 0.4:
            return shape.format('"' + atom + '"')  # partially quoted: list["X"]
        return '"' + shape.format(atom) + '"'
    txt = shape.format(atom)
    return '"' + txt + '"' if rng.random() < 0.25 else txt


def rand_params(rng: random.Random, sc: Scope, first: str | None = None) -> str:
    """Parameter list and return annotation: ``(p0, /, *p1: "X", p2=0) -> T`` without the ``def name`` part."""
    n = rng.randint(0, 4)
    for _ in range(100):
        kinds = tuple(sorted(rng.choice([c02.PO, c02.PK, c02.PK, c02.KO, c02.VP, c02.VK]) for _ in range(n)))
        if kinds.count(c02.VP) <= 1 and kinds.count(c02.VK) <= 1:
            break
    else:
        kinds = ()
    npos = sum(1 for k in kinds if k in (c02.PO, c02.PK))
    fd = rng.randint(0, npos)
    dfl, seen = [], 0
    for k in kinds:
        if k in (c02.PO, c02.PK):
            dfl.append(1 if seen >= fd else 0)
            seen += 1
        elif k == c02.KO:
            dfl.append(rng.randint(0, 1))
        else:
            dfl.append(0)
    annotated = rng.random() < 0.5  # annotated functions tend to annotate several parameters
    parts = []
    for i, k in enumerate(kinds):
        name = f"p{i}"
        if k == c02.KO and c02.VP not in kinds and (i == 0 or kinds[i - 1] != c02.KO):
            parts.append("*")
        txt = {c02.VP: "*" + name, c02.VK: "**" + name}.get(k, name)
        if annotated and rng.random() < 0.6:
            txt += ": " + gen_ann(rng, sc)
            if dfl[i]:
                txt += " = " + rng.choice(["0", "'s'", "None", "1.5", *sc.defaults])
        elif dfl[i]:
            txt += "=" + rng.choice(["0", "'s'", "None", "(1, 2)", *sc.defaults])
        parts.append(txt)
        if k == c02.PO and (i + 1 == len(kinds) or kinds[i + 1] != c02.PO):
            parts.append("/")
    if first:
        if annotated and rng.random() < 0.1:
            first += ": " + gen_ann(rng, sc)
        parts.insert(0, first)  # before a leading positional-only group `self` is positional-only too
    ret = " -> " + gen_ann(rng, sc) if (annotated and rng.random() < 0.6) or rng.random() < 0.05 else ""
    return "(" + ", ".join(parts) + ")" + ret


def gen_def(rng: random.Random, sc: Scope, ind: str, name: str, first: str | None, doc: str, deco: list[str] | None,
            pre: tuple = (), allow_async: float = 0.2) -> str:
    """One function definition: optional decorators, async, PEP 695 type parameter, annotations, docstring."""
    kw = "async def" if rng.random() < allow_async else "def"
    tp = ""
    if PEP695 and rng.random() < 0.08:
        tp = "[T]"
        sc = sc.child(evaluable=["T", "T"], deferred=["T"])
    src = "".join(f"{ind}@{d}\n" for d in pre)
    for d in deco or ():
        # functools.wraps decorators (the signature CPython reports is the decorated function's) and identity decorators
        if rng.random() < 0.15:
            src += f"{ind}@{d}\n"
    src += f"{ind}{kw} {name}{tp}{rand_params(rng, sc, first)}:"
    if doc:
        src += f'\n{ind}    """{doc}"""'
    return src + f"\n{ind}    return 1\n"


def gen_class(rng: random.Random, sc: Scope, name: str, bases: list[str], deco: list[str] | None, indent: str = "", depth: int = 0,
              outer: tuple = ()) -> str:
    ind = indent + "    "
    src = f"{indent}class {name}" + (f"({', '.join(bases)})" if bases else "") + ":\n"
    if rng.random() < 0.6:
        src += f'{ind}"""Class {name}."""\n'
    # names of classes that are no module-level globals (this class when nested, its own nested class): a string
    # annotation naming them is a forward reference only a type checker can follow
    inner = name + "Inner" if depth == 0 and rng.random() < 0.4 else None
    inner_first = inner is not None and rng.random() < 0.5
    msc = sc.child(deferred=[name, *outer])
    if inner:
        msc = msc.child(evaluable=[inner, inner] if inner_first else (), deferred=[inner, inner, f"{name}.{inner}"])
    if inner and inner_first:
        src += gen_class(rng, sc, inner, [], deco, ind, depth + 1, outer=(name,))
    for i in range(rng.randint(1, 4)):
        r = rng.random()
        mname = f"{name.lower()}_m{i}"
        doc = f"Doc of {mname}." if rng.random() < 0.5 else ""
        if r < 0.35:
            src += gen_def(rng, msc, ind, mname, "self", doc, deco)
        elif r < 0.5:
            src += gen_def(rng, msc, ind, mname, None, doc, deco, pre=("staticmethod",))
        elif r < 0.65:
            src += gen_def(rng, msc, ind, mname, "cls", doc, deco, pre=("classmethod",))
        elif r < 0.8:
            ret = " -> " + gen_ann(rng, msc) if rng.random() < 0.3 else ""
            # functools is imported by the modules that define a wraps decorator
            prop = "functools.cached_property" if any(d.endswith("_deco") for d in deco or ()) and rng.random() < 0.3 else "property"
            src += f"{ind}@{prop}\n{ind}def {mname}(self){ret}:" + (f'\n{ind}    """{doc}"""' if doc else "") + f"\n{ind}    return 1\n"
        else:
            ann = ": " + gen_ann(rng, msc) if rng.random() < 0.25 else ""
            src += f"{ind}{mname}{ann} = {rng.choice(['1', repr('v'), '(1, 2)', 'None', '2.5'])}\n"
    if rng.random() < 0.4:
        src += f"{ind}def __init__(self, a=0):\n{ind}    self.inst_{name.lower()} = a\n"
    if inner and not inner_first:
        src += gen_class(rng, sc, inner, [], deco, ind, depth + 1, outer=(name,))
    return src


def gen_module(rng: random.Random, name: str, m: str, prevs: list[str], exported: dict) -> tuple[str, list[tuple[str, str]]]:  # noqa: C901, PLR0912, PLR0915
    src = f'"""Module {m}."""\n' if rng.random() < 0.7 else ""
    future = rng.random() < 0.3
    if future:
        src += "from __future__ import annotations\n"
    defs: list[tuple[str, str]] = []
    evaluable, deferred, defaults = list(BUILTIN_TYPES), [f"Missing{m.upper()}"], ["len"]
    # imports from the standard library
    stmts = rng.sample(EXTERNALS, rng.choice([0, 0, 1, 2, 3]))
    tc_mode = rng.choice([None, None, "from", "attr", "local"])
    use_wraps = rng.random() < 0.4
    lines = [s for s, _ in stmts]
    if tc_mode == "from":
        lines.append("from typing import TYPE_CHECKING")
    if tc_mode == "attr" and "import typing" not in lines:
        lines.append("import typing")
        stmts.append(EXTERNALS[0])
    if use_wraps:
        lines.append("import functools")
    rng.shuffle(lines)
    src += "".join(ln + "\n" for ln in lines)
    for _, anns in stmts:
        evaluable += anns
    # imports from earlier modules
    for prev in prevs:
        for nm, kind in rng.sample(exported[prev], min(len(exported[prev]), rng.randint(0, 3))):
            form = rng.random()
            if form < 0.5:
                src += f"from {name}.{prev} import {nm}\n"
                defs.append((nm, "imported-" + kind))
            elif form < 0.75:
                src += f"from .{prev} import {nm} as {nm}_x\n"
                defs.append((nm + "_x", "imported-" + kind))
        if rng.random() < 0.3:
            src += f"from {name} import {prev} as mod_{prev}\n"
            defs.append((f"mod_{prev}", "imported-module"))
            evaluable += [f"mod_{prev}.{nm}" for nm, kind in exported[prev] if kind == "class"][:1]
    evaluable += [d for d, k in defs if k == "imported-class"]
    # imports for type checkers only: the names do not exist when the module runs
    if tc_mode:
        if tc_mode == "local":
            src += "TYPE_CHECKING = False\n"
        src += "if typing.TYPE_CHECKING:\n" if tc_mode == "attr" else "if TYPE_CHECKING:\n"
        cands = [(f"{name}.{p}", nm) for p in prevs for nm, kind in exported[p] if kind == "class"]
        for mod, nm in rng.sample(cands, min(len(cands), rng.randint(0, 2))) or [rng.choice(GUARDED_EXTERNALS)]:
            src += f"    from {mod} import {nm} as {nm}_t\n"
            deferred += [f"{nm}_t"] * 2
    deco = [d for st, d in IDENTITY_DECORATORS.items() if st in lines]
    if use_wraps:
        deco.append(f"{m}_deco")
        src += (f"def {m}_deco(fn):\n    @functools.wraps(fn)\n    def wrapper(*args, **kwargs):\n        return fn(*args, **kwargs)\n"
                "    return wrapper\n")
        defs.append((f"{m}_deco", "function"))
    plan = []
    for i in range(rng.randint(2, 5)):
        r = rng.random()
        plan.append((f"{m}_o{i}", "function" if r < 0.4 else "class" if r < 0.75 else "value"))
    later = [nm.capitalize() for nm, kind in plan if kind == "class"]
    for nm, kind in plan:
        sc = Scope(future, evaluable, deferred + later, defaults)
        if kind == "function":
            doc = f"Function {nm}." if rng.random() < 0.5 else ""
            src += gen_def(rng, sc, "", nm, None, doc, deco, allow_async=0.15)
            defs.append((nm, "function"))
        elif kind == "class":
            cname = nm.capitalize()
            bases = []
            classes_here = [d for d, k in defs if k in ("class", "imported-class")]
            if classes_here and rng.random() < 0.6:
                bases = [rng.choice(classes_here)]
            later.remove(cname)
            src += gen_class(rng, Scope(future, evaluable, deferred + later, defaults), cname, bases, deco)
            defs.append((cname, "class"))
            evaluable.append(cname)
            defaults.append(cname)
        else:
            ann = ": " + gen_ann(rng, sc) if rng.random() < 0.2 else ""
            src += f"{nm}{ann} = {rng.choice(['1', repr('text'), '[1, 2]', 'None', '3.5', '{1: 2}'])}\n"
            defs.append((nm, "value"))
            defaults.append(nm)
    return src, defs


def gen_package(rng: random.Random, name: str) -> dict[str, str]:
    files = {}
    mods = ["a", "b"] + (["c"] if rng.random() < 0.4 else [])
    exported: dict[str, list[tuple[str, str]]] = {}
    for mi, m in enumerate(mods):
        files[f"{name}/{m}.py"], defs = gen_module(rng, name, m, mods[:mi], exported)
        exported[m] = [(d, k.replace("imported-", "")) for d, k in defs if not d.startswith("mod_")]
    init = f'"""Package {name}."""\n'
    for m in mods:
        for nm, kind in rng.sample(exported[m], min(len(exported[m]), 2)):
            init += f"from {name}.{m} import {nm}\n"
    # sub-modules imported by the package itself, under their own and under other names
    for m in mods:
        r = rng.random()
        if r < 0.2:
            init += f"from . import {m} as {m}_alias\n"
        elif r < 0.35:
            init += f"import {name}.{m} as {m}_mod\n"
        elif r < 0.5:
            init += f"from {name} import {m}\n"
    init += "top_value = 1\n"
    files[f"{name}/__init__.py"] = init
    return files


def shards(tier: str, seed: int) -> list[dict]:
    n = 150 if tier == "quick" else 1600
    return [{"count": n} for _ in range(16)]


# -- comparison ---------------------------------------------------------------------------------
def assigned_names(src: str, class_path: list[str]) -> set[str]:
    """Names bound by statements in the module body / the given nested class body."""
    node: ast.AST = ast.parse(src)
    for cname in class_path:
        node = next(n for n in node.body if isinstance(n, ast.ClassDef) and n.name == cname)  # type: ignore[attr-defined]
    out = set()
    for st in node.body:  # type: ignore[attr-defined]
        if isinstance(st, (ast.FunctionDef, ast.AsyncFunctionDef, ast.ClassDef)):
            out.add(st.name)
        elif isinstance(st, ast.Assign):
            out.update(t.id for t in st.targets if isinstance(t, ast.Name))
        elif isinstance(st, ast.AnnAssign) and isinstance(st.target, ast.Name):
            out.add(st.target.id)
        elif isinstance(st, ast.Import):
            out.update((a.asname or a.name.split(".")[0]) for a in st.names)
        elif isinstance(st, ast.ImportFrom):
            out.update((a.asname or a.name) for a in st.names)
    return out


def _is_type_checking(test: ast.expr) -> bool:
    return (isinstance(test, ast.Name) and test.id == "TYPE_CHECKING") or (
        isinstance(test, ast.Attribute) and test.attr == "TYPE_CHECKING" and isinstance(test.value, ast.Name) and test.value.id == "typing")


def type_guarded_names(src: str, class_path: list[str]) -> set[str]:
    """Names bound in the body of an ``if TYPE_CHECKING:`` block of the module body / the given class body.

    They exist for a static reader only (the block never runs): a difference only one agent can know, like instance
    attributes; it is removed by this syntactic rule, never by asking griffe.
    """
    node: ast.AST = ast.parse(src)
    for cname in class_path:
        node = next(n for n in node.body if isinstance(n, ast.ClassDef) and n.name == cname)  # type: ignore[attr-defined]
    out = set()
    for st in node.body:  # type: ignore[attr-defined]
        if isinstance(st, ast.If) and _is_type_checking(st.test):
            for sub in st.body:
                if isinstance(sub, ast.Import):
                    out.update((a.asname or a.name.split(".")[0]) for a in sub.names)
                elif isinstance(sub, ast.ImportFrom):
                    out.update((a.asname or a.name) for a in sub.names)
                elif isinstance(sub, (ast.FunctionDef, ast.AsyncFunctionDef, ast.ClassDef)):
                    out.add(sub.name)
                elif isinstance(sub, ast.Assign):
                    out.update(t.id for t in sub.targets if isinstance(t, ast.Name))
    return out


_MISSING = object()


def import_path(path: str):  # noqa: ANN201
    """The object CPython reaches through a dotted path (longest importable module prefix, then attributes)."""
    parts = path.split(".")
    for i in range(len(parts), 0, -1):
        try:
            obj = importlib.import_module(".".join(parts[:i]))
        except ImportError:
            continue
        try:
            for p in parts[i:]:
                obj = getattr(obj, p)
        except AttributeError:
            return _MISSING
        return obj
    return _MISSING


def compare_external(rec, where: str, sm, dm):  # noqa: ANN001, ANN201
    """Imports from outside the generated package (never loaded by griffe here): CPython arbitrates.

    Both agents alias -> the two target paths must reach the *same object* (``os.path.join`` and ``posixpath.join`` do).
    Only the static agent aliases -> allowed for plain values (their origin is agent-specific), not for classes,
    functions and modules.
    """
    rec.count("external_imports_compared")
    if sm.is_alias and dm.is_alias:
        so, do = import_path(sm.target_path), import_path(dm.target_path)
        if so is _MISSING or do is _MISSING or so is not do:
            return (f"{where}: aliases of an external import reach different objects", dm.target_path, sm.target_path, None, [])
        return None
    if not sm.is_alias:
        return (f"{where}: only the dynamic agent sees an import from outside the package", dm.target_path, sm.kind.value, None, [])
    so = import_path(sm.target_path)
    if so is _MISSING:
        return (f"{where}: static alias target does not exist for CPython", None, sm.target_path, None, [])
    if inspect.isclass(so) or inspect.isroutine(so) or inspect.ismodule(so):
        return (f"{where}: imported external {type(so).__name__} is an alias for the static agent only", dm.kind.value,
                sm.target_path, None, [])
    if not dm.is_attribute:
        return (f"{where}: imported plain value is a {dm.kind.value} for the dynamic agent", dm.kind.value, "attribute", None, [])
    return None


def classify(what: str, sobj, dobj, extra: dict) -> tuple[str | None, list[str]]:  # noqa: ANN001
    tried = ["C17-inspector-variadic-required", "C17-inspector-classmethod-drops-cls"]
    if extra.get("mech") == "variadic-required":
        return "C17-inspector-variadic-required", tried
    if extra.get("mech") == "classmethod-cls":
        return "C17-inspector-classmethod-drops-cls", tried
    return None, tried


def observe_annotations(rec, pyobj) -> None:  # noqa: ANN001
    """Evidence of the input classes reached, judged by CPython on the really imported function."""
    try:
        func = inspect.unwrap(pyobj)
    except ValueError:
        func = pyobj
    if func is not pyobj:
        rec.count("functions_compared_wrapped")
    if getattr(func, "__isabstractmethod__", False) or getattr(func, "__final__", False):
        rec.count("functions_compared_marked_by_decorator")
    if getattr(func, "__type_params__", ()):
        rec.count("functions_compared_generic")
    anns = getattr(func, "__annotations__", None) or {}
    if not anns:
        return
    rec.count("functions_compared_annotated")
    if "return" in anns:
        rec.count("functions_compared_return_annotation")
    if not any(isinstance(a, str) for a in anns.values()):
        return
    rec.count("functions_compared_str_annotation")
    try:
        inspect.signature(pyobj, eval_str=True)
    except Exception as exc:  # noqa: BLE001
        # a string annotation CPython cannot evaluate in the function's globals: forward reference to a nested class,
        # a name imported for type checkers only, a type parameter, an undefined name, text that is no expression
        rec.count("functions_compared_str_annotation_unevaluable")
        rec.add_to_set("unevaluable_annotation_errors", type(exc).__name__)


def compare_params(rec, sfunc, dfunc, pyobj, label: str):  # noqa: ANN001, ANN201, C901, PLR0911
    """Returns (what, observed, expected, extra) or None. The CPython leg is the arbiter of 'as CPython binds them'."""
    sp = [(p.name, p.kind.value if p.kind else None, p.required) for p in sfunc.parameters]
    dp = [(p.name, p.kind.value if p.kind else None, p.required) for p in dfunc.parameters] if dfunc.parameters is not None else None
    if dp is None:
        return (f"{label}: inspector could not get a signature", None, sp, {})
    rec.count("functions_compared")
    cp = None
    if pyobj is not None:
        observe_annotations(rec, pyobj)
        try:
            sig = inspect.signature(pyobj)
            cp = [(p.name, KIND_TXT[c02.INSPECT_KIND[p.kind]], p.default is p.empty and p.kind not in (p.VAR_POSITIONAL, p.VAR_KEYWORD))
                  for p in sig.parameters.values()]
            rec.count("signatures_vs_cpython")
        except (TypeError, ValueError):
            cp = None
    if sp != dp:
        # known mechanism (b): inspector sees the *bound* classmethod, so `cls` is missing dynamically
        if "classmethod" in dfunc.labels and sp[1:] == dp and sp and sp[0][0] == "cls":
            return (f"{label}: dynamic agent drops the first parameter of a classmethod", dp, sp, {"mech": "classmethod-cls"})
        # known mechanism (a): variadic parameters are 'required' for the inspector
        sp_n = [(n, k, False if k in ("variadic positional", "variadic keyword") else r) for n, k, r in sp]
        dp_n = [(n, k, False if k in ("variadic positional", "variadic keyword") else r) for n, k, r in dp]
        cls_shift = "classmethod" in dfunc.labels and sp_n[1:] == dp_n
        if sp_n == dp_n or cls_shift:
            return (f"{label}: required-ness of a variadic parameter differs between the agents", dp, sp,
                    {"mech": "variadic-required" if not cls_shift else "classmethod-cls"})
        return (f"{label}: parameters differ between static and dynamic analysis", dp, sp, {})
    if cp is not None:
        unbound = cp
        if sp != unbound and not (sp[1:] == unbound and sp and sp[0][0] in ("self", "cls")):
            return (f"{label}: static parameters differ from inspect.signature", sp, cp, {})
    return None


def walk_compare(rec, files: dict, pkgname: str, sroot, droot):  # noqa: ANN001, ANN201, C901, PLR0912, PLR0915
    from _griffe.exceptions import AliasResolutionError, CyclicAliasError

    deferred = None
    stack = [(sroot, droot, [])]
    while stack:
        s, d, cpath = stack.pop()
        modpath = s.module.path
        rel = modpath.replace(".", "/")
        src = files.get(rel + "/__init__.py", files.get(rel + ".py", ""))
        bound = assigned_names(src, cpath) if src else set()
        snames = dict(s.members)
        dnames = dict(d.members)
        # allowed: interpreter-provided dunders the source does not assign
        for n in list(dnames):
            if n.startswith("__") and n.endswith("__") and n not in bound:
                del dnames[n]
        for n in list(snames):
            if n.startswith("__") and n.endswith("__") and n not in bound and n not in dnames:
                del snames[n]
        # allowed: instance attributes assigned in __init__ (static only)
        for n, m in list(snames.items()):
            if not m.is_alias and m.is_attribute and n not in bound and "instance-attribute" in m.labels and n not in dnames:
                del snames[n]
        # allowed: names bound under `if TYPE_CHECKING:` only (static only)
        for n in (type_guarded_names(src, cpath) if src else set()) - bound:
            if n in snames and n not in dnames:
                del snames[n]
                rec.count("type_guarded_names_excluded")
        # sub-modules: the inspector leaves on-disk sub-modules to the loader; compare through the loader's tree
        if set(snames) != set(dnames):
            return (f"member names of {s.path} differ", {"static_only": sorted(set(snames) - set(dnames)),
                                                             "dynamic_only": sorted(set(dnames) - set(snames))}, None, None, [])
        for n in sorted(snames):
            sm, dm = snames[n], dnames[n]
            rec.count("members_compared")
            if any(m.is_alias and m.target_path.split(".")[0] != pkgname for m in (sm, dm)):
                res = compare_external(rec, f"{s.path}.{n}", sm, dm)
                if res:
                    return res
                continue
            try:
                sfin = sm.final_target if sm.is_alias else sm
                dfin = dm.final_target if dm.is_alias else dm
            except (AliasResolutionError, CyclicAliasError) as exc:
                return (f"{s.path}.{n}: alias not resolvable in one agent", repr(exc)[:200], None, None, [])
            if sm.is_alias or dm.is_alias:
                rec.count("aliases_compared")
                if sfin.is_attribute and dfin.is_attribute:
                    continue  # allowed: origin of imported plain values
                if sm.is_alias != dm.is_alias:
                    return (f"{s.path}.{n}: imported {sfin.kind.value} is an alias for one agent only",
                            {"static_alias": sm.is_alias, "dynamic_alias": dm.is_alias}, None, None, [])
                if sfin.path != dfin.path:
                    return (f"{s.path}.{n}: aliases reach different final targets", dfin.path, sfin.path, None, [])
                continue
            if sfin.kind is not dfin.kind:
                return (f"{s.path}.{n}: kinds differ", dfin.kind.value, sfin.kind.value, None, [])
            if sfin.is_function or sfin.is_class or sfin.is_module:
                rec.count("docstrings_compared")
                sd = sfin.docstring.value if sfin.docstring else None
                dd = dfin.docstring.value if dfin.docstring else None
                if sd != dd:
                    return (f"{s.path}.{n}: docstrings differ", dd, sd, None, [])
            if sfin.is_function:
                pyobj = resolve_py(pkgname, sfin.path)
                res = compare_params(rec, sfin, dfin, pyobj, sfin.path)
                if res:
                    fid, tried = classify(res[0], sfin, dfin, res[3])
                    if fid:
                        deferred = deferred or (res[0], res[1], res[2], fid, tried)
                    else:
                        return (res[0], res[1], res[2], None, tried)
            elif sfin.is_attribute:
                sprop, dprop = "property" in sfin.labels, "property" in dfin.labels
                if sprop != dprop:
                    return (f"{s.path}.{n}: property-ness differs", dprop, sprop, None, [])
                pyattr = resolve_py(pkgname, sfin.path) if sprop else None
                if isinstance(pyattr, property):
                    rec.count("properties_compared")
                elif isinstance(pyattr, functools.cached_property):
                    rec.count("cached_properties_compared")
            elif sfin.is_class:
                rec.count("classes_compared")
                # a base may be named through a re-export (one-hop alias path): compare the classes the names reach
                sb = [b.path for b in sfin.resolved_bases]
                db = [b.path for b in dfin.resolved_bases]
                if len(sb) != len(sfin.bases) or len(db) != len(dfin.bases):
                    return (f"{s.path}.{n}: a base class cannot be resolved by one agent",
                            {"static": [str(b) for b in sfin.bases], "dynamic": [str(b) for b in dfin.bases]}, None, None, [])
                if sb != db:
                    return (f"{s.path}.{n}: base classes differ", db, sb, None, [])
                stack.append((sfin, dfin, [*cpath, n]))
            elif sfin.is_module:
                stack.append((sfin, dfin, []))
    sdoc = sroot.docstring.value if sroot.docstring else None
    ddoc = droot.docstring.value if droot.docstring else None
    rec.count("docstrings_compared")
    if sdoc != ddoc:
        return (f"module docstring of {sroot.path} differs", ddoc, sdoc, None, [])
    return deferred


def resolve_py(pkgname: str, path: str):  # noqa: ANN201
    parts = path.split(".")
    for i in range(len(parts), 0, -1):
        mod = sys.modules.get(".".join(parts[:i]))
        if mod is not None:
            obj = mod
            try:
                for p in parts[i:]:
                    obj = inspect.getattr_static(obj, p)
                    if isinstance(obj, (staticmethod, classmethod)):
                        obj = obj.__func__
            except AttributeError:
                return None
            return obj
    return None


def run_case(rec, files: dict, pkgname: str, nontrivial: bool) -> None:  # noqa: ANN001
    import griffe

    case = {"files": files, "package": pkgname}
    res = None
    try:
        with case_watchdog(120), tmp_tree(files) as root:
            try:
                sl = griffe.GriffeLoader(search_paths=[root], allow_inspection=False)
                spkg = sl.load(pkgname)
                sl.resolve_aliases(implicit=True, external=False)
                dl = griffe.GriffeLoader(search_paths=[root], allow_inspection=True, force_inspection=True)
                dpkg = dl.load(pkgname)
                dl.resolve_aliases(implicit=True, external=False)
                rec.count("packages_compared")
                res = walk_compare(rec, files, pkgname, spkg, dpkg)
            finally:
                for k in [k for k in sys.modules if k == pkgname or k.startswith(pkgname + ".")]:
                    del sys.modules[k]
                importlib.invalidate_caches()
    except Exception as exc:  # noqa: BLE001
        rec.fail_exc(case, f"{type(exc).__name__} while loading with one of the agents", exc, nontrivial=nontrivial)
        return
    if res:
        rec.fail(case, res[0], observed=res[1], expected=res[2], finding=res[3], tried=res[4], nontrivial=nontrivial)
    else:
        rec.ok(case, nontrivial=nontrivial)


def features(files: dict) -> bool:
    text = "\n".join(files.values())
    import re

    return bool(re.search(r"class \w+\(\w+\)", text)) and "@property" in text and "import" in text


def run_shard(spec: dict, rec) -> None:  # noqa: ANN001
    rng = random.Random(spec["seed"])
    for i in range(spec["count"]):
        name = f"vfq{spec['seed'] % 100000}_{i}"
        files = gen_package(rng, name)
        run_case(rec, files, name, features(files))


def run_replay(inp: dict, rec) -> None:  # noqa: ANN001
    run_case(rec, inp["files"], inp["package"], True)


def run_pinned(findings: list[dict], rec) -> dict:  # noqa: ANN001
    from vf.core.rec import Recorder, pinned_result

    out = {}
    for f in findings:
        sub = Recorder(PROP, {})
        run_case(sub, f["witness"]["files"], f["witness"]["package"], True)
        out[f["id"]] = pinned_result(sub, f)
    return out
