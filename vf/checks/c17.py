"""C17 — Static and dynamic analysis agree on the API skeleton.

Workload: generated executable, side-effect-free packages: functions of every signature shape,
classes with static/class/instance methods, properties, nested classes, inheritance (in-module
and across modules), module/class attributes bound to literals, docstrings, intra-package
imports of classes, functions, modules and plain values.
Oracle: each package (unique name) is loaded statically and with ``force_inspection=True`` in
this child; normalised skeletons are compared, allowed differences are removed *by rule*
(dunder names the source does not assign, instance attributes, attribute docstrings, line
numbers, label vocabulary, origin of imported plain values).  Third leg: ``inspect.signature``
of the really imported objects.
"""
from __future__ import annotations

import ast
import importlib
import inspect
import random
import sys

from vf.checks import c02
from vf.core.util import case_watchdog, tmp_tree

PROP = "C17"
LEVEL = "exploration"
ANCHORS = ["agents/inspector.py", "agents/nodes/runtime.py", "importer.py"]
RULE = ("generated importable packages (init + 2-3 modules): functions over random parameter lists (all five kinds, defaults, "
        "annotations), classes with instance/static/class methods, properties, nested classes, single and cross-module "
        "inheritance, literal module/class attributes, __init__ with instance attributes, docstrings, imports of classes/"
        "functions/modules/plain values between the modules. distinct = digest of files; non-trivial = package with "
        "inheritance, a property and an intra-package import")
LEVEL_TEXT = ("Every generated package is analysed by both agents in one interpreter and the two trees are walked in "
              "parallel: member names and kinds at every level, parameters (names, kinds, required-ness) also against "
              "inspect.signature of the imported objects, base classes, docstrings of modules/classes/functions and the "
              "final targets of aliases must agree; only the differences the statement allows are filtered, by rule.")
LEVEL_NOTE = ("trusted: CPython import + inspect.signature; attributes are bound to plain literals only (alias = func / "
              "lambda bindings are attributes for one agent and functions for the other: not generated)")
TECHNIQUE = "runtime monitoring: differential oracle (visitor vs inspector vs inspect.signature) over generated importable packages"
REQUIRED_COUNTERS = ["packages_compared", "members_compared", "functions_compared", "signatures_vs_cpython", "classes_compared",
                     "docstrings_compared", "aliases_compared"]
EXHAUSTIVE = {"quick": False, "thorough": False}
ASSUMPTIONS = ["generated code has no import-time side effects; packages get unique names and are purged from sys.modules"]
KIND_TXT = {c02.PO: "positional-only", c02.PK: "positional or keyword", c02.VP: "variadic positional", c02.KO: "keyword-only",
            c02.VK: "variadic keyword"}


def rand_params(rng: random.Random, first: str | None = None) -> str:
    n = rng.randint(0, 4)
    for _ in range(100):
        kinds = tuple(sorted(rng.choice([c02.PO, c02.PK, c02.PK, c02.KO, c02.VP, c02.VK]) for _ in range(n)))
        if kinds.count(c02.VP) <= 1 and kinds.count(c02.VK) <= 1:
            break
    else:
        kinds = ()
    npos = sum(1 for k in kinds if k in (c02.PO, c02.PK))
    fd = rng.randint(0, npos)
    dfl, seen = [], 0
    for k in kinds:
        if k in (c02.PO, c02.PK):
            dfl.append(1 if seen >= fd else 0)
            seen += 1
        elif k == c02.KO:
            dfl.append(rng.randint(0, 1))
        else:
            dfl.append(0)
    parts = []
    for i, k in enumerate(kinds):
        name = f"p{i}"
        if k == c02.KO and c02.VP not in kinds and (i == 0 or kinds[i - 1] != c02.KO):
            parts.append("*")
        txt = {c02.VP: "*" + name, c02.VK: "**" + name}.get(k, name)
        if rng.random() < 0.3:
            txt += ": " + rng.choice(["int", "str", "float"])
            if dfl[i]:
                txt += " = " + rng.choice(["0", "'s'", "None", "1.5"])
        elif dfl[i]:
            txt += "=" + rng.choice(["0", "'s'", "None", "(1, 2)"])
        parts.append(txt)
        if k == c02.PO and (i + 1 == len(kinds) or kinds[i + 1] != c02.PO):
            parts.append("/")
    if first:
        if kinds and kinds[0] == c02.PO:
            return first + ", " + ", ".join(parts)
        parts.insert(0, first)
    return ", ".join(parts)


def gen_class(rng: random.Random, name: str, bases: list[str], indent: str = "", depth: int = 0) -> str:
    ind = indent + "    "
    src = f"{indent}class {name}" + (f"({', '.join(bases)})" if bases else "") + ":\n"
    if rng.random() < 0.6:
        src += f'{ind}"""Class {name}."""\n'
    n = 0
    for i in range(rng.randint(1, 4)):
        r = rng.random()
        mname = f"{name.lower()}_m{i}"
        doc = f'\n{ind}    """Doc of {mname}."""' if rng.random() < 0.5 else ""
        kw = "async def" if rng.random() < 0.2 else "def"  # coroutine variants of every method flavour
        if r < 0.35:
            src += f"{ind}{kw} {mname}({rand_params(rng, 'self')}):{doc}\n{ind}    return 1\n"
        elif r < 0.5:
            src += f"{ind}@staticmethod\n{ind}{kw} {mname}({rand_params(rng)}):{doc}\n{ind}    return 1\n"
        elif r < 0.65:
            src += f"{ind}@classmethod\n{ind}{kw} {mname}({rand_params(rng, 'cls')}):{doc}\n{ind}    return 1\n"
        elif r < 0.8:
            src += f"{ind}@property\n{ind}def {mname}(self):{doc}\n{ind}    return 1\n"
        else:
            src += f"{ind}{mname} = {rng.choice(['1', repr('v'), '(1, 2)', 'None', '2.5'])}\n"
        n += 1
    if rng.random() < 0.4:
        src += f"{ind}def __init__(self, a=0):\n{ind}    self.inst_{name.lower()} = a\n"
    if depth == 0 and rng.random() < 0.35:
        src += gen_class(rng, name + "Inner", [], ind, depth + 1)
    return src


def gen_package(rng: random.Random, name: str) -> dict[str, str]:
    files = {}
    mods = ["a", "b"] + (["c"] if rng.random() < 0.4 else [])
    exported: dict[str, list[tuple[str, str]]] = {}
    for mi, m in enumerate(mods):
        src = f'"""Module {m}."""\n' if rng.random() < 0.7 else ""
        defs: list[tuple[str, str]] = []
        # imports from earlier modules
        for prev in mods[:mi]:
            for nm, kind in rng.sample(exported[prev], min(len(exported[prev]), rng.randint(0, 3))):
                form = rng.random()
                if form < 0.5:
                    src += f"from {name}.{prev} import {nm}\n"
                    defs.append((nm, "imported-" + kind))
                elif form < 0.75:
                    src += f"from .{prev} import {nm} as {nm}_x\n"
                    defs.append((nm + "_x", "imported-" + kind))
            if rng.random() < 0.3:
                src += f"from {name} import {prev} as mod_{prev}\n"
                defs.append((f"mod_{prev}", "imported-module"))
        for i in range(rng.randint(2, 5)):
            r = rng.random()
            nm = f"{m}_o{i}"
            if r < 0.4:
                doc = f'\n    """Function {nm}."""' if rng.random() < 0.5 else ""
                pre = "async " if rng.random() < 0.15 else ""
                src += f"{pre}def {nm}({rand_params(rng)}):{doc}\n    return 1\n"
                defs.append((nm, "function"))
            elif r < 0.75:
                cname = nm.capitalize()
                bases = []
                classes_here = [d for d, k in defs if k in ("class", "imported-class")]
                if classes_here and rng.random() < 0.6:
                    bases = [rng.choice(classes_here)]
                src += gen_class(rng, cname, bases)
                defs.append((cname, "class"))
            else:
                src += f"{nm} = {rng.choice(['1', repr('text'), '[1, 2]', 'None', '3.5', '{1: 2}'])}\n"
                defs.append((nm, "value"))
        files[f"{name}/{m}.py"] = src
        exported[m] = [(d, k.replace("imported-", "")) for d, k in defs if not d.startswith("mod_")]
    init = f'"""Package {name}."""\n'
    for m in mods:
        for nm, kind in rng.sample(exported[m], min(len(exported[m]), 2)):
            init += f"from {name}.{m} import {nm}\n"
    # sub-modules imported by the package itself, under their own and under other names
    for m in mods:
        r = rng.random()
        if r < 0.2:
            init += f"from . import {m} as {m}_alias\n"
        elif r < 0.35:
            init += f"import {name}.{m} as {m}_mod\n"
        elif r < 0.5:
            init += f"from {name} import {m}\n"
    init += "top_value = 1\n"
    files[f"{name}/__init__.py"] = init
    return files


def shards(tier: str, seed: int) -> list[dict]:
    n = 150 if tier == "quick" else 1600
    return [{"count": n} for _ in range(16)]


# -- comparison ---------------------------------------------------------------------------------
def assigned_names(src: str, class_path: list[str]) -> set[str]:
    """Names bound by statements in the module body / the given nested class body."""
    node: ast.AST = ast.parse(src)
    for cname in class_path:
        node = next(n for n in node.body if isinstance(n, ast.ClassDef) and n.name == cname)  # type: ignore[attr-defined]
    out = set()
    for st in node.body:  # type: ignore[attr-defined]
        if isinstance(st, (ast.FunctionDef, ast.AsyncFunctionDef, ast.ClassDef)):
            out.add(st.name)
        elif isinstance(st, ast.Assign):
            out.update(t.id for t in st.targets if isinstance(t, ast.Name))
        elif isinstance(st, ast.AnnAssign) and isinstance(st.target, ast.Name):
            out.add(st.target.id)
        elif isinstance(st, ast.Import):
            out.update((a.asname or a.name.split(".")[0]) for a in st.names)
        elif isinstance(st, ast.ImportFrom):
            out.update((a.asname or a.name) for a in st.names)
    return out


def classify(what: str, sobj, dobj, extra: dict) -> tuple[str | None, list[str]]:  # noqa: ANN001
    tried = ["C17-inspector-variadic-required", "C17-inspector-classmethod-drops-cls"]
    if extra.get("mech") == "variadic-required":
        return "C17-inspector-variadic-required", tried
    if extra.get("mech") == "classmethod-cls":
        return "C17-inspector-classmethod-drops-cls", tried
    return None, tried


def compare_params(rec, sfunc, dfunc, pyobj, label: str):  # noqa: ANN001, ANN201, C901, PLR0911
    """Returns (what, observed, expected, extra) or None. The CPython leg is the arbiter of 'as CPython binds them'."""
    sp = [(p.name, p.kind.value if p.kind else None, p.required) for p in sfunc.parameters]
    dp = [(p.name, p.kind.value if p.kind else None, p.required) for p in dfunc.parameters] if dfunc.parameters is not None else None
    if dp is None:
        return (f"{label}: inspector could not get a signature", None, sp, {})
    rec.count("functions_compared")
    cp = None
    if pyobj is not None:
        try:
            sig = inspect.signature(pyobj)
            cp = [(p.name, KIND_TXT[c02.INSPECT_KIND[p.kind]], p.default is p.empty and p.kind not in (p.VAR_POSITIONAL, p.VAR_KEYWORD))
                  for p in sig.parameters.values()]
            rec.count("signatures_vs_cpython")
        except (TypeError, ValueError):
            cp = None
    if sp != dp:
        # known mechanism (b): inspector sees the *bound* classmethod, so `cls` is missing dynamically
        if "classmethod" in dfunc.labels and sp[1:] == dp and sp and sp[0][0] == "cls":
            return (f"{label}: dynamic agent drops the first parameter of a classmethod", dp, sp, {"mech": "classmethod-cls"})
        # known mechanism (a): variadic parameters are 'required' for the inspector
        sp_n = [(n, k, False if k in ("variadic positional", "variadic keyword") else r) for n, k, r in sp]
        dp_n = [(n, k, False if k in ("variadic positional", "variadic keyword") else r) for n, k, r in dp]
        cls_shift = "classmethod" in dfunc.labels and sp_n[1:] == dp_n
        if sp_n == dp_n or cls_shift:
            return (f"{label}: required-ness of a variadic parameter differs between the agents", dp, sp,
                    {"mech": "variadic-required" if not cls_shift else "classmethod-cls"})
        return (f"{label}: parameters differ between static and dynamic analysis", dp, sp, {})
    if cp is not None:
        unbound = cp
        if sp != unbound and not (sp[1:] == unbound and sp and sp[0][0] in ("self", "cls")):
            return (f"{label}: static parameters differ from inspect.signature", sp, cp, {})
    return None


def walk_compare(rec, files: dict, pkgname: str, sroot, droot):  # noqa: ANN001, ANN201, C901, PLR0912, PLR0915
    from _griffe.exceptions import AliasResolutionError, CyclicAliasError

    deferred = None
    stack = [(sroot, droot, [])]
    while stack:
        s, d, cpath = stack.pop()
        modpath = s.module.path
        rel = modpath.replace(".", "/")
        src = files.get(rel + "/__init__.py", files.get(rel + ".py", ""))
        bound = assigned_names(src, cpath) if src else set()
        snames = dict(s.members)
        dnames = dict(d.members)
        # allowed: interpreter-provided dunders the source does not assign
        for n in list(dnames):
            if n.startswith("__") and n.endswith("__") and n not in bound:
                del dnames[n]
        for n in list(snames):
            if n.startswith("__") and n.endswith("__") and n not in bound and n not in dnames:
                del snames[n]
        # allowed: instance attributes assigned in __init__ (static only)
        for n, m in list(snames.items()):
            if not m.is_alias and m.is_attribute and n not in bound and "instance-attribute" in m.labels and n not in dnames:
                del snames[n]
        # sub-modules: the inspector leaves on-disk sub-modules to the loader; compare through the loader's tree
        if set(snames) != set(dnames):
            return (f"member names of {s.path} differ", {"static_only": sorted(set(snames) - set(dnames)),
                                                             "dynamic_only": sorted(set(dnames) - set(snames))}, None, None, [])
        for n in sorted(snames):
            sm, dm = snames[n], dnames[n]
            rec.count("members_compared")
            try:
                sfin = sm.final_target if sm.is_alias else sm
                dfin = dm.final_target if dm.is_alias else dm
            except (AliasResolutionError, CyclicAliasError) as exc:
                return (f"{s.path}.{n}: alias not resolvable in one agent", repr(exc)[:200], None, None, [])
            if sm.is_alias or dm.is_alias:
                rec.count("aliases_compared")
                if sfin.is_attribute and dfin.is_attribute:
                    continue  # allowed: origin of imported plain values
                if sm.is_alias != dm.is_alias:
                    return (f"{s.path}.{n}: imported {sfin.kind.value} is an alias for one agent only",
                            {"static_alias": sm.is_alias, "dynamic_alias": dm.is_alias}, None, None, [])
                if sfin.path != dfin.path:
                    return (f"{s.path}.{n}: aliases reach different final targets", dfin.path, sfin.path, None, [])
                continue
            if sfin.kind is not dfin.kind:
                return (f"{s.path}.{n}: kinds differ", dfin.kind.value, sfin.kind.value, None, [])
            if sfin.is_function or sfin.is_class or sfin.is_module:
                rec.count("docstrings_compared")
                sd = sfin.docstring.value if sfin.docstring else None
                dd = dfin.docstring.value if dfin.docstring else None
                if sd != dd:
                    return (f"{s.path}.{n}: docstrings differ", dd, sd, None, [])
            if sfin.is_function:
                pyobj = resolve_py(pkgname, sfin.path)
                res = compare_params(rec, sfin, dfin, pyobj, sfin.path)
                if res:
                    fid, tried = classify(res[0], sfin, dfin, res[3])
                    if fid:
                        deferred = deferred or (res[0], res[1], res[2], fid, tried)
                    else:
                        return (res[0], res[1], res[2], None, tried)
            elif sfin.is_attribute:
                sprop, dprop = "property" in sfin.labels, "property" in dfin.labels
                if sprop != dprop:
                    return (f"{s.path}.{n}: property-ness differs", dprop, sprop, None, [])
            elif sfin.is_class:
                rec.count("classes_compared")
                # a base may be named through a re-export (one-hop alias path): compare the classes the names reach
                sb = [b.path for b in sfin.resolved_bases]
                db = [b.path for b in dfin.resolved_bases]
                if len(sb) != len(sfin.bases) or len(db) != len(dfin.bases):
                    return (f"{s.path}.{n}: a base class cannot be resolved by one agent",
                            {"static": [str(b) for b in sfin.bases], "dynamic": [str(b) for b in dfin.bases]}, None, None, [])
                if sb != db:
                    return (f"{s.path}.{n}: base classes differ", db, sb, None, [])
                stack.append((sfin, dfin, [*cpath, n]))
            elif sfin.is_module:
                stack.append((sfin, dfin, []))
    sdoc = sroot.docstring.value if sroot.docstring else None
    ddoc = droot.docstring.value if droot.docstring else None
    rec.count("docstrings_compared")
    if sdoc != ddoc:
        return (f"module docstring of {sroot.path} differs", ddoc, sdoc, None, [])
    return deferred


def resolve_py(pkgname: str, path: str):  # noqa: ANN201
    parts = path.split(".")
    for i in range(len(parts), 0, -1):
        mod = sys.modules.get(".".join(parts[:i]))
        if mod is not None:
            obj = mod
            try:
                for p in parts[i:]:
                    obj = inspect.getattr_static(obj, p)
                    if isinstance(obj, (staticmethod, classmethod)):
                        obj = obj.__func__
            except AttributeError:
                return None
            return obj
    return None


def run_case(rec, files: dict, pkgname: str, nontrivial: bool) -> None:  # noqa: ANN001
    import griffe

    case = {"files": files, "package": pkgname}
    res = None
    try:
        with case_watchdog(120), tmp_tree(files) as root:
            try:
                sl = griffe.GriffeLoader(search_paths=[root], allow_inspection=False)
                spkg = sl.load(pkgname)
                sl.resolve_aliases(implicit=True, external=False)
                dl = griffe.GriffeLoader(search_paths=[root], allow_inspection=True, force_inspection=True)
                dpkg = dl.load(pkgname)
                dl.resolve_aliases(implicit=True, external=False)
                rec.count("packages_compared")
                res = walk_compare(rec, files, pkgname, spkg, dpkg)
            finally:
                for k in [k for k in sys.modules if k == pkgname or k.startswith(pkgname + ".")]:
                    del sys.modules[k]
                importlib.invalidate_caches()
    except Exception as exc:  # noqa: BLE001
        rec.fail_exc(case, f"{type(exc).__name__} while loading with one of the agents", exc, nontrivial=nontrivial)
        return
    if res:
        rec.fail(case, res[0], observed=res[1], expected=res[2], finding=res[3], tried=res[4], nontrivial=nontrivial)
    else:
        rec.ok(case, nontrivial=nontrivial)


def features(files: dict) -> bool:
    text = "\n".join(files.values())
    import re

    return bool(re.search(r"class \w+\(\w+\)", text)) and "@property" in text and "import" in text


def run_shard(spec: dict, rec) -> None:  # noqa: ANN001
    rng = random.Random(spec["seed"])
    for i in range(spec["count"]):
        name = f"vfq{spec['seed'] % 100000}_{i}"
        files = gen_package(rng, name)
        run_case(rec, files, name, features(files))


def run_replay(inp: dict, rec) -> None:  # noqa: ANN001
    run_case(rec, inp["files"], inp["package"], True)


def run_pinned(findings: list[dict], rec) -> dict:  # noqa: ANN001
    from vf.core.rec import Recorder, pinned_result

    out = {}
    for f in findings:
        sub = Recorder(PROP, {})
        run_case(sub, f["witness"]["files"], f["witness"]["package"], True)
        out[f["id"]] = pinned_result(sub, f)
    return out
