"""C07 — Method resolution order and inherited members equal CPython's.

Workload: *all* hierarchies of N classes with <= 3 ordered bases chosen among earlier classes
(exhaustive), textual cycles, and the same hierarchies spread over several modules with bases
reached through from-imports, aliased imports and ``mod.Class`` attribute access.
Oracle: CPython's ``type()`` builds the very same hierarchy; ``__mro__`` and the first class
in it defining a name are the expected order / definer.  M-CON contract on ``c3linear_merge``.
"""
from __future__ import annotations

import itertools
import random

from vf.core import mon
from vf.core.util import case_watchdog, load_files, visit_source

PROP = "C07"
LEVEL = "exploration"
ANCHORS = ["c3linear.py"]
RULE = ("all hierarchies of N classes (N<=5 quick, N<=6 thorough), each class with an ordered list of <=3 distinct "
        "bases among earlier classes, enumerated exhaustively in one module; plus seeded samples of the same "
        "hierarchies spread over 2-3 modules (from-import / aliased import / mod.Class bases) and textual "
        "inheritance cycles; members f,g,h,x placed at random with overrides. distinct = digest of the rendered "
        "sources; non-trivial = some class has >= 2 bases")
LEVEL_TEXT = ("Every hierarchy of the stated bounded space is built by CPython's type() and by Griffe from the same text and "
              "compared class by class (MRO, rejected/cyclic hierarchies, definer of every inherited name, alias "
              "presentation); a post-condition on c3linear_merge is evaluated on every merge. Exhaustive for <=5 (quick) / "
              "<=6 (thorough) classes with <=3 bases in one module; sampled across modules.")
LEVEL_NOTE = "trusted: CPython 3.12 type()/__mro__ as reference; the renderer of class statements; bounds N<=6, <=3 bases"
TECHNIQUE = "runtime monitoring: differential oracle against CPython type()/__mro__ + contract on c3linear_merge + step budget"
REQUIRED_COUNTERS = ["mro_compared", "c3_contract_evals", "inherited_lookups_compared", "rejected_by_both",
                     "cycles_reported"]
EXHAUSTIVE = {"quick": True, "thorough": True}  # quick: exhaustive for N<=5 (+ a sample of N=6); thorough: N<=6
ASSUMPTIONS = ["CPython 3.12 type() is the reference semantics for C3 linearisation and attribute lookup",
               "exhaustive over the stated bounded space only (N classes, <=3 bases); cross-module and cycle "
               "workloads are sampled"]
NAMES = ["f", "g", "h", "x"]


class ContractBroken(Exception):
    pass


# ------------------------------------------------------------------------------------------
def base_choices(i: int) -> list[tuple[int, ...]]:
    out: list[tuple[int, ...]] = []
    for k in range(min(3, i) + 1):
        out.extend(itertools.permutations(range(i), k))
    return out


def enumerate_hierarchies(n: int):
    return itertools.product(*[base_choices(i) for i in range(n)])


def shards(tier: str, seed: int) -> list[dict]:
    nsh = 16
    maxn = 5 if tier == "quick" else 6
    out = [{"kind": "exhaustive", "maxn": maxn, "part": p, "parts": nsh} for p in range(nsh)]
    nmulti = 40 if tier == "quick" else 700
    for p in range(8 if tier == "quick" else 16):
        out.append({"kind": "multi", "count": nmulti, "maxn": 6})
    out.append({"kind": "cycles"})
    if tier == "quick":
        out += [{"kind": "sampled6", "count": 2500} for _ in range(8)]   # N=6 is exhaustive only in the thorough tier
    return out


# ------------------------------------------------------------------------------------------
def install_contract(rec):  # noqa: ANN001
    """M-CON: post-condition on every call of c3linear_merge (as referenced from models)."""
    import _griffe.models as models

    if getattr(models.c3linear_merge, "_vf_wrapped", False):
        return
    orig = models.c3linear_merge

    def is_subsequence(sub, full):  # noqa: ANN001
        it = iter(full)
        return all(any(x is y for y in it) for x in sub)

    def wrapper(*lists):  # noqa: ANN002
        snapshot = [list(lst) for lst in lists]
        result = orig(*lists)
        rec.count("c3_contract_evals")
        ids = [id(x) for x in result]
        if len(ids) != len(set(ids)):
            raise ContractBroken(f"c3linear_merge result has duplicates: {result!r}")
        for lst in snapshot:
            if not is_subsequence(lst, result):
                raise ContractBroken(f"c3linear_merge result {result!r} does not preserve order of {lst!r}")
        if {id(x) for lst in snapshot for x in lst} != set(ids):
            raise ContractBroken("c3linear_merge result is not the union of its inputs")
        return result

    wrapper._vf_wrapped = True  # type: ignore[attr-defined]
    models.c3linear_merge = wrapper


def members_for(rng: random.Random, n: int) -> list[dict[str, str]]:
    out = []
    for _ in range(n):
        m = {}
        for name in NAMES:
            if rng.random() < 0.4:
                m[name] = "attr" if name == "x" or rng.random() < 0.3 else "func"
        out.append(m)
    return out


def render_class(i: int, base_exprs: list[str], members: dict[str, str]) -> str:
    head = f"class C{i}" + (f"({', '.join(base_exprs)})" if base_exprs else "") + ":\n"
    body = ""
    for name, kind in members.items():
        body += f"    def {name}(self): ...\n" if kind == "func" else f"    {name} = {i}\n"
    return head + (body or "    pass\n")


def cpython_reference(hier, members):  # noqa: ANN001
    """Build the hierarchy with type(); returns per class: mro index list or None (uncomputable)."""
    classes: list[type | None] = []
    for i, bases in enumerate(hier):
        if any(classes[b] is None for b in bases):
            classes.append(None)
            continue
        ns = {name: (lambda self: None) if kind == "func" else i for name, kind in members[i].items()}
        try:
            classes.append(type(f"C{i}", tuple(classes[b] for b in bases), ns))
        except TypeError:
            classes.append(None)
    index = {cls: i for i, cls in enumerate(classes) if cls is not None}
    mros = [None if cls is None else [index[c] for c in cls.__mro__[1:-1]] for cls in classes]
    definers = []
    for i, cls in enumerate(classes):
        if cls is None:
            definers.append(None)
            continue
        d = {}
        for name in NAMES:
            for c in cls.__mro__[:-1]:
                if name in vars(c):
                    d[name] = index[c]
                    break
        definers.append(d)
    return mros, definers


def judge(rec, case, hier, members, get_class, path_of, steps):  # noqa: ANN001, C901, PLR0912
    """Compare griffe's view of every class with CPython's. Returns a failure tuple or None."""
    mros, definers = cpython_reference(hier, members)
    for i in range(len(hier)):
        cls = get_class(i)
        steps.begin(200_000)
        try:
            try:
                got = cls.mro()
                err = None
            except ValueError as exc:
                got, err = None, exc
            inherited = cls.inherited_members
            allm = cls.all_members
        finally:
            n, depth = steps.end()
            rec.maximum("max_steps_per_class", n)
            rec.maximum("max_stack_depth", depth)
        exp = mros[i]
        rec.count("mro_compared")
        if exp is None:
            rec.count("rejected_by_both" if got is None else "rejected_by_cpython_only")
            if got is not None:
                return (f"C{i}: CPython rejects the hierarchy, griffe returned an MRO", [c.path for c in got], "ValueError")
            if inherited:
                return (f"C{i}: uncomputable MRO but inherited_members non-empty", sorted(inherited), {})
            continue
        if got is None:
            return (f"C{i}: griffe raised {err!r} but CPython accepts", None, [path_of(j) for j in exp])
        gotp = [c.path for c in got]
        expp = [path_of(j) for j in exp]
        if gotp != expp:
            return (f"C{i}: MRO differs", gotp, expp)
        own = set(members[i])
        exp_inh = {name: d for name, d in definers[i].items() if name not in own}
        if set(inherited) != set(exp_inh):
            return (f"C{i}: inherited member names differ", sorted(inherited), sorted(exp_inh))
        if set(inherited) & set(cls.members):
            return (f"C{i}: inherited member shadows a declared one", sorted(set(inherited) & set(cls.members)), [])
        for name, d in exp_inh.items():
            rec.count("inherited_lookups_compared")
            al = inherited[name]
            want = path_of(d) + "." + name
            if al.final_target.path != want:
                return (f"C{i}.{name}: inherited from wrong definer", al.final_target.path, want)
            if not al.is_alias or not al.inherited:
                return (f"C{i}.{name}: inherited member is not an inherited alias", repr(al), "Alias(inherited=True)")
            if al.path != cls.path + "." + name:
                return (f"C{i}.{name}: inherited alias path not rebased", al.path, cls.path + "." + name)
            viaitem = cls[name]
            if viaitem.final_target.path != want:
                return (f"C{i}[{name!r}] resolves to wrong definer", viaitem.final_target.path, want)
            if allm[name].final_target.path != want:
                return (f"C{i}.all_members[{name!r}] wrong definer", allm[name].final_target.path, want)
        for name in own:
            if allm[name] is not cls.members[name]:
                return (f"C{i}.all_members[{name!r}] is not the declared member", repr(allm[name]), repr(cls.members[name]))
            if cls[name] is not cls.members[name]:
                return (f"C{i}[{name!r}] is not the declared member", repr(cls[name]), repr(cls.members[name]))
        if set(allm) != own | set(exp_inh):
            return (f"C{i}: all_members names differ", sorted(allm), sorted(own | set(exp_inh)))
    return None


def run_single(rec, hier, members, steps):  # noqa: ANN001
    src = "".join(render_class(i, [f"C{b}" for b in bases], members[i]) for i, bases in enumerate(hier))
    case = {"kind": "single-module", "source": src}
    nontrivial = any(len(b) >= 2 for b in hier)
    try:
        with case_watchdog(60):
            mod = visit_source(src, "m")
            res = judge(rec, case, hier, members, lambda i: mod.members[f"C{i}"], lambda j: f"m.C{j}", steps)
    except (Exception, mon.StepBudgetExceeded) as exc:  # noqa: BLE001
        rec.fail_exc(case, "exception while computing MRO / inherited members", exc, nontrivial=nontrivial)
        return
    if res:
        rec.fail(case, res[0], observed=res[1], expected=res[2], nontrivial=nontrivial)
    else:
        rec.ok(case, nontrivial=nontrivial, dig=None)


def run_multi(rec, rng, steps, maxn):  # noqa: ANN001
    """Same hierarchy spread over modules of a package; bases reached through imports."""
    n = rng.randint(3, maxn)
    hier = [rng.choice(base_choices(i)) for i in range(n)]
    members = members_for(rng, n)
    nmods = rng.randint(2, 3)
    home = [rng.randrange(nmods) for _ in range(n)]
    modnames = ["a", "b", "c"][:nmods]
    bodies = {m: [] for m in modnames}
    imports = {m: [] for m in modnames}
    for i, bases in enumerate(hier):
        m = modnames[home[i]]
        exprs = []
        for b in bases:
            bm = modnames[home[b]]
            if bm == m:
                exprs.append(f"C{b}")
                continue
            # a module may only import from modules that define nothing it is imported by *before* use:
            # statements run top-down in CPython, but griffe is static, so any form is fine for it; the
            # reference does not import these files (it uses type()), so import cycles are harmless here.
            form = rng.choice(["from", "from_as", "import", "import_as", "rel"])
            if form == "from":
                imports[m].append(f"from pk.{bm} import C{b}")
                exprs.append(f"C{b}")
            elif form == "from_as":
                imports[m].append(f"from pk.{bm} import C{b} as K{b}")
                exprs.append(f"K{b}")
            elif form == "import":
                imports[m].append(f"import pk.{bm}")
                exprs.append(f"pk.{bm}.C{b}")
            elif form == "import_as":
                imports[m].append(f"import pk.{bm} as mod_{bm}")
                exprs.append(f"mod_{bm}.C{b}")
            else:
                imports[m].append(f"from .{bm} import C{b} as R{b}")
                exprs.append(f"R{b}")
        bodies[m].append(render_class(i, exprs, members[i]))
    files = {"pk/__init__.py": ""}
    for m in modnames:
        files[f"pk/{m}.py"] = "\n".join(dict.fromkeys(imports[m])) + "\n" + "".join(bodies[m])
    case = {"kind": "multi-module", "files": files}
    nontrivial = any(len(b) >= 2 for b in hier)
    try:
        with case_watchdog(60):
            pkg, _ = load_files(files, "pk")
            res = judge(rec, case, hier, members, lambda i: pkg[modnames[home[i]]].members[f"C{i}"],
                        lambda j: f"pk.{modnames[home[j]]}.C{j}", steps)
    except (Exception, mon.StepBudgetExceeded) as exc:  # noqa: BLE001
        rec.fail_exc(case, "exception while computing MRO / inherited members (multi-module)", exc, nontrivial=nontrivial)
        return
    rec.count("multi_module_cases")
    if res:
        rec.fail(case, res[0], observed=res[1], expected=res[2], nontrivial=nontrivial)
    else:
        rec.ok(case, nontrivial=nontrivial)


CYCLES = [
    {"m.py": "class A(B):\n    def f(self): ...\nclass B(A):\n    def g(self): ...\n"},
    {"m.py": "class A(A):\n    x = 1\n"},
    {"m.py": "class A(C): ...\nclass B(A): ...\nclass C(B):\n    def f(self): ...\n"},
    {"m.py": "class O: ...\nclass A(O, B): ...\nclass B(O, A): ...\n"},
    {"pk/__init__.py": "", "pk/a.py": "from pk.b import B\nclass A(B):\n    def f(self): ...\n",
     "pk/b.py": "from pk.a import A\nclass B(A):\n    def g(self): ...\n"},
    {"pk/__init__.py": "", "pk/a.py": "from .b import B as X\nclass A(X): ...\n",
     "pk/b.py": "from .c import C\nclass B(C): ...\n", "pk/c.py": "import pk.a\nclass C(pk.a.A): ...\n"},
    {"pk/__init__.py": "from pk.a import A\nclass Top(A): ...\n", "pk/a.py": "from pk import Top\nclass A(Top): ...\n"},
    # a class whose base is an alias cycle (never reaches a class): base is simply unresolvable
    {"pk/__init__.py": "", "pk/a.py": "from pk.b import Z\nclass A(Z):\n    def f(self): ...\n",
     "pk/b.py": "from pk.a import Z\n"},
]


def run_cycles(rec, steps):  # noqa: ANN001
    for files in CYCLES:
        case = {"kind": "textual-cycle", "files": files}
        top = "pk" if any(k.startswith("pk/") for k in files) else "m"
        try:
            with case_watchdog(60):
                pkg, _ = load_files(files, top)
                classes = [o for o in _walk(pkg) if o.is_class]
                bad = None
                for cls in classes:
                    steps.begin(100_000)
                    try:
                        try:
                            order = cls.mro()
                            raised = False
                        except ValueError:
                            raised = True
                        inh = cls.inherited_members
                        _ = cls.all_members
                    finally:
                        n, depth = steps.end()
                        rec.maximum("max_steps_per_class", n)
                    in_cycle = _in_textual_cycle(cls)
                    if in_cycle:
                        rec.count("cycles_reported" if raised else "cycles_missed")
                        if not raised:
                            bad = (f"{cls.path}: cyclic hierarchy but mro() returned", [c.path for c in order], "ValueError")
                        elif inh:
                            bad = (f"{cls.path}: cyclic hierarchy but inherited members", sorted(inh), {})
                    elif raised and not any(_in_textual_cycle(b) for b in _bases_closure(cls)):
                        bad = (f"{cls.path}: ValueError but no cycle", "ValueError", "an MRO")
        except (Exception, mon.StepBudgetExceeded) as exc:  # noqa: BLE001
            rec.fail_exc(case, "exception / step budget on cyclic hierarchy", exc)
            continue
        if bad:
            rec.fail(case, bad[0], observed=bad[1], expected=bad[2])
        else:
            rec.ok(case, nontrivial=True, tags=("cycle",))


def _walk(obj):  # noqa: ANN001
    for m in obj.members.values():
        if m.is_alias:
            continue
        yield m
        if m.is_module or m.is_class:
            yield from _walk(m)


def _bases_closure(cls):  # noqa: ANN001
    seen, todo = {}, [cls]
    while todo:
        c = todo.pop()
        for b in c.resolved_bases:
            if b.is_class and b.path not in seen:
                seen[b.path] = b
                todo.append(b)
    return list(seen.values())


def _in_textual_cycle(cls) -> bool:  # noqa: ANN001
    return any(b.path == cls.path for b in _bases_closure(cls))


def run_shard(spec: dict, rec) -> None:  # noqa: ANN001
    install_contract(rec)
    steps = mon.Steps()
    rng = random.Random(spec["seed"])
    if spec["kind"] == "exhaustive":
        idx = 0
        for n in range(1, spec["maxn"] + 1):
            for hier in enumerate_hierarchies(n):
                idx += 1
                if idx % spec["parts"] != spec["part"]:
                    continue
                mrng = random.Random(idx * 7919 + spec["seed"] // 100003)
                run_single(rec, hier, members_for(mrng, n), steps)
    elif spec["kind"] == "multi":
        for _ in range(spec["count"]):
            run_multi(rec, rng, steps, spec["maxn"])
    elif spec["kind"] == "cycles":
        run_cycles(rec, steps)
    elif spec["kind"] == "sampled6":
        for _ in range(spec["count"]):
            hier = tuple(rng.choice(base_choices(i)) for i in range(6))
            run_single(rec, hier, members_for(rng, 6), steps)
            rec.count("sampled_six_class_hierarchies")


def run_replay(inp: dict, rec) -> None:  # noqa: ANN001
    """Replay: re-derive the hierarchy from the literal sources by executing them in CPython."""
    install_contract(rec)
    steps = mon.Steps()
    if inp.get("kind") == "textual-cycle":
        CYCLES[:] = [inp["files"]]
        run_cycles(rec, steps)
        return
    files = inp.get("files") or {"m.py": inp["source"]}
    # generic oracle from text: parse class statements, rebuild with type()
    import ast

    top = "pk" if any(k.startswith("pk/") for k in files) else "m"
    order: list[tuple[str, str, list[str], dict[str, str]]] = []
    for rel, src in files.items():
        modpath = rel[:-3].replace("/", ".").removesuffix(".__init__")
        for node in ast.parse(src).body:
            if isinstance(node, ast.ClassDef):
                mem = {}
                for st in node.body:
                    if isinstance(st, ast.FunctionDef):
                        mem[st.name] = "func"
                    elif isinstance(st, ast.Assign):
                        mem[st.targets[0].id] = "attr"
                bases = [ast.unparse(b) for b in node.bases]
                order.append((node.name, modpath, bases, mem))
    order.sort(key=lambda t: int(t[0][1:]))
    idx = {name: i for i, (name, *_rest) in enumerate(order)}
    hier = tuple(tuple(idx["C" + "".join(ch for ch in b.split(".")[-1] if ch.isdigit())] for b in bases)
                 for _n, _m, bases, _mm in order)
    members = [mm for *_x, mm in order]
    pkg, _ = load_files(files, top)
    case = dict(inp)

    def get(i):  # noqa: ANN001
        name, modpath, *_ = order[i]
        obj = pkg if modpath == top else pkg[modpath.split(".", 1)[1]]
        return obj.members[name]

    res = judge(rec, case, hier, members, get, lambda j: f"{order[j][1]}.{order[j][0]}", steps)
    if res:
        rec.fail(case, res[0], observed=res[1], expected=res[2])
    else:
        rec.ok(case, nontrivial=True)
