"""C07 — Method resolution order and inherited members equal CPython's.

Workload: *all* hierarchies of N classes with <= 3 ordered bases chosen among earlier classes
(exhaustive), textual cycles, and the same hierarchies spread over several modules with bases
reached through from-imports, aliased imports and ``mod.Class`` attribute access.
Loading sessions: the hierarchy is spread over 2-3 *top-level* packages / modules that enter one modules
collection step by step (every load order, one or several loaders sharing the collections, default or no
extensions, ``visit`` without any loader), with mro()/inherited_members/all_members/resolved_bases/``cls[name]``
read at random places between the steps, directly or through an alias of the class.
Statically cyclic hierarchies: every base graph of <= 3 classes with bases among *all* classes (exhaustive), and
samples of larger hierarchies with extra bases pointing at the class itself / a later class, in one module, over
the modules of a package (imports, aliases, re-export) and in the loading sessions.  An independent analysis of the
generated graph says which classes lie on or merely reach a cycle: those must raise ValueError from mro() (nothing
else, within the step budget), have no inherited members and keep their declared ones; all others keep the CPython
oracle.
How bases are reached: in the nested-package workload (pkg / sub-package / sub-sub-package, a second sub-package)
and in the sessions, classes are declared in plain modules and in the __init__ modules of every level, and every
base is reached by a randomly chosen spelling out of all that Python offers from that place: absolute and relative
(``from . / .. / ... import m``, ``from ..m import C``, ``from .. import C``) from-imports with and without ``as``,
``import a.b.c`` [``as``], ``m.C`` and ``p.m.C`` chains through imported modules / packages, and re-exports by another
module or an enclosing package's __init__ (names that only exist through that package's namespace).
Scoping: in 30% of the cases of every workload the class bodies bind (attribute, ``name = name``, method, nested class)
names spelled like the first name of their own base expressions - the base class, the alias it was imported as, the
module / package a dotted chain starts with - and like other classes of the hierarchy: bases are evaluated in the
scope enclosing the class statement, whatever the body binds.  These names are members like f, g, h, x: inherited
and overridden further down, and judged the same way.
Views of one tree: a share of the cases of every workload (90% of those with such bodies, 30% of the others; 50% / 10%
of the numerous single-module cases) is judged
a second time, with the same expectation, on the tree dumped with ``as_json(full=False|True)`` and loaded back with
``Module.from_json`` / ``json.loads(object_hook=json_decoder)`` - every top-level package of the collection, placed in
a fresh ``ModulesCollection`` (for sessions: the final state of the shared collection).
Oracle: CPython's ``type()`` builds the very same hierarchy; ``__mro__`` and the first class
in it defining a name are the expected order / definer.  For sessions CPython additionally imports the
generated files and must agree with ``type()``.  M-CON contract on ``c3linear_merge``.
"""
from __future__ import annotations

import itertools
import random

from vf.core import mon
from vf.core.util import case_watchdog, load_files, visit_source

PROP = "C07"
LEVEL = "exploration"
ANCHORS = ["c3linear.py"]
RULE = ("all hierarchies of N classes (N<=5 quick, N<=6 thorough), each class with an ordered list of <=3 distinct "
        "bases among earlier classes, enumerated exhaustively in one module; plus seeded samples of the same "
        "hierarchies spread over 2-3 modules (from-import / aliased import / mod.Class bases) and textual "
        "inheritance cycles; plus all base graphs of <=3 classes with <=3 bases among ALL classes (self and later "
        "ones included: cycles of length 1-3, classes on / reaching / not reaching a cycle) and seeded hierarchies of "
        "2-7 classes with 1-3 extra bases pointing backwards (mostly at a descendant), in one module or over a "
        "package (imports, aliases, re-export through __init__); plus seeded nested packages (sub-packages 1-2 levels "
        "deep, half of the classes in __init__ modules, every base reached by one of all absolute / relative / "
        "dotted-chain / re-export spellings valid at that place, CPython really imports the files); plus seeded "
        "loading sessions (same spellings, sub-packages; 30% of them with "
        "backward bases): the hierarchy spread over 2-3 top-level packages/modules "
        "(bases through from/aliased/module-attribute/relative imports and re-exports by a third unit), loaded or "
        "visited into one shared collection in a random order (all orders occur) by 1-3 loaders with default or no "
        "extensions, accessors read and resolve_aliases() called at random places between the loads, every class "
        "judged as soon as everything it depends on is loaded and again at the end; members f,g,h,x placed at "
        "random with overrides; in 30% of the cases of every workload class bodies also bind (attribute, name = name, "
        "method, nested class) the first name of their own base expressions (class, import alias, module/package a "
        "dotted base starts with) or the name of another class; 90% of those cases and 30% of the others (single-module workloads: 50% / 10%) are judged "
        "again after a JSON round trip (as_json full or not -> Module.from_json / json.loads with json_decoder, all "
        "top-level packages into a fresh ModulesCollection). distinct = digest of the rendered sources (+ operations); non-trivial = some class "
        "has >= 2 bases")
LEVEL_TEXT = ("Every hierarchy of the stated bounded space is built by CPython's type() and by Griffe from the same text and "
              "compared class by class (MRO, rejected/cyclic hierarchies, definer of every inherited name, alias "
              "presentation); a post-condition on c3linear_merge is evaluated on every merge. Exhaustive for <=5 (quick) / "
              "<=6 (thorough) classes with <=3 bases in one module; sampled across modules and across multi-step loading "
              "sessions (the answer of an accessor must not depend on what was loaded or asked before). Classes that "
              "statically lie on or reach an inheritance cycle (decided by a graph analysis of the generated hierarchy, "
              "not by Griffe) must be reported by ValueError within a step budget and expose only declared members.")
LEVEL_NOTE = "trusted: CPython 3.12 type()/__mro__ as reference; the renderer of class statements; bounds N<=6, <=3 bases"
TECHNIQUE = "runtime monitoring: differential oracle against CPython type()/__mro__ + contract on c3linear_merge + step budget"
REQUIRED_COUNTERS = ["mro_compared", "c3_contract_evals", "inherited_lookups_compared", "rejected_by_both",
                     "cycles_reported", "session_final_classes_judged", "session_classes_judged_mid_session",
                     "session_final_classes_asked_before_bases_loaded", "session_reads_between_loads",
                     "session_cpython_import_agrees", "classes_on_a_cycle_judged",
                     "classes_reaching_a_cycle_from_outside_judged", "session_cyclic_classes_judged",
                     "tree_classes_judged", "tree_cpython_import_agrees", "bases_of_classes_declared_in_a_subpackage_init",
                     "bases_reached_by_parent_relative_import", "bases_reached_by_bare_parent_relative_name_in_init",
                     "bases_reached_through_a_reexport",
                     "classes_binding_root_of_own_base_judged", "reloaded_classes_judged",
                     "reloaded_classes_with_several_ancestors_judged", "reloaded_cyclic_classes_judged",
                     "reloaded_classes_binding_root_of_own_base_judged",
                     "reloaded_classes_binding_root_of_own_dotted_base_judged", "reloaded_package_trees_judged",
                     "reloaded_sessions_judged"]
EXHAUSTIVE = {"quick": True, "thorough": True}  # quick: exhaustive for N<=5 (+ a sample of N=6); thorough: N<=6
ASSUMPTIONS = ["CPython 3.12 type() is the reference semantics for C3 linearisation and attribute lookup",
               "exhaustive over the stated bounded space only (N classes, <=3 bases); cross-module, cycle and "
               "loading-session workloads are sampled",
               "in the middle of a loading session a class is compared with CPython only once every package its "
               "ancestors (and the re-exporting modules on the way) live in is loaded; before that only "
               "state-independent invariants are judged (what an unloadable base should mean is not part of the "
               "statement)"]
NAMES = ["f", "g", "h", "x"]


def names_of(members) -> list[str]:  # noqa: ANN001
    """Every member name of a case: f, g, h, x plus the names class bodies bind besides (names spelled like the
    roots of base expressions / like classes of the hierarchy)."""
    extra = {name for m in members for name in m if name not in NAMES}
    return NAMES + sorted(extra)


def ns_value(kind: str, i: int):  # noqa: ANN201
    if kind == "func":
        return lambda self: None
    if kind == "class":
        return type("Nested", (), {})
    return i


class ContractBroken(Exception):
    pass


# ------------------------------------------------------------------------------------------
def base_choices(i: int) -> list[tuple[int, ...]]:
    out: list[tuple[int, ...]] = []
    for k in range(min(3, i) + 1):
        out.extend(itertools.permutations(range(i), k))
    return out


def enumerate_hierarchies(n: int):
    return itertools.product(*[base_choices(i) for i in range(n)])


def shards(tier: str, seed: int) -> list[dict]:
    nsh = 16
    maxn = 5 if tier == "quick" else 6
    out = [{"kind": "exhaustive", "maxn": maxn, "part": p, "parts": nsh} for p in range(nsh)]
    nmulti = 40 if tier == "quick" else 700
    for p in range(8 if tier == "quick" else 16):
        out.append({"kind": "multi", "count": nmulti, "maxn": 6})
    out.append({"kind": "cycles"})
    # every base graph of <= 3 classes with bases among *all* classes (2 + 25 + 4096 graphs, most of them cyclic),
    # and samples of larger hierarchies with bases pointing backwards, in one module or over a package
    out += [{"kind": "cyclic_exhaustive", "maxn": 3, "part": p, "parts": 4} for p in range(4)]
    for p in range(4 if tier == "quick" else 16):
        out.append({"kind": "cyclic_sampled", "count": 200 if tier == "quick" else 2000, "maxn": 7})
    for p in range(8 if tier == "quick" else 16):
        out.append({"kind": "trees", "count": 150 if tier == "quick" else 2500, "maxn": 6})
    for p in range(8 if tier == "quick" else 16):
        out.append({"kind": "sessions", "count": 160 if tier == "quick" else 2500, "maxn": 6})
    if tier == "quick":
        out += [{"kind": "sampled6", "count": 2500} for _ in range(8)]   # N=6 is exhaustive only in the thorough tier
    return out


# ------------------------------------------------------------------------------------------
def install_contract(rec):  # noqa: ANN001
    """M-CON: post-condition on every call of c3linear_merge (as referenced from models)."""
    import _griffe.models as models

    if getattr(models.c3linear_merge, "_vf_wrapped", False):
        return
    orig = models.c3linear_merge

    def is_subsequence(sub, full):  # noqa: ANN001
        it = iter(full)
        return all(any(x is y for y in it) for x in sub)

    def wrapper(*lists):  # noqa: ANN002
        snapshot = [list(lst) for lst in lists]
        result = orig(*lists)
        rec.count("c3_contract_evals")
        ids = [id(x) for x in result]
        if len(ids) != len(set(ids)):
            raise ContractBroken(f"c3linear_merge result has duplicates: {result!r}")
        for lst in snapshot:
            if not is_subsequence(lst, result):
                raise ContractBroken(f"c3linear_merge result {result!r} does not preserve order of {lst!r}")
        if {id(x) for lst in snapshot for x in lst} != set(ids):
            raise ContractBroken("c3linear_merge result is not the union of its inputs")
        return result

    wrapper._vf_wrapped = True  # type: ignore[attr-defined]
    models.c3linear_merge = wrapper


def members_for(rng: random.Random, n: int) -> list[dict[str, str]]:
    out = []
    for _ in range(n):
        m = {}
        for name in NAMES:
            if rng.random() < 0.4:
                m[name] = "attr" if name == "x" or rng.random() < 0.3 else "func"
        out.append(m)
    return out


def render_class(i: int, base_exprs: list[str], members: dict[str, str]) -> str:
    head = f"class C{i}" + (f"({', '.join(base_exprs)})" if base_exprs else "") + ":\n"
    body = ""
    for name, kind in members.items():
        if kind == "func":
            body += f"    def {name}(self): ...\n"
        elif kind == "class":
            body += f"    class {name}:\n        y = {i}\n"
        elif kind == "attr_ref":      # keeps a handle on what the name means in the enclosing scope
            body += f"    {name} = {name}\n"
        else:
            body += f"    {name} = {i}\n"
    return head + (body or "    pass\n")


SHADOW_KINDS = ["attr", "attr_ref", "func", "class"]


def bind_base_roots(rng: random.Random, i: int, base_exprs: list[str], members: list, binds: list, others=()) -> None:  # noqa: ANN001
    """Scoping: bases are evaluated in the scope *enclosing* the class statement, whatever the class body binds.
    Adds (in place) to the body of class ``i`` members - attribute, method or nested class - spelled like the first
    name of one of its base expressions (the base class itself, the alias it was imported as, or the module /
    package a dotted chain starts with), sometimes also like the last name of a dotted base or like another class
    of the hierarchy.  ``binds[i]`` records which roots of its own bases the body binds."""
    roots = list(dict.fromkeys(e.split(".")[0] for e in base_exprs))
    picked: dict[str, str] = {}
    for root in roots:
        if rng.random() < 0.6:
            picked[root] = rng.choice(SHADOW_KINDS)
    for e in base_exprs:
        if "." in e and rng.random() < 0.25:
            picked.setdefault(e.rsplit(".", 1)[1], rng.choice(["attr", "func", "class"]))
    for name in others:
        if rng.random() < 0.15:
            picked.setdefault(name, rng.choice(["attr", "func", "class"]))
    if not picked:
        return
    items = list(members[i].items())
    for name, kind in picked.items():
        items.insert(rng.randrange(len(items) + 1), (name, kind))
    members[i] = dict(items)
    dotted = {e.split(".")[0] for e in base_exprs if "." in e}
    binds[i] = [[name, picked[name], name in dotted] for name in roots if name in picked]


def cpython_reference(hier, members):  # noqa: ANN001
    """Build the hierarchy with type(); returns per class: mro index list or None (uncomputable)."""
    classes: list[type | None] = []
    for i, bases in enumerate(hier):
        if any(classes[b] is None for b in bases):
            classes.append(None)
            continue
        ns = {name: ns_value(kind, i) for name, kind in members[i].items()}
        try:
            classes.append(type(f"C{i}", tuple(classes[b] for b in bases), ns))
        except TypeError:
            classes.append(None)
    index = {cls: i for i, cls in enumerate(classes) if cls is not None}
    mros = [None if cls is None else [index[c] for c in cls.__mro__[1:-1]] for cls in classes]
    definers = []
    for i, cls in enumerate(classes):
        if cls is None:
            definers.append(None)
            continue
        d = {}
        for name in names_of(members):
            for c in cls.__mro__[:-1]:
                if name in vars(c):
                    d[name] = index[c]
                    break
        definers.append(d)
    return mros, definers


CYCLE = "cycle"     # expectation marker: the class statically reaches an inheritance cycle


def graph_analysis(graph):  # noqa: ANN001, ANN201
    """Independent analysis of a base graph (class -> ordered bases, any direction): per class whether it lies on
    a cycle, whether it reaches one, and the number of base hops to the nearest class lying on a cycle."""
    n = len(graph)
    reach = []
    for i in range(n):
        seen: set[int] = set()
        todo = list(graph[i])
        while todo:
            j = todo.pop()
            if j not in seen:
                seen.add(j)
                todo.extend(graph[j])
        reach.append(seen)
    on_cycle = [i in reach[i] for i in range(n)]
    reaches = [on_cycle[i] or any(on_cycle[j] for j in reach[i]) for i in range(n)]
    hops = []
    for i in range(n):
        dist, frontier, seen = 0, {i}, {i}
        while frontier and not any(on_cycle[j] for j in frontier):
            frontier = {b for j in frontier for b in graph[j]} - seen
            seen |= frontier
            dist += 1
        hops.append(dist if frontier else None)
    return on_cycle, reaches, hops


def graph_reference(graph, members):  # noqa: ANN001, ANN201
    """Like cpython_reference, for bases in any direction: classes reaching a cycle are marked CYCLE; the others
    (their ancestry is acyclic) are built by CPython's type() in dependency order."""
    _on, reaches, _hops = graph_analysis(graph)
    n = len(graph)
    classes: dict[int, type | None] = {}

    def build(i: int) -> None:
        if i in classes:
            return
        for b in graph[i]:
            build(b)
        if any(classes[b] is None for b in graph[i]):
            classes[i] = None
            return
        ns = {name: ns_value(kind, i) for name, kind in members[i].items()}
        try:
            classes[i] = type(f"C{i}", tuple(classes[b] for b in graph[i]), ns)
        except TypeError:
            classes[i] = None

    for i in range(n):
        if not reaches[i]:
            build(i)
    index = {cls: i for i, cls in classes.items() if cls is not None}
    mros: list = []
    definers: list = []
    for i in range(n):
        if reaches[i]:
            mros.append(CYCLE)
            definers.append(None)
            continue
        cls = classes[i]
        if cls is None:
            mros.append(None)
            definers.append(None)
            continue
        mros.append([index[c] for c in cls.__mro__[1:-1]])
        d = {}
        for name in names_of(members):
            for c in cls.__mro__[:-1]:
                if name in vars(c):
                    d[name] = index[c]
                    break
        definers.append(d)
    return mros, definers


def judge_cyclic(rec, i, cls, members, steps):  # noqa: ANN001, ANN201, C901, PLR0911
    """Class number ``i`` statically reaches an inheritance cycle: it must be *reported* as uncomputable
    (ValueError from mro(), nothing else, within the step budget) and behave as a class without inherited members."""
    steps.begin(200_000)
    try:
        try:
            got = cls.mro()
        except ValueError:
            got = None
        inherited = cls.inherited_members
        allm = cls.all_members
        items = {}
        for name in names_of(members):
            try:
                items[name] = cls[name]
            except KeyError:
                items[name] = None
        params = list(cls.parameters)
    finally:
        n, depth = steps.end()
        rec.maximum("max_steps_per_class", n)
        rec.maximum("max_stack_depth", depth)
    rec.count("mro_compared")
    rec.count("cycles_reported" if got is None else "cycles_missed")
    if got is not None:
        return (f"C{i}: the hierarchy reaches an inheritance cycle but mro() returned", [c.path for c in got], "ValueError")
    if inherited:
        return (f"C{i}: reaches an inheritance cycle but has inherited members", sorted(inherited), {})
    own = members[i]
    if set(allm) != set(own) or any(allm[name] is not cls.members[name] for name in own):
        return (f"C{i}: reaches an inheritance cycle: all_members must be exactly the declared members", sorted(allm),
                sorted(own))
    for name in names_of(members):
        if name in own and items[name] is not cls.members[name]:
            return (f"C{i}[{name!r}] is not the declared member (class reaches an inheritance cycle)", repr(items[name]),
                    repr(cls.members[name]))
        if name not in own and items[name] is not None:
            return (f"C{i}[{name!r}] found although nothing can be inherited through a cycle", repr(items[name]), "KeyError")
    if params:
        return (f"C{i}.parameters non-empty without a declared or inheritable __init__", repr(params), [])
    return None


def judge_one(rec, i, cls, mros, definers, members, path_of, steps):  # noqa: ANN001, C901, PLR0911, PLR0912
    """Compare griffe's view of class number ``i`` with CPython's. Returns a failure tuple or None."""
    if mros[i] == CYCLE:
        return judge_cyclic(rec, i, cls, members, steps)
    steps.begin(200_000)
    try:
        try:
            got = cls.mro()
            err = None
        except ValueError as exc:
            got, err = None, exc
        inherited = cls.inherited_members
        allm = cls.all_members
    finally:
        n, depth = steps.end()
        rec.maximum("max_steps_per_class", n)
        rec.maximum("max_stack_depth", depth)
    exp = mros[i]
    rec.count("mro_compared")
    if exp is None:
        rec.count("rejected_by_both" if got is None else "rejected_by_cpython_only")
        if got is not None:
            return (f"C{i}: CPython rejects the hierarchy, griffe returned an MRO", [c.path for c in got], "ValueError")
        if inherited:
            return (f"C{i}: uncomputable MRO but inherited_members non-empty", sorted(inherited), {})
        return None
    if got is None:
        return (f"C{i}: griffe raised {err!r} but CPython accepts", None, [path_of(j) for j in exp])
    gotp = [c.path for c in got]
    expp = [path_of(j) for j in exp]
    if gotp != expp:
        return (f"C{i}: MRO differs", gotp, expp)
    own = set(members[i])
    exp_inh = {name: d for name, d in definers[i].items() if name not in own}
    if set(inherited) != set(exp_inh):
        return (f"C{i}: inherited member names differ", sorted(inherited), sorted(exp_inh))
    if set(inherited) & set(cls.members):
        return (f"C{i}: inherited member shadows a declared one", sorted(set(inherited) & set(cls.members)), [])
    for name, d in exp_inh.items():
        rec.count("inherited_lookups_compared")
        al = inherited[name]
        want = path_of(d) + "." + name
        if al.final_target.path != want:
            return (f"C{i}.{name}: inherited from wrong definer", al.final_target.path, want)
        if not al.is_alias or not al.inherited:
            return (f"C{i}.{name}: inherited member is not an inherited alias", repr(al), "Alias(inherited=True)")
        if al.path != cls.path + "." + name:
            return (f"C{i}.{name}: inherited alias path not rebased", al.path, cls.path + "." + name)
        viaitem = cls[name]
        if viaitem.final_target.path != want:
            return (f"C{i}[{name!r}] resolves to wrong definer", viaitem.final_target.path, want)
        if allm[name].final_target.path != want:
            return (f"C{i}.all_members[{name!r}] wrong definer", allm[name].final_target.path, want)
    for name in own:
        if allm[name] is not cls.members[name]:
            return (f"C{i}.all_members[{name!r}] is not the declared member", repr(allm[name]), repr(cls.members[name]))
        if cls[name] is not cls.members[name]:
            return (f"C{i}[{name!r}] is not the declared member", repr(cls[name]), repr(cls.members[name]))
    if set(allm) != own | set(exp_inh):
        return (f"C{i}: all_members names differ", sorted(allm), sorted(own | set(exp_inh)))
    return None


RELOADS = [{"full": False, "via": "from_json"}, {"full": True, "via": "from_json"},
           {"full": False, "via": "json_loads"}, {"full": True, "via": "json_loads"}]


def pick_reload(rng: random.Random, binds, share=(0.9, 0.3)) -> dict | None:  # noqa: ANN001
    """Views of one tree: which JSON round trip the hierarchy is judged again after (None: the fresh tree only)."""
    if rng.random() < share[0 if any(binds) else 1]:
        return dict(rng.choice(RELOADS))
    return None


def reload_collection(collection, reload: dict):  # noqa: ANN001, ANN201
    """Every top-level module of the collection dumped with as_json() and loaded back (Module.from_json or
    json.loads with griffe's decoder hook) into a fresh ModulesCollection."""
    import json

    import griffe

    new = griffe.ModulesCollection()
    for name, mod in list(collection.members.items()):
        dumped = mod.as_json(full=bool(reload.get("full")))
        if reload.get("via") == "json_loads":
            again = json.loads(dumped, object_hook=griffe.json_decoder)
        else:
            again = griffe.Module.from_json(dumped)
        new.set_member(name, again)
        again._modules_collection = new
    return new


def note_binds(rec, binds_i, prefix: str) -> None:  # noqa: ANN001
    """Evidence: a judged class whose body binds the first name of one of its own base expressions."""
    if not binds_i:
        return
    rec.count(prefix + "classes_binding_root_of_own_base_judged")
    if any(dotted for _n, _k, dotted in binds_i):
        rec.count(prefix + "classes_binding_root_of_own_dotted_base_judged")
    for _name, kind, dotted in binds_i:
        rec.add_to_set(prefix + "body_binds_base_root_as", kind + (" / module the dotted base starts with" if dotted else ""))


def judge_reloaded(rec, reload, collection, n, mros, definers, members, path_of, steps, binds):  # noqa: ANN001, ANN201
    """The same hierarchy, the same CPython oracle, on the tree that went through a JSON round trip."""
    if not reload:
        return None
    new = reload_collection(collection, reload)
    view = f" [tree reloaded from as_json(full={bool(reload.get('full'))}) through {reload.get('via', 'from_json')}]"
    for i in range(n):
        res = judge_one(rec, i, _walk_to(new, path_of(i)), mros, definers, members, path_of, steps)
        if res:
            return (res[0] + view, res[1], res[2])
        rec.count("reloaded_classes_judged")
        if mros[i] == CYCLE:
            rec.count("reloaded_cyclic_classes_judged")
        elif mros[i] is not None and len(mros[i]) >= 2:
            rec.count("reloaded_classes_with_several_ancestors_judged")
        note_binds(rec, binds[i] if binds else None, "reloaded_")
    rec.count("reloaded_trees_judged")
    rec.add_to_set("reloaded_through", f"as_json(full={bool(reload.get('full'))}) -> {reload.get('via', 'from_json')}")
    return None


def judge(rec, case, hier, members, collection, path_of, steps, binds=None, reload=None):  # noqa: ANN001
    """Compare griffe's view of every class with CPython's, on the fresh tree and (``reload``) on the tree dumped to
    JSON and loaded back. Returns a failure tuple or None."""
    mros, definers = graph_reference(hier, members)
    for i in range(len(hier)):
        res = judge_one(rec, i, _walk_to(collection, path_of(i)), mros, definers, members, path_of, steps)
        if res:
            return res
        note_binds(rec, binds[i] if binds else None, "")
    return judge_reloaded(rec, reload, collection, len(hier), mros, definers, members, path_of, steps, binds)


SHADOW_CASES = 0.3      # share of the cases whose class bodies bind names spelled like the roots of their bases


def bind_all(rng: random.Random, hier, members, exprs_of):  # noqa: ANN001, ANN201
    """-> (members with the extra names, binds per class); ``exprs_of(i)`` = the base expressions of class i."""
    n = len(hier)
    members = [dict(m) for m in members]
    binds: list[list] = [[] for _ in range(n)]
    if rng.random() < SHADOW_CASES:
        for i in range(n):
            if hier[i]:
                bind_base_roots(rng, i, exprs_of(i), members, binds, [f"C{j}" for j in range(n) if j not in hier[i]])
    return members, binds


def graph_choices(n: int) -> list[tuple[int, ...]]:
    """Ordered lists of <= 3 distinct bases among *all* n classes (the class itself and later ones included)."""
    out: list[tuple[int, ...]] = []
    for k in range(min(3, n) + 1):
        out.extend(itertools.permutations(range(n), k))
    return out


def enumerate_graphs(n: int):  # noqa: ANN201
    return itertools.product(*[graph_choices(n)] * n)


def add_back_edges(rng: random.Random, hier, k: int):  # noqa: ANN001, ANN201
    """Turn a hierarchy (bases among earlier classes) into a general base graph: k extra bases pointing at the class
    itself or at a later class - mostly at a descendant (closes a cycle of any length), sometimes at an unrelated one."""
    graph = [list(b) for b in hier]
    n = len(graph)
    for _ in range(k):
        u = rng.randrange(n)
        descendants = [v for v in range(u, n) if v == u or u in _reachable(graph, v)]
        v = rng.choice(descendants) if rng.random() < 0.65 else rng.randrange(u, n)
        if v in graph[u]:
            continue
        if len(graph[u]) >= 3:
            graph[u][rng.randrange(3)] = v
        else:
            graph[u].insert(rng.randrange(len(graph[u]) + 1), v)
    return tuple(tuple(b) for b in graph)


def _reachable(graph, i: int) -> set[int]:  # noqa: ANN001
    seen: set[int] = set()
    todo = list(graph[i])
    while todo:
        j = todo.pop()
        if j not in seen:
            seen.add(j)
            todo.extend(graph[j])
    return seen


def text_order(rng: random.Random, graph) -> list[int]:  # noqa: ANN001
    """Order of the class statements: classes with an acyclic ancestry come after all their ancestors (that part of
    the text is valid Python); the classes reaching a cycle (no valid order exists) are put at random places."""
    _on, reaches, _hops = graph_analysis(graph)
    order: list[int] = []

    def visit(i: int) -> None:
        if i not in order:
            for b in graph[i]:
                visit(b)
            order.append(i)

    for i in range(len(graph)):
        if not reaches[i]:
            visit(i)
    for i in range(len(graph)):
        if reaches[i]:
            order.insert(rng.randrange(len(order) + 1), i)
    return order


def note_cycles(rec, graph, analysis=None) -> None:  # noqa: ANN001
    """Evidence about the positions (relative to a cycle) of the classes of a case that was judged completely."""
    on_cycle, reaches, hops = analysis or graph_analysis(graph)
    if not any(reaches):
        return
    rec.count("cyclic_hierarchies_judged")
    for i, bases in enumerate(graph):
        if on_cycle[i]:
            rec.count("classes_on_a_cycle_judged")
            length = 1 if i in bases else 1 + min(_dist(graph, b, i) for b in bases if i == b or i in _reachable(graph, b))
            rec.maximum("max_cycle_length", length)
        elif reaches[i]:
            rec.count("classes_reaching_a_cycle_from_outside_judged")
            rec.maximum("max_hops_to_cycle", hops[i])
            if sum(1 for b in bases if reaches[b]) < len(bases):
                rec.count("classes_reaching_a_cycle_through_some_bases_only")
    if any(m is None for m in graph_reference(graph, [{} for _ in graph])[0]):
        rec.count("cyclic_hierarchies_with_c3_inconsistent_part")


def _dist(graph, src: int, dst: int) -> int:  # noqa: ANN001
    dist, frontier, seen = 0, {src}, {src}
    while dst not in frontier:
        frontier = {b for j in frontier for b in graph[j]} - seen
        seen |= frontier
        dist += 1
    return dist


def run_single(rec, hier, members, steps, order=None, rng=None):  # noqa: ANN001
    binds, reload = None, None
    if rng is not None:
        members, binds = bind_all(rng, hier, members, lambda i: [f"C{b}" for b in hier[i]])
        reload = pick_reload(rng, binds, (0.5, 0.1))     # the single-module workloads are by far the most numerous
    src = "".join(render_class(i, [f"C{b}" for b in hier[i]], members[i]) for i in order or range(len(hier)))
    case = {"kind": "single-module", "source": src, "reload": reload}
    nontrivial = any(len(b) >= 2 for b in hier)
    try:
        with case_watchdog(60):
            mod = visit_source(src, "m")
            res = judge(rec, case, hier, members, mod.modules_collection, lambda j: f"m.C{j}", steps, binds, reload)
    except (Exception, mon.StepBudgetExceeded) as exc:  # noqa: BLE001
        rec.fail_exc(case, "exception while computing MRO / inherited members", exc, nontrivial=nontrivial)
        return
    if res:
        rec.fail(case, res[0], observed=res[1], expected=res[2], nontrivial=nontrivial)
    else:
        note_cycles(rec, hier)
        rec.ok(case, nontrivial=nontrivial, dig=None)


def run_multi(rec, rng, steps, maxn):  # noqa: ANN001
    """Same hierarchy spread over modules of a package; bases reached through imports."""
    n = rng.randint(3, maxn)
    hier = [rng.choice(base_choices(i)) for i in range(n)]
    run_package(rec, rng, steps, hier, members_for(rng, n))


def run_package(rec, rng, steps, hier, members, order=None):  # noqa: ANN001, C901
    """A base graph spread over the modules of one package; bases reached through imports and a re-export."""
    n = len(hier)
    nmods = rng.randint(2, 3)
    home = [rng.randrange(nmods) for _ in range(n)]
    modnames = ["a", "b", "c"][:nmods]
    members = [dict(m) for m in members]
    binds: list[list] = [[] for _ in range(n)]
    shadow = rng.random() < SHADOW_CASES
    bodies = {m: [] for m in modnames}
    imports = {m: [] for m in modnames}
    reexports: list[str] = []
    for i in order or range(n):
        bases = hier[i]
        m = modnames[home[i]]
        exprs = []
        for b in bases:
            bm = modnames[home[b]]
            if bm == m:
                exprs.append(f"C{b}")
                continue
            # a module may only import from modules that define nothing it is imported by *before* use:
            # statements run top-down in CPython, but griffe is static, so any form is fine for it; the
            # reference does not import these files (it uses type()), so import cycles are harmless here.
            form = rng.choice(["from", "from_as", "import", "import_as", "rel", "reexport"])
            if form == "from":
                imports[m].append(f"from pk.{bm} import C{b}")
                exprs.append(f"C{b}")
            elif form == "reexport":
                reexports.append(f"from pk.{bm} import C{b} as E{b}")
                imports[m].append(f"from pk import E{b}")
                exprs.append(f"E{b}")
            elif form == "from_as":
                imports[m].append(f"from pk.{bm} import C{b} as K{b}")
                exprs.append(f"K{b}")
            elif form == "import":
                imports[m].append(f"import pk.{bm}")
                exprs.append(f"pk.{bm}.C{b}")
            elif form == "import_as":
                imports[m].append(f"import pk.{bm} as mod_{bm}")
                exprs.append(f"mod_{bm}.C{b}")
            else:
                imports[m].append(f"from .{bm} import C{b} as R{b}")
                exprs.append(f"R{b}")
        if shadow and exprs:
            bind_base_roots(rng, i, exprs, members, binds, [f"C{j}" for j in range(n) if j not in bases])
        bodies[m].append(render_class(i, exprs, members[i]))
    files = {"pk/__init__.py": "".join(line + "\n" for line in dict.fromkeys(reexports))}
    for m in modnames:
        files[f"pk/{m}.py"] = "\n".join(dict.fromkeys(imports[m])) + "\n" + "".join(bodies[m])
    reload = pick_reload(rng, binds)
    case = {"kind": "multi-module", "files": files, "reload": reload}
    nontrivial = any(len(b) >= 2 for b in hier)
    try:
        with case_watchdog(60):
            _pkg, loader = load_files(files, "pk")
            res = judge(rec, case, hier, members, loader.modules_collection,
                        lambda j: f"pk.{modnames[home[j]]}.C{j}", steps, binds, reload)
    except (Exception, mon.StepBudgetExceeded) as exc:  # noqa: BLE001
        rec.fail_exc(case, "exception while computing MRO / inherited members (multi-module)", exc, nontrivial=nontrivial)
        return
    rec.count("multi_module_cases")
    if res:
        rec.fail(case, res[0], observed=res[1], expected=res[2], nontrivial=nontrivial)
    else:
        note_cycles(rec, hier)
        rec.ok(case, nontrivial=nontrivial)


def run_cyclic_sample(rec, rng, steps, maxn):  # noqa: ANN001
    """A hierarchy with 1-3 extra bases pointing 'backwards' (cycles of any length, anywhere), in one module or over
    the modules of a package."""
    n = rng.randint(2, maxn)
    graph = add_back_edges(rng, [rng.choice(base_choices(i)) for i in range(n)], rng.choice([1, 1, 2, 3]))
    members = members_for(rng, n)
    order = text_order(rng, graph)
    rec.count("graphs_with_backward_bases")
    if rng.random() < 0.4:
        run_single(rec, graph, members, steps, order, rng=rng)
    else:
        run_package(rec, rng, steps, graph, members, order)


# ------------------------------------------------------------------------------------------
# How a base is REACHED: every spelling by which one module of a (nested) package tree gets at a name of another.
def package_units(rng: random.Random, top: str, inits: set, *, rich: bool) -> list[str]:
    """The modules of one top-level package: its __init__, plain modules, and (often) a sub-package with its own
    __init__ and modules, sometimes a sub-sub-package and a second sub-package. Leaf names are unique."""
    c = top[-1]
    units = [top] + [f"{top}.{c}{k}" for k in range(rng.randint(1, 2))]
    inits.add(top)
    if rng.random() < (0.85 if rich else 0.4):
        sub = f"{top}.{c}sub"
        inits.add(sub)
        units += [sub] + [f"{sub}.{c}n{k}" for k in range(rng.randint(0, 2) if rich else rng.randint(0, 1))]
        if rng.random() < (0.5 if rich else 0.25):
            deep = f"{sub}.{c}deep"
            inits.add(deep)
            units += [deep] + [f"{deep}.{c}d{k}" for k in range(rng.randint(0, 1))]
    if rich and rng.random() < 0.4:
        oth = f"{top}.{c}oth"
        inits.add(oth)
        units += [oth] + [f"{oth}.{c}o{k}" for k in range(rng.randint(0, 1))]
    return units


def unit_file(unit: str, inits) -> str:  # noqa: ANN001
    return unit.replace(".", "/") + ("/__init__.py" if unit in inits else ".py")


def reach_forms(hi: str, src: str, name: str, inits) -> list[tuple]:  # noqa: ANN001, C901
    """Every spelling by which module ``hi`` gets at attribute ``name`` of another module ``src``.

    -> (kind, statement, expression for the attribute, name the statement binds in hi, what that name stands for)
    """
    out: list[tuple] = []
    tag = src.replace(".", "_")
    attr = ("attr", src, name)
    out.append(("from", f"from {src} import {name}", name, name, attr))
    out.append(("from_as", f"from {src} import {name} as K{name}", f"K{name}", f"K{name}", attr))
    if hi != _top(src):       # "import pk.x" inside pk/__init__.py would bind pk inside pk
        out.append(("import", f"import {src}", f"{src}.{name}", _top(src), ("module", _top(src))))
    out.append(("import_as", f"import {src} as mod_{tag}", f"mod_{tag}.{name}", f"mod_{tag}", ("module", src)))
    parts = src.split(".")
    if len(parts) > 1:
        parent, leaf = src.rsplit(".", 1)
        out.append(("from_parent", f"from {parent} import {leaf}", f"{leaf}.{name}", leaf, ("module", src)))
        out.append(("from_parent_as", f"from {parent} import {leaf} as sub_{tag}", f"sub_{tag}.{name}", f"sub_{tag}",
                    ("module", src)))
    for k in range(2, len(parts)):          # a dotted chain through a package enclosing src
        anc, rest = ".".join(parts[:k]), ".".join(parts[k:])
        if anc != hi:
            out.append(("chain", f"from {'.'.join(parts[:k - 1])} import {parts[k - 1]}", f"{parts[k - 1]}.{rest}.{name}",
                        parts[k - 1], ("module", anc)))
    pkg = hi if hi in inits else (hi.rsplit(".", 1)[0] if "." in hi else None)
    level = 1
    while pkg:
        dots, lv = "." * level, f"@{level}"
        if src == pkg:
            out.append(("rel_pkg" + lv, f"from {dots} import {name}", name, name, attr))
            out.append(("rel_pkg_as" + lv, f"from {dots} import {name} as R{name}", f"R{name}", f"R{name}", attr))
        elif src.startswith(pkg + "."):
            rest = src[len(pkg) + 1:]
            out.append(("rel_from" + lv, f"from {dots}{rest} import {name}", name, name, attr))
            out.append(("rel_from_as" + lv, f"from {dots}{rest} import {name} as R{name}", f"R{name}", f"R{name}", attr))
            rparts = rest.split(".")
            out.append(("rel_module" + lv, f"from {dots}{'.'.join(rparts[:-1])} import {rparts[-1]}",
                        f"{rparts[-1]}.{name}", rparts[-1], ("module", src)))
            out.append(("rel_module_as" + lv, f"from {dots}{'.'.join(rparts[:-1])} import {rparts[-1]} as rsub_{tag}",
                        f"rsub_{tag}.{name}", f"rsub_{tag}", ("module", src)))
            for k in range(1, len(rparts)):
                anc = pkg + "." + ".".join(rparts[:k])
                if anc != hi:
                    out.append(("rel_chain" + lv, f"from {dots}{'.'.join(rparts[:k - 1])} import {rparts[k - 1]}",
                                f"{rparts[k - 1]}.{'.'.join(rparts[k:])}.{name}", rparts[k - 1], ("module", anc)))
        level += 1
        pkg = pkg.rsplit(".", 1)[0] if "." in pkg else None
    return out


FROM_KINDS = ("from", "from_as", "rel_pkg", "rel_pkg_as", "rel_from", "rel_from_as")   # bind the attribute itself


def render_units(rng: random.Random, hier, members, units, pos, home, inits, order):  # noqa: ANN001, ANN201, C901, PLR0915
    """Write the class statements into their home modules, each base reached by a randomly chosen spelling
    (directly, or through a re-export by a unit that CPython imports in between).

    -> (text per unit, tops each class depends on, aliases of classes, the spelling used for every base,
        per class the roots of its own base expressions that its body binds); ``members`` is extended in place with
        the names the class bodies bind besides f, g, h, x
    """
    n = len(hier)
    binds: list[list] = [[] for _ in range(n)]
    shadow = rng.random() < SHADOW_CASES
    imports: dict[str, list[str]] = {u: [] for u in units}
    bodies: dict[str, list[str]] = {u: [] for u in units}
    bound: dict[str, dict[str, tuple]] = {u: {} for u in units}    # unit -> name -> what the name stands for
    chosen: dict[tuple[str, int], tuple[str, set[str], list[str]]] = {}
    direct: list[set[str]] = [set() for _ in range(n)]            # tops a class's own statement goes through
    aliases: list[dict] = []
    reach: list[dict] = []

    def pick(hi: str, src: str, name: str, b: int, through: set[str], only=None):  # noqa: ANN001, ANN202
        """Choose a spelling whose bound name is still free (or means the same thing) in hi; emit the import."""
        forms = [f for f in reach_forms(hi, src, name, inits) if only is None or f[0].split("@")[0] in only]
        relative = [f for f in forms if f[0].startswith("rel_")]
        pool = relative if relative and rng.random() < 0.6 else forms
        rng.shuffle(pool)
        for kind, stmt, expr, bname, what in [*pool, *forms]:
            if what[0] == "attr":
                what = ("class", b, src)      # the same class through another route is another binding
            if bound[hi].setdefault(bname, what) != what:
                continue
            if stmt not in imports[hi]:
                imports[hi].append(stmt)
                if what[0] == "class":
                    aliases.append({"cls": b, "path": f"{hi}.{bname}", "needs": {_top(hi)} | through})
            return kind, expr, bname
        stmt = f"from {src} import {name} as U{len(imports[hi])}_{b}"      # every natural name is taken
        imports[hi].append(stmt)
        return "from_as", stmt.rsplit(" ", 1)[1], stmt.rsplit(" ", 1)[1]

    for i in order:
        hi = home[i]
        direct[i].add(_top(hi))
        exprs = []
        for b in hier[i]:
            hb = home[b]
            if hb == hi:
                exprs.append(f"C{b}")
                continue
            if (hi, b) not in chosen:
                between = [u for u in units[pos[b] + 1:pos[i]] if u not in (hb, hi)]
                if between and rng.random() < 0.3:
                    # re-exported by a unit in between: an enclosing package's __init__, a sibling, another package
                    via = rng.choice(between)
                    k1, _e, exported = pick(via, hb, f"C{b}", b, set(), only=FROM_KINDS)
                    k2, expr, _n = pick(hi, via, exported, b, {_top(via)})
                    chosen[hi, b] = (expr, {_top(via)}, [k2, "via:" + k1])
                else:
                    kind, expr, _n = pick(hi, hb, f"C{b}", b, set())
                    chosen[hi, b] = (expr, set(), [kind])
            expr, through, kinds = chosen[hi, b]
            direct[i] |= through
            exprs.append(expr)
            reach.append({"cls": i, "base": b, "kinds": kinds, "in_init": hi in inits, "depth": hi.count(".")})
        if shadow and exprs:
            bind_base_roots(rng, i, exprs, members, binds, [f"C{j}" for j in range(n) if j not in hier[i]])
        bodies[hi].append(render_class(i, exprs, members[i]))
    # everything a class depends on: its own statement's route and those of all the classes it reaches
    needs = [sorted(set().union(direct[i], *(direct[j] for j in _reachable(hier, i)))) for i in range(n)]
    for a in aliases:
        a["needs"] = sorted(a["needs"] | set(needs[a["cls"]]))
    texts = {u: "".join(line + "\n" for line in dict.fromkeys(imports[u])) + "".join(bodies[u]) for u in units}
    return texts, needs, aliases, reach, binds


def note_reach(rec, reach) -> None:  # noqa: ANN001
    """Evidence: which spellings the bases of a completely judged case were reached by."""
    for r in reach:
        for kind in r["kinds"]:
            rec.add_to_set("base_reached_by", kind + (" in __init__" if r["in_init"] else ""))
        first = r["kinds"][0]
        if r["in_init"]:
            rec.count("bases_of_classes_declared_in_an_init_module")
            if r["depth"] >= 1:
                rec.count("bases_of_classes_declared_in_a_subpackage_init")
        if first.startswith("rel_"):
            level = int(first.split("@")[1])
            rec.count("bases_reached_by_relative_import")
            if level >= 2:
                rec.count("bases_reached_by_parent_relative_import")
                if r["in_init"] and "_as" not in first and first.split("@")[0] in ("rel_pkg", "rel_module", "rel_chain"):
                    rec.count("bases_reached_by_bare_parent_relative_name_in_init")
        if len(r["kinds"]) > 1:
            rec.count("bases_reached_through_a_reexport")


# ------------------------------------------------------------------------------------------
# One nested package (pkg / sub-package / sub-sub-package): classes declared in plain modules and in the __init__
# modules of every level, bases reached by every absolute and relative spelling; CPython imports the very files.
def gen_tree(rng: random.Random, maxn: int) -> dict:
    while True:
        n = rng.randint(2, maxn)
        hier = [rng.choice(base_choices(i)) for i in range(n)]
        members = members_for(rng, n)
        if None in cpython_reference(hier, members)[0] and rng.random() < 0.8:
            continue
        inits: set[str] = set()
        units = package_units(rng, TOPS[0], inits, rich=True)
        rng.shuffle(units)
        # half of the classes live in __init__ modules
        where = [rng.choice(sorted(inits)) if rng.random() < 0.5 else rng.choice(units) for _ in range(n)]
        pos = sorted(units.index(u) for u in where)
        home = [units[p] for p in pos]
        if any(home[b] != home[i] for i, bases in enumerate(hier) for b in bases):
            break
    texts, _needs, _aliases, reach, binds = render_units(rng, hier, members, units, pos, home, inits, range(n))
    return {"kind": "package-tree", "files": {unit_file(u, inits): texts[u] for u in units}, "roots": ["."],
            "units": units, "home": home, "hier": [list(b) for b in hier], "members": members, "reach": reach,
            "resolve_aliases": rng.random() < 0.3, "binds": binds, "reload": pick_reload(rng, binds)}


def exec_tree(rec, case: dict, steps):  # noqa: ANN001, ANN201
    hier = tuple(tuple(b) for b in case["hier"])
    members, home = case["members"], case["home"]
    mros, definers = graph_reference(hier, members)
    imported, why = import_reference(case)
    if imported is None:
        circular = why in ("ImportError", "AttributeError")
        rec.count("tree_cpython_import_circular" if circular else "tree_cpython_import_rejected")
        if all(m is not None for m in mros) and not circular:
            return (f"harness: CPython cannot import a hierarchy that type() accepts ({why})", why, None)
    else:
        rec.count("tree_cpython_import_agrees")
        if imported != (mros, definers):
            return ("harness: importing the files in CPython and type() disagree", imported, (mros, definers))
    _pkg, loader = load_files(case["files"], TOPS[0], resolve_aliases=case.get("resolve_aliases", False))

    def path_of(j: int) -> str:
        return f"{home[j]}.C{j}"

    binds = case.get("binds")
    for i in range(len(hier)):
        res = judge_one(rec, i, _walk_to(loader.modules_collection, path_of(i)), mros, definers, members, path_of, steps)
        if res:
            return res
        rec.count("tree_classes_judged")
        note_binds(rec, binds[i] if binds else None, "")
    res = judge_reloaded(rec, case.get("reload"), loader.modules_collection, len(hier), mros, definers, members, path_of,
                         steps, binds)
    if res:
        return res
    if case.get("reload"):
        rec.count("reloaded_package_trees_judged")
    if imported is not None:
        note_reach(rec, case.get("reach", ()))
    return None


def run_tree(rec, case: dict, steps) -> None:  # noqa: ANN001
    nontrivial = any(len(b) >= 2 for b in case["hier"])
    try:
        with case_watchdog(60):
            res = exec_tree(rec, case, steps)
    except (Exception, mon.StepBudgetExceeded) as exc:  # noqa: BLE001
        rec.fail_exc(case, "exception while loading a nested package / computing MRO", exc, nontrivial=nontrivial)
        return
    rec.count("tree_cases")
    if res:
        rec.fail(case, res[0], observed=res[1], expected=res[2], nontrivial=nontrivial)
    else:
        rec.ok(case, nontrivial=nontrivial, tags=("tree",))


# ------------------------------------------------------------------------------------------
# Loading sessions: the hierarchy is spread over 2-3 *top-level* packages / modules that are brought into one
# modules collection step by step, in any order, with the accessors read at random places between the steps.
TOPS = ["pka", "pkb", "pkc"]
READS = ["mro", "inherited_members", "all_members", "resolved_bases", "getitem"]


def _top(unit: str) -> str:
    return unit.split(".", 1)[0]


def gen_session(rng: random.Random, maxn: int) -> dict:  # noqa: C901, PLR0912, PLR0915
    """One literal session case: files, the classes' homes, and the list of operations."""
    while True:
        n = rng.randint(3, maxn)
        hier = [rng.choice(base_choices(i)) for i in range(n)]
        members = members_for(rng, n)
        if None in cpython_reference(hier, members)[0] and rng.random() < 0.75:
            continue                              # mostly hierarchies CPython accepts; rejected ones stay in the mix
        mode = rng.choice(["load", "load", "load", "visit"])
        tops = TOPS[:rng.randint(2, 3)]
        units, inits = [], set()
        for t in tops:
            if mode == "visit" or rng.random() < 0.3:
                units.append(t)                   # a single-file module
            else:
                units += package_units(rng, t, inits, rich=False)
        rng.shuffle(units)                        # an order in which CPython can import the units (deps point backwards)
        pos = sorted(rng.randrange(len(units)) for _ in range(n))
        home = [units[p] for p in pos]
        if any(_top(home[b]) != _top(home[i]) for i, bases in enumerate(hier) for b in bases):
            break
    if rng.random() < 0.3:                        # statically cyclic hierarchies, or merely bases defined "later"
        hier = add_back_edges(rng, hier, rng.randint(1, 2))
    backward = any(b >= i for i, bases in enumerate(hier) for b in bases)
    texts, needs, aliases, reach, binds = render_units(rng, hier, members, units, pos, home, inits,
                                                       text_order(rng, hier) if backward else range(n))
    split_roots = mode == "load" and rng.random() < 0.4
    roots = [f"s{k}" for k in range(len(tops))] if split_roots else ["."]
    files = {("" if not split_roots else f"s{tops.index(_top(u))}/") + unit_file(u, inits): texts[u] for u in units}
    # the operations
    nloaders = rng.choice([1, 1, 2, 3])
    order = list(tops)
    rng.shuffle(order)
    ops: list[dict] = []
    loaded: set[str] = set()
    for t in order:
        ops.append({"op": "load", "top": t, "loader": rng.randrange(nloaders)})
        loaded.add(t)
        present = [i for i in range(n) if _top(home[i]) in loaded]
        for _ in range(rng.choice([0, 0, 1, 2, 3])):
            if rng.random() < 0.15:
                ops.append({"op": "resolve_aliases", "loader": rng.randrange(nloaders), "implicit": rng.random() < 0.5})
                continue
            if not present:
                break
            i = rng.choice(present)
            usable = [a["path"] for a in aliases if a["cls"] == i and set(a["needs"]) <= loaded]
            ops.append({"op": "read", "cls": i, "what": rng.choice(READS),
                        "alias": rng.choice(usable) if usable and rng.random() < 0.35 else None})
    final_order = list(range(n))
    rng.shuffle(final_order)
    return {"kind": "session", "mode": mode, "files": files, "roots": roots, "units": units, "home": home,
            "hier": [list(b) for b in hier], "members": members, "needs": needs, "nloaders": nloaders, "reach": reach,
            "extensions": rng.choice(["default", "default", "none"]) if mode == "load" else "none",
            "ops": ops, "final_order": final_order, "binds": binds, "reload": pick_reload(rng, binds)}


def import_reference(case: dict):  # noqa: ANN201
    """CPython itself imports the files (every top-level importable). -> ((mros, definers), None) or (None, reason)."""
    import importlib
    import sys

    from vf.core.util import tmp_tree

    home = case["home"]
    with tmp_tree(case["files"]) as root:
        roots = [str(root) if r == "." else str(root / r) for r in case["roots"]]
        saved_path, saved_flag = list(sys.path), sys.dont_write_bytecode
        sys.dont_write_bytecode = True
        sys.path[:0] = roots
        importlib.invalidate_caches()
        try:
            for u in case["units"]:
                importlib.import_module(u)
            classes = [getattr(sys.modules[h], f"C{i}") for i, h in enumerate(home)]
            if any(c.__module__ != home[i] or c.__qualname__ != f"C{i}" for i, c in enumerate(classes)):
                return None, "class not defined where the generator says"
            index = {c: i for i, c in enumerate(classes)}
            mros = [[index[c] for c in cls.__mro__[1:-1]] for cls in classes]
            definers = []
            for cls in classes:
                d = {}
                for name in names_of(case["members"]):
                    for c in cls.__mro__[:-1]:
                        if name in vars(c):
                            d[name] = index[c]
                            break
                definers.append(d)
            return (mros, definers), None
        except (ImportError, TypeError, AttributeError) as exc:
            return None, type(exc).__name__
        finally:
            sys.path[:] = saved_path
            sys.dont_write_bytecode = saved_flag
            for name in list(sys.modules):
                if _top(name) in TOPS:
                    del sys.modules[name]
            for r in roots:
                sys.path_importer_cache.pop(r, None)
            importlib.invalidate_caches()


def _walk_to(collection, path: str):  # noqa: ANN001, ANN202
    parts = path.split(".")
    obj = collection.members[parts[0]]
    for part in parts[1:]:
        obj = obj.members[part]
    return obj


def touch(cls, what: str, alias, steps, names=NAMES):  # noqa: ANN001, ANN201, C901, PLR0911, PLR0912
    """One accessor read in the middle of a session (possibly through an alias of the class).

    Only what holds in *any* loading state is judged here: no exception other than mro()'s ValueError,
    well-formedness, own members never shadowed, and alias == target.
    """
    subject = alias if alias is not None else cls
    steps.begin(200_000)
    try:
        if what == "mro":
            try:
                order = [c.path for c in subject.mro()]
            except ValueError:
                order = None
            if order is not None and (len(set(order)) != len(order) or cls.path in order):
                return (f"{cls.path}: mro() is not a duplicate-free list of other classes", order, None)
            if alias is not None:
                try:
                    direct = [c.path for c in cls.mro()]
                except ValueError:
                    direct = None
                if direct != order:
                    return (f"{alias.path}: mro() through the alias differs from the class's", order, direct)
        elif what == "inherited_members":
            inh = subject.inherited_members
            if set(inh) & set(cls.members):
                return (f"{cls.path}: inherited member shadows a declared one", sorted(set(inh) & set(cls.members)), [])
            for name, al in inh.items():
                if not al.is_alias or not al.inherited or al.path != f"{subject.path}.{name}":
                    return (f"{subject.path}.{name}: not an inherited alias under the subclass's path", repr(al), None)
            if alias is not None and set(inh) != set(cls.inherited_members):
                return (f"{alias.path}: inherited_members through the alias differ", sorted(inh),
                        sorted(cls.inherited_members))
        elif what == "all_members":
            allm = subject.all_members
            if alias is None:
                for name, m in cls.members.items():
                    if allm.get(name) is not m:
                        return (f"{cls.path}.all_members[{name!r}] is not the declared member", repr(allm.get(name)), repr(m))
            elif set(allm) != set(cls.all_members):
                return (f"{alias.path}: all_members through the alias differ", sorted(allm), sorted(cls.all_members))
        elif what == "resolved_bases":
            rb = subject.resolved_bases
            if any(b.is_alias for b in rb) or len(rb) > len(cls.bases):
                return (f"{cls.path}: resolved_bases malformed", [b.path for b in rb], [str(b) for b in cls.bases])
            if alias is not None and [b.path for b in rb] != [b.path for b in cls.resolved_bases]:
                return (f"{alias.path}: resolved_bases through the alias differ", [b.path for b in rb],
                        [b.path for b in cls.resolved_bases])
        else:
            for name in names:
                try:
                    got = subject[name]
                except KeyError:
                    got = None
                target = got.final_target if got is not None and got.is_alias else got
                if name in cls.members and (target is not cls.members[name]
                                            or (alias is None and got is not cls.members[name])):
                    return (f"{subject.path}[{name!r}] is not the declared member", repr(got), repr(cls.members[name]))
    finally:
        steps.end()
    return None


def exec_session(rec, case: dict, steps):  # noqa: ANN001, ANN201, C901, PLR0912, PLR0915
    """Run the literal session; returns a failure tuple or None."""
    import griffe

    from vf.core.util import tmp_tree

    hier = tuple(tuple(b) for b in case["hier"])
    members, home, needs = case["members"], case["home"], [set(x) for x in case["needs"]]
    n = len(hier)
    mros, definers = graph_reference(hier, members)
    analysis = graph_analysis(hier)
    if any(b >= i for i, bases in enumerate(hier) for b in bases):
        # bases defined "later" (among them: inheritance cycles): there is no order in which CPython could import this
        imported, why = "skipped", None
        rec.count("session_cases_with_backward_bases")
    else:
        imported, why = import_reference(case)
    if imported == "skipped":
        pass
    elif imported is None:
        # importing a submodule runs the parent __init__ first, which can close an import cycle at run time
        # (ImportError / AttributeError on a partially initialised module): then type() alone is the reference
        circular = why in ("ImportError", "AttributeError")
        acceptable = all(m is not None for m in mros)
        rec.count("session_cpython_import_circular" if circular else "session_cpython_import_rejected")
        if acceptable and not circular:
            return (f"harness: CPython cannot import a hierarchy that type() accepts ({why})", why, None)
    else:
        rec.count("session_cpython_import_agrees")
        if imported != (mros, definers):
            return ("harness: importing the files in CPython and type() disagree", imported, (mros, definers))

    def path_of(j: int) -> str:
        return f"{home[j]}.C{j}"

    mc, lc = griffe.ModulesCollection(), griffe.LinesCollection()
    loaded: set[str] = set()
    asked_early: set[int] = set()       # classes some accessor was evaluated on before everything they need was there
    order = [op["top"] for op in case["ops"] if op["op"] == "load"]
    rec.add_to_set("session_load_orders", f"{case['mode']}:" + ">".join(order))
    with tmp_tree(case["files"] if case["mode"] == "load" else {}) as root:
        loaders = []
        for _ in range(case["nloaders"]):
            loaders.append(griffe.GriffeLoader(
                search_paths=[root if r == "." else root / r for r in case["roots"]], allow_inspection=False,
                extensions=None if case["extensions"] == "default" else griffe.Extensions(),
                modules_collection=mc, lines_collection=lc))
        nload = 0
        for op in case["ops"]:
            if op["op"] == "load":
                t = op["top"]
                if case["mode"] == "load":
                    loaders[op["loader"]].load(t)
                else:
                    visit_source(case["files"][f"{t}.py"], t, collection=mc, lines=lc)
                loaded.add(t)
                nload += 1
                early = [i for i in range(n) if _top(home[i]) == t and not needs[i] <= loaded]
                if early:
                    rec.count("session_dependent_loaded_before_bases")
                    if case["extensions"] == "default":
                        asked_early.update(early)
                if nload > 1 and len(loaders) > 1:
                    rec.count("session_loads_by_several_loaders")
            elif op["op"] == "resolve_aliases":
                loaders[op["loader"]].resolve_aliases(implicit=op["implicit"], external=False)
                rec.count("session_resolve_aliases_between_loads" if len(loaded) < len(set(order))
                          else "session_resolve_aliases_at_end")
            else:
                i = op["cls"]
                cls = _walk_to(mc, path_of(i))
                alias = _walk_to(mc, op["alias"]) if op["alias"] else None
                res = touch(cls, op["what"], alias, steps, names_of(members))
                if res:
                    return res
                complete = needs[i] <= loaded
                if len(loaded) < len(set(order)):
                    rec.count("session_reads_between_loads")
                if alias is not None:
                    rec.count("session_reads_through_alias")
                if complete:
                    # everything this class depends on is there: the answer must already be CPython's
                    res = judge_one(rec, i, cls, mros, definers, members, path_of, steps)
                    if res:
                        return (res[0] + f" (asked after loading {sorted(loaded)})", res[1], res[2])
                    rec.count("session_classes_judged_mid_session")
                else:
                    asked_early.add(i)
                    rec.count("session_reads_before_bases_loaded")
        for i in case["final_order"]:
            res = judge_one(rec, i, _walk_to(mc, path_of(i)), mros, definers, members, path_of, steps)
            if res:
                early = " (accessors had been evaluated on it before its bases were loaded)" if i in asked_early else ""
                return (res[0] + f" after the whole session{early}", res[1], res[2])
            rec.count("session_final_classes_judged")
            if i in asked_early:
                rec.count("session_final_classes_asked_before_bases_loaded")
            if mros[i] == CYCLE:
                rec.count("session_cyclic_classes_judged")
            note_binds(rec, case["binds"][i] if case.get("binds") else None, "")
        # a further view of the final state of the session: every top-level package of the shared collection dumped
        # to JSON and loaded back into a fresh collection
        res = judge_reloaded(rec, case.get("reload"), mc, n, mros, definers, members, path_of, steps, case.get("binds"))
        if res:
            return (res[0] + " after the whole session", res[1], res[2])
        if case.get("reload"):
            rec.count("reloaded_sessions_judged")
    note_cycles(rec, hier, analysis)
    note_reach(rec, case.get("reach", ()))
    return None


def run_session(rec, case: dict, steps) -> None:  # noqa: ANN001
    nontrivial = any(len(b) >= 2 for b in case["hier"])
    try:
        with case_watchdog(60):
            res = exec_session(rec, case, steps)
    except (Exception, mon.StepBudgetExceeded) as exc:  # noqa: BLE001
        rec.fail_exc(case, "exception during a loading session (loads / reads / final MRO)", exc, nontrivial=nontrivial)
        return
    rec.count("session_cases")
    if res:
        rec.fail(case, res[0], observed=res[1], expected=res[2], nontrivial=nontrivial)
    else:
        rec.ok(case, nontrivial=nontrivial, tags=("session",))


# Hand-written textual cycles; "cyclic" lists (by reading the text) the classes that lie on or reach a cycle.
CYCLES = [
    {"files": {"m.py": "class A(B):\n    def f(self): ...\nclass B(A):\n    def g(self): ...\n"}, "cyclic": ["m.A", "m.B"]},
    {"files": {"m.py": "class A(A):\n    x = 1\n"}, "cyclic": ["m.A"]},
    {"files": {"m.py": "class A(C): ...\nclass B(A): ...\nclass C(B):\n    def f(self): ...\n"},
     "cyclic": ["m.A", "m.B", "m.C"]},
    {"files": {"m.py": "class O: ...\nclass A(O, B): ...\nclass B(O, A): ...\n"}, "cyclic": ["m.A", "m.B"]},
    {"files": {"pk/__init__.py": "", "pk/a.py": "from pk.b import B\nclass A(B):\n    def f(self): ...\n",
               "pk/b.py": "from pk.a import A\nclass B(A):\n    def g(self): ...\n"}, "cyclic": ["pk.a.A", "pk.b.B"]},
    {"files": {"pk/__init__.py": "", "pk/a.py": "from .b import B as X\nclass A(X): ...\n",
               "pk/b.py": "from .c import C\nclass B(C): ...\n", "pk/c.py": "import pk.a\nclass C(pk.a.A): ...\n"},
     "cyclic": ["pk.a.A", "pk.b.B", "pk.c.C"]},
    {"files": {"pk/__init__.py": "from pk.a import A\nclass Top(A): ...\n", "pk/a.py": "from pk import Top\nclass A(Top): ...\n"},
     "cyclic": ["pk.Top", "pk.a.A"]},
    # a class whose base is an alias cycle (never reaches a class): base is simply unresolvable
    {"files": {"pk/__init__.py": "", "pk/a.py": "from pk.b import Z\nclass A(Z):\n    def f(self): ...\n",
               "pk/b.py": "from pk.a import Z\n"}, "cyclic": []},
    # classes that only *reach* a cycle: through one hop, two hops, the first / the last of several bases
    {"files": {"m.py": "class A(B):\n    def f(self): ...\nclass B(A): ...\nclass C(A):\n    def g(self): ...\n"
                       "class E:\n    def f(self): ...\nclass D(C, E): ...\nclass F(E, D): ...\nclass G(E): ...\n"},
     "cyclic": ["m.A", "m.B", "m.C", "m.D", "m.F"]},
    {"files": {"pk/__init__.py": "from pk.a import Loop as L\nclass Far(L):\n    x = 1\n",
               "pk/a.py": "class Loop(Loop):\n    def f(self): ...\n",
               "pk/b.py": "import pk\nclass Farther(pk.Far):\n    def g(self): ...\nclass Free:\n    x = 2\n"},
     "cyclic": ["pk.Far", "pk.a.Loop", "pk.b.Farther"]},
]


def run_cycles(rec, steps):  # noqa: ANN001, C901
    for number, entry in enumerate(CYCLES):
        files = entry["files"]
        case = {"kind": "textual-cycle", **entry}
        reload = entry.get("reload", RELOADS[number % len(RELOADS)])
        top = "pk" if any(k.startswith("pk/") for k in files) else "m"

        def check(pkg, view: str):  # noqa: ANN001, ANN202
            bad = None
            for cls in [o for o in _walk(pkg) if o.is_class]:
                steps.begin(100_000)
                try:
                    try:
                        order = cls.mro()
                        raised = False
                    except ValueError:
                        raised = True
                    inh = cls.inherited_members
                    allm = cls.all_members
                finally:
                    n, depth = steps.end()
                    rec.maximum("max_steps_per_class", n)
                if "cyclic" in entry:
                    cyclic = cls.path in entry["cyclic"]
                    acyclic = not cyclic
                else:   # replay files written before the expectation was part of the input
                    cyclic = _in_textual_cycle(cls)
                    acyclic = not cyclic and not any(_in_textual_cycle(b) for b in _bases_closure(cls))
                if cyclic:
                    rec.count("cycles_reported" if raised else "cycles_missed")
                    if not raised:
                        bad = (f"{cls.path}: cyclic hierarchy but mro() returned{view}", [c.path for c in order], "ValueError")
                    elif inh:
                        bad = (f"{cls.path}: cyclic hierarchy but inherited members{view}", sorted(inh), {})
                    elif set(allm) != set(cls.members):
                        bad = (f"{cls.path}: cyclic hierarchy: all_members differ from members{view}", sorted(allm),
                               sorted(cls.members))
                elif raised and acyclic:
                    bad = (f"{cls.path}: ValueError but no cycle{view}", "ValueError", "an MRO")
            return bad

        try:
            with case_watchdog(60):
                pkg, loader = load_files(files, top)
                bad = check(pkg, "")
                if not bad and reload:
                    again = reload_collection(loader.modules_collection, reload)
                    bad = check(again.members[top], f" [tree reloaded from as_json(full={bool(reload.get('full'))}) "
                                                    f"through {reload.get('via', 'from_json')}]")
                    rec.count("reloaded_textual_cycles_judged")
        except (Exception, mon.StepBudgetExceeded) as exc:  # noqa: BLE001
            rec.fail_exc(case, "exception / step budget on cyclic hierarchy", exc)
            continue
        if bad:
            rec.fail(case, bad[0], observed=bad[1], expected=bad[2])
        else:
            rec.ok(case, nontrivial=True, tags=("cycle",))


def _walk(obj):  # noqa: ANN001
    for m in obj.members.values():
        if m.is_alias:
            continue
        yield m
        if m.is_module or m.is_class:
            yield from _walk(m)


def _bases_closure(cls):  # noqa: ANN001
    seen, todo = {}, [cls]
    while todo:
        c = todo.pop()
        for b in c.resolved_bases:
            if b.is_class and b.path not in seen:
                seen[b.path] = b
                todo.append(b)
    return list(seen.values())


def _in_textual_cycle(cls) -> bool:  # noqa: ANN001
    return any(b.path == cls.path for b in _bases_closure(cls))


def run_shard(spec: dict, rec) -> None:  # noqa: ANN001
    install_contract(rec)
    steps = mon.Steps()
    rng = random.Random(spec["seed"])
    if spec["kind"] == "exhaustive":
        idx = 0
        for n in range(1, spec["maxn"] + 1):
            for hier in enumerate_hierarchies(n):
                idx += 1
                if idx % spec["parts"] != spec["part"]:
                    continue
                mrng = random.Random(idx * 7919 + spec["seed"] // 100003)
                run_single(rec, hier, members_for(mrng, n), steps, rng=mrng)
    elif spec["kind"] == "multi":
        for _ in range(spec["count"]):
            run_multi(rec, rng, steps, spec["maxn"])
    elif spec["kind"] == "cycles":
        run_cycles(rec, steps)
    elif spec["kind"] == "cyclic_exhaustive":
        idx = 0
        for n in range(1, spec["maxn"] + 1):
            for graph in enumerate_graphs(n):
                idx += 1
                if idx % spec["parts"] != spec["part"]:
                    continue
                mrng = random.Random(idx * 7919 + spec["seed"] // 100003)
                run_single(rec, graph, members_for(mrng, n), steps, text_order(mrng, graph), rng=mrng)
                rec.count("base_graphs_enumerated")
    elif spec["kind"] == "cyclic_sampled":
        for _ in range(spec["count"]):
            run_cyclic_sample(rec, rng, steps, spec["maxn"])
    elif spec["kind"] == "trees":
        for _ in range(spec["count"]):
            run_tree(rec, gen_tree(rng, spec["maxn"]), steps)
    elif spec["kind"] == "sessions":
        for _ in range(spec["count"]):
            run_session(rec, gen_session(rng, spec["maxn"]), steps)
    elif spec["kind"] == "sampled6":
        for _ in range(spec["count"]):
            hier = tuple(rng.choice(base_choices(i)) for i in range(6))
            run_single(rec, hier, members_for(rng, 6), steps, rng=rng)
            rec.count("sampled_six_class_hierarchies")


def run_replay(inp: dict, rec) -> None:  # noqa: ANN001
    """Replay: re-derive the hierarchy from the literal sources by executing them in CPython."""
    install_contract(rec)
    steps = mon.Steps()
    if inp.get("kind") == "textual-cycle":
        CYCLES[:] = [{k: v for k, v in inp.items() if k in ("files", "cyclic", "reload")}]
        run_cycles(rec, steps)
        return
    if inp.get("kind") == "session":
        run_session(rec, inp, steps)
        return
    if inp.get("kind") == "package-tree":
        run_tree(rec, inp, steps)
        return
    files = inp.get("files") or {"m.py": inp["source"]}
    # generic oracle from text: parse class statements, rebuild with type()
    import ast

    top = "pk" if any(k.startswith("pk/") for k in files) else "m"
    order: list[tuple[str, str, list[str], dict[str, str]]] = []
    for rel, src in files.items():
        modpath = rel[:-3].replace("/", ".").removesuffix(".__init__")
        for node in ast.parse(src).body:
            if isinstance(node, ast.ClassDef):
                mem = {}
                for st in node.body:
                    if isinstance(st, ast.FunctionDef):
                        mem[st.name] = "func"
                    elif isinstance(st, ast.ClassDef):
                        mem[st.name] = "class"
                    elif isinstance(st, ast.Assign):
                        mem[st.targets[0].id] = "attr"
                bases = [ast.unparse(b) for b in node.bases]
                order.append((node.name, modpath, bases, mem))
    order.sort(key=lambda t: int(t[0][1:]))
    idx = {name: i for i, (name, *_rest) in enumerate(order)}
    hier = tuple(tuple(idx["C" + "".join(ch for ch in b.split(".")[-1] if ch.isdigit())] for b in bases)
                 for _n, _m, bases, _mm in order)
    members = [mm for *_x, mm in order]
    binds = [[[b.split(".")[0], mm[b.split(".")[0]], "." in b] for b in dict.fromkeys(bases) if b.split(".")[0] in mm]
             for _n, _m, bases, mm in order]
    case = dict(inp)
    try:
        _pkg, loader = load_files(files, top)
        res = judge(rec, case, hier, members, loader.modules_collection, lambda j: f"{order[j][1]}.{order[j][0]}", steps,
                    binds, inp.get("reload"))
    except (Exception, mon.StepBudgetExceeded) as exc:  # noqa: BLE001
        rec.fail_exc(case, "exception while computing MRO / inherited members", exc)
        return
    if res:
        rec.fail(case, res[0], observed=res[1], expected=res[2])
    else:
        rec.ok(case, nontrivial=True)
