"""C18 — Synthesised dataclass constructors equal the ones CPython generates.

Workload: generated dataclass hierarchies (2..5 classes, depth <= 3, <= 2 bases; in one module, in two modules of a
package (the bases' module walked first or last), or spread over 2..3 top-level modules / packages that are loaded one
after the other - a *loading session*: dependencies first, by one GriffeLoader or by one loader per step sharing the
collections, the bases reached through every import form; occasionally a nested dataclass): every field form (plain, default, field() with every option, KW_ONLY marker,
ClassVar, InitVar, properties, unannotated attributes, methods), field names bound more than once in a class body (second
declaration, bare annotation, plain / chained / unpacking / augmented assignment, def, property, nested class, del), every decorator spelling (@dataclass, @dataclass(),
@dataclasses.dataclass, aliased imports), every combination of the init / kw_only decorator arguments, frozen,
hand-written __init__, undecorated subclasses, non-dataclass classes.
Oracle: CPython executes the same source in this child (statement by statement, so a class CPython rejects is counted
and skipped without losing the others); ``inspect.signature`` of the ``__init__`` CPython generated / kept / inherits is
compared with ``cls.members['__init__'].parameters`` and ``cls.parameters`` after a *static load through GriffeLoader*
(the built-in dataclasses extension runs on ``on_package_loaded``; in a session the view is taken after the last step).
"""
from __future__ import annotations

import ast
import dataclasses
import importlib
import inspect
import itertools
import random
import re
import sys

from vf.core.util import case_watchdog, tmp_tree
from vf.gen import c18_dataclasses as gen

PROP = "C18"
LEVEL = "exploration"
ANCHORS = ["extensions/dataclasses.py"]
RULE = ("seeded hierarchies of 2..5 classes C0..C4 (each with <=2 bases among earlier classes, depth <=3; 20% spread over two "
        "modules of a package - the bases' module sorting first or last -, 26% spread over 2..3 top-level units {module, package, "
        "package with a submodule, package re-exporting its submodule} loaded one after the other in a random dependency-respecting "
        "order by one loader or by one loader per step sharing the collections, bases reached through {from u import C, import u, "
        "import u as x, from u.core import C, import u.core [as x], from u import core as x}; 12% of the one-module cases with an "
        "extra nested dataclass): per class a mode (decorated dataclass / decorated with a "
        "hand-written __init__ / undecorated), a decorator spelling among {@dataclass, @dataclass(), @dataclasses.dataclass, "
        "@dc, @d.dataclass} with random init/kw_only/frozen arguments, 0..5 fields drawn from {x: T, x: T = v, field(), "
        "field(default=), field(default_factory=), field(init=False), field(kw_only=True|False), field(repr=..), InitVar, "
        "ClassVar, '_: KW_ONLY'}; every module decides on its own (35%) to postpone the evaluation of annotations (from __future__ import "
        "annotations); annotations are spelled plainly, through module / name aliases (typing. t. dataclasses. d. CV IV KW), with a quoted "
        "argument, wholly quoted (ClassVar/InitVar/KW_ONLY 30%, ordinary types 20%; 12% of those with extra blanks or a trailing '| None'), "
        "as Final / Optional / Annotated types, or as ordinary types that mention or nest the special forms (12%) "
        "(35%: one field overrides an inherited one; 30% of the decorated classes bind the name of one of "
        "their fields a second - 4%: third - time, anywhere after or before the declaration and on either side of the KW_ONLY marker: "
        "a second declaration of any field form, a bare annotation, plain / chained / unpacking / augmented assignment, an "
        "assigned field() call, def, property, nested class, del), plus properties, unannotated attributes, methods, "
        "__post_init__; additionally every (init, kw_only) in {absent,True,False}^2 is forced on the last class of a hierarchy "
        "in turn. distinct = digest of the sources; non-trivial = some accepted dataclass inherits from a dataclass and a "
        "keyword-only marker (KW_ONLY / kw_only=) occurs in the hierarchy")
LEVEL_TEXT = ("For every generated hierarchy the classes CPython accepts are compared one by one: parameter names, order, kinds and "
              "required-ness of the __init__ CPython generated (or kept, when hand-written: also its line span) against the "
              "__init__ member Griffe presents after a static load and against Class.parameters; classes for which CPython "
              "creates no __init__ must not get a member when they are not dataclasses; dataclasses.is_dataclass decides the "
              "'dataclass' label. Discrepancies are first passed through two mechanism classifiers (transformations of CPython's "
              "signature that reproduce a listed defect exactly); anything else is a violation.")
LEVEL_NOTE = ("trusted: CPython 3.12 dataclasses + inspect.signature; default *values* are not compared (C02/C03 cover expressions), "
              "only required-ness; annotations only use names the module really imports (a string annotation naming an unknown module or a "
              "look-alike ClassVar is not generated); conditional re-binding (if / try in a class body) is not generated; for dataclasses "
              "without an own __init__ (init=False, undecorated subclasses) only the effective signature (Class.parameters vs the "
              "inherited __init__) is judged, not the presence of a member")
TECHNIQUE = "runtime monitoring: differential oracle against CPython's dataclasses/inspect on the same source, after a real GriffeLoader load"
REQUIRED_COUNTERS = ["classes_accepted_by_cpython", "generated_inits_compared", "class_parameters_compared", "handwritten_inits_checked",
                     "non_dataclasses_checked_no_init", "inherited_dataclass_labels_checked", "classes_rejected_by_cpython",
                     "init_kw_only_combinations_seen", "kw_only_marker_classes", "initvar_fields_seen", "classvar_fields_seen",
                     "field_init_false_seen", "aliased_decorator_seen", "loading_sessions_judged", "cross_package_generated_inits_compared",
                     "cross_package_inherited_initvar_inits_compared", "cross_package_inherited_inits_compared",
                     "generated_inits_with_base_in_later_module_compared", "classes_with_rebound_field_compared",
                     "fields_rebound_across_kw_only_marker_compared", "generated_inits_inheriting_rebound_field_compared",
                     "classes_with_rebound_field_in_sessions_compared", "classes_under_postponed_evaluation_compared",
                     "quoted_special_form_annotations_postponed_compared", "quoted_special_form_annotations_evaluated_compared",
                     "special_forms_through_module_or_name_alias_compared", "ordinary_annotations_mentioning_special_forms_compared",
                     "generated_inits_mixing_evaluation_modes_compared"]
EXHAUSTIVE = {"quick": False, "thorough": False}
ASSUMPTIONS = ["CPython 3.12's dataclasses module is the reference; classes it rejects (TypeError/ValueError at class creation) are outside the domain",
               "hierarchies are sampled (seeded); only the 9 init/kw_only decorator combinations are enumerated exhaustively (on the last class)",
               "loading sessions load every package after the packages it imports from (a subclass loaded before the package of its base "
               "cannot know the base: outside the statement); the presentation is judged once, after the last step of the session",
               "when CPython rejects a class of a multi-module tree, the remaining classes are created statement by statement in module objects "
               "registered under the generated names (same classes as a real import whenever the import succeeds)"]

F_BARE = "C18-bare-field-call-reported-optional"
F_KWFALSE = "C18-field-kw-only-false-ignored"
F_OVERRIDE = "C18-override-removing-field-keeps-inherited-parameter"
F_INITFALSE = "C18-decorator-init-false-misread"
F_DIAMOND = "C18-bases-contribute-own-fields-only"
F_BARECV = "C18-unsubscripted-classvar-is-a-parameter"
F_INHDEF = "C18-redeclared-field-inherits-class-attribute-default"
F_LABEL = "C18-subclass-with-own-init-not-labelled"
F_RBPOS = "C18-rebound-field-positioned-at-first-binding"
F_RBBARE = "C18-bare-reannotation-forgets-bound-value"
F_RBDEF = "C18-field-rebound-by-def-or-class-dropped"
F_DEL = "C18-del-of-field-default-ignored"
F_RBLABELS = "C18-redeclared-field-keeps-merged-labels"
F_UNPACK = "C18-default-bound-by-unpacking-assignment-ignored"
F_STRPREFIX = "C18-string-annotation-special-form-by-prefix"
ALL_FINDINGS = [F_BARE, F_KWFALSE, F_OVERRIDE, F_INITFALSE, F_DIAMOND, F_BARECV, F_INHDEF, F_LABEL, F_RBPOS, F_RBBARE, F_RBDEF, F_DEL, F_RBLABELS, F_UNPACK, F_STRPREFIX]

KIND = {inspect.Parameter.POSITIONAL_ONLY: "positional-only", inspect.Parameter.POSITIONAL_OR_KEYWORD: "positional or keyword",
        inspect.Parameter.VAR_POSITIONAL: "variadic positional", inspect.Parameter.KEYWORD_ONLY: "keyword-only",
        inspect.Parameter.VAR_KEYWORD: "variadic keyword"}
FIELD_CALLEES = {"field", "dataclasses.field", "fld", "d.field"}
DATACLASS_CALLEES = {"dataclass", "dataclasses.dataclass", "dc", "d.dataclass"}
_SERIAL = itertools.count()


# ------------------------------------------------------------------------------------------------
# facts read from the text (independent of both implementations; used by the classifiers and the span check)
def _field_kwargs(value) -> dict | None:  # noqa: ANN001
    if isinstance(value, ast.Call) and ast.unparse(value.func) in FIELD_CALLEES:
        return {k.arg: ast.unparse(k.value) for k in value.keywords}
    return None


SPECIAL_FORMS = {"typing.ClassVar": "ClassVar", "dataclasses.InitVar": "InitVar", "dataclasses.KW_ONLY": "KW_ONLY"}
_MODULE_IDENTIFIER = re.compile(r"^(?:\s*(\w+)\s*\.)?\s*(\w+)")     # the documented heuristic of dataclasses for annotations that are strings


def module_context(tree: ast.Module) -> dict:
    """What decides the meaning of an annotation in a module: postponed evaluation, and what the module-level names are bound to."""
    future = any(isinstance(n, ast.ImportFrom) and n.module == "__future__" and any(a.name == "annotations" for a in n.names) for n in tree.body)
    imports: dict[str, str] = {}
    for n in tree.body:
        if isinstance(n, ast.Import):
            for a in n.names:
                if a.asname:
                    imports[a.asname] = a.name
                else:
                    imports[a.name.split(".")[0]] = a.name.split(".")[0]
        elif isinstance(n, ast.ImportFrom) and not n.level and n.module:
            for a in n.names:
                imports[a.asname or a.name] = f"{n.module}.{a.name}"
    return {"future": future, "imports": imports}


def _resolved(expr: ast.expr, imports: dict[str, str]) -> str | None:
    """`t.ClassVar` -> 'typing.ClassVar' (names and attribute chains only)."""
    parts = []
    while isinstance(expr, ast.Attribute):
        parts.append(expr.attr)
        expr = expr.value
    if not isinstance(expr, ast.Name) or expr.id not in imports:
        return None
    return ".".join([imports[expr.id], *reversed(parts)])


def _structural_form(expr: ast.expr, imports: dict[str, str]) -> tuple[str | None, bool]:
    """(special form, subscripted) of an annotation *expression*: what the evaluated object is for dataclasses."""
    if isinstance(expr, ast.Subscript):
        form = SPECIAL_FORMS.get(_resolved(expr.value, imports) or "")
        return (form if form in ("ClassVar", "InitVar") else None), True
    return SPECIAL_FORMS.get(_resolved(expr, imports) or ""), False


def annotation_reading(node: ast.expr, ctx: dict) -> dict:
    """How an annotation is read.

    form: by CPython's dataclasses - the evaluated object when the annotation is evaluated; the leading `[module.]name` of the
    *stored string* (the text of the annotation under postponed evaluation, the literal's value otherwise) looked up in the module.
    parsed_form / subscripted: by a reader that parses the expression (a wholly quoted annotation: its content, unless the
    evaluation is postponed - then it stays a string); quoted: the annotation is one string literal."""
    imports = ctx["imports"]
    literal = isinstance(node, ast.Constant) and isinstance(node.value, str)
    stored = ast.unparse(node) if ctx["future"] else node.value if literal else None
    if stored is None:
        form = _structural_form(node, imports)[0]
    else:
        form = None
        m = _MODULE_IDENTIFIER.match(stored)
        if m:
            prefix, name = m.groups()
            if prefix is None:
                form = SPECIAL_FORMS.get(imports.get(name, ""))
            elif imports.get(prefix) in ("typing", "dataclasses"):
                form = SPECIAL_FORMS.get(f"{imports[prefix]}.{name}")
    effective = node
    if literal:
        effective = None
        if not ctx["future"]:
            try:
                effective = ast.parse(node.value, mode="eval").body
            except SyntaxError:
                effective = None
    parsed_form, subscripted = _structural_form(effective, imports) if effective is not None else (None, False)
    inner_form = None
    if literal:
        try:
            inner_form = _structural_form(ast.parse(node.value.strip(), mode="eval").body, imports)[0]
        except SyntaxError:
            inner_form = None
    dotted = effective.value if isinstance(effective, ast.Subscript) else effective
    spelled = ast.unparse(dotted) if isinstance(dotted, (ast.Name, ast.Attribute)) else None
    return {"form": form, "parsed_form": parsed_form, "subscripted": subscripted, "quoted": literal, "quoted_form": inner_form,
            "aliased": (parsed_form or form) is not None and spelled is not None and spelled.split(".")[0] in ("t", "d", "CV", "IV", "KW")}


PROPERTY_DECORATORS = ("property", "cached_property", "functools.cached_property")


def bindings_of(node: ast.ClassDef, ctx: dict) -> list[dict]:
    """Every statement of the class body that binds / unbinds a plain name, in order:
    {kind: ann | assign | aug | def | property | class | del, name, ann, valued, field_kwargs, unpacked (target of `a, b = ...`)};
    annotations also carry their reading (see annotation_reading)."""
    out: list[dict] = []

    def add(kind: str, name: str, ann: str | None = None, valued: bool = False, fk: dict | None = None, unpacked: bool = False) -> None:  # noqa: FBT001, FBT002, PLR0913
        out.append({"kind": kind, "name": name, "ann": ann, "valued": valued, "field_kwargs": fk, "unpacked": unpacked})

    for st in node.body:
        if isinstance(st, ast.AnnAssign) and isinstance(st.target, ast.Name):
            add("ann", st.target.id, ast.unparse(st.annotation), st.value is not None, _field_kwargs(st.value))
            out[-1].update(annotation_reading(st.annotation, ctx))
        elif isinstance(st, ast.Assign):
            for tgt in st.targets:
                if isinstance(tgt, ast.Name):
                    add("assign", tgt.id, None, True, _field_kwargs(st.value))
                elif isinstance(tgt, (ast.Tuple, ast.List)):
                    for el in tgt.elts:
                        if isinstance(el, ast.Name):
                            add("assign", el.id, None, True, None, unpacked=True)
        elif isinstance(st, ast.AugAssign) and isinstance(st.target, ast.Name):
            add("aug", st.target.id)
        elif isinstance(st, (ast.FunctionDef, ast.AsyncFunctionDef)):
            decs = [ast.unparse(d) for d in st.decorator_list]
            prop = any(d in PROPERTY_DECORATORS or d.endswith((".setter", ".getter", ".deleter")) for d in decs)
            add("property" if prop else "def", st.name, ast.unparse(st.returns) if prop and st.returns else None)
        elif isinstance(st, ast.ClassDef):
            add("class", st.name)
        elif isinstance(st, ast.Delete):
            for tgt in st.targets:
                if isinstance(tgt, ast.Name):
                    add("del", tgt.id)
    return out


def rebound_fields(fc: dict) -> dict[str, list[dict]]:
    """annotated names of a class body that are bound (or unbound) by more than one statement -> their bindings, with positions."""
    per: dict[str, list[dict]] = {}
    for idx, b in enumerate(fc["bindings"]):
        per.setdefault(b["name"], []).append({**b, "idx": idx})
    return {n: bs for n, bs in per.items() if len(bs) > 1 and any(b["kind"] == "ann" for b in bs)}


def binding_form(b: dict) -> str:
    if b["kind"] != "ann":
        return ("unpack" if b["unpacked"] else b["kind"]) + ("=field" if b["field_kwargs"] is not None else "")
    return "ann" + (":" + b["form"] if b["form"] else "") + (
        "=field" if b["field_kwargs"] is not None else "=" if b["valued"] else "")


def analyse(files: dict[str, str]) -> dict[str, dict]:
    """class name -> {decorated, dec_kwargs, postponed, bindings, fields: the annotated bindings + after_marker, init_span}."""
    out: dict[str, dict] = {}

    def visit(body, rel, ctx):  # noqa: ANN001, ANN202
        for node in body:
            if not isinstance(node, ast.ClassDef):
                continue
            info = {"file": rel, "decorated": False, "dec_kwargs": {}, "dec_text": None, "fields": [], "init_span": None, "lineno": node.lineno,
                    "bindings": bindings_of(node, ctx), "postponed": ctx["future"]}
            for dec in node.decorator_list:
                callee = dec.func if isinstance(dec, ast.Call) else dec
                if ast.unparse(callee) in DATACLASS_CALLEES:
                    info["decorated"] = True
                    info["dec_text"] = ast.unparse(dec)
                    if isinstance(dec, ast.Call):
                        info["dec_kwargs"] = {k.arg: ast.unparse(k.value) for k in dec.keywords}
            marker = False
            for b in info["bindings"]:
                if b["kind"] == "ann":
                    marker = marker or b["form"] == "KW_ONLY"
                    info["fields"].append({**b, "after_marker": marker})
            for st in node.body:
                if isinstance(st, ast.FunctionDef) and st.name == "__init__":
                    info["init_span"] = [st.lineno, st.end_lineno]
            out[node.name] = info
            visit(node.body, rel, ctx)

    for rel, src in files.items():
        tree = ast.parse(src)
        visit(tree.body, rel, module_context(tree))
    return out


# ------------------------------------------------------------------------------------------------
# CPython's view
def signature_of(func) -> list[tuple[str, str, bool]]:  # noqa: ANN001
    out = []
    for p in inspect.signature(func).parameters.values():
        variadic = p.kind in (p.VAR_POSITIONAL, p.VAR_KEYWORD)
        out.append((p.name, KIND[p.kind], p.default is p.empty and not variadic))
    return out


def describe_class(cls) -> dict:  # noqa: ANN001
    eff = cls.__init__
    info = {"accepted": True, "is_dc": dataclasses.is_dataclass(cls), "own_init": "__init__" in vars(cls),
            "decorated_here": "__dataclass_params__" in vars(cls),
            "sig": None if eff is object.__init__ else signature_of(eff),
            "own_sig": signature_of(vars(cls)["__init__"]) if "__init__" in vars(cls) else None,
            "mro": [c.__name__ for c in cls.__mro__[:-1]],
            "own_annotations": {c.__name__: list(vars(c).get("__annotations__", {})) for c in cls.__mro__[:-1]},
            "decorated": {c.__name__: "__dataclass_params__" in vars(c) for c in cls.__mro__[:-1]},
            "class_attrs": sorted(k for k in vars(cls) if not k.startswith("__"))}
    return info


def future_flags(tree: ast.Module) -> int:
    """compile() flags that make one statement of a module behave as it does inside the module (postponed annotations)."""
    import __future__

    return __future__.annotations.compiler_flag if module_context(tree)["future"] else 0


def cpython_view(files: dict[str, str], package: str, rec) -> dict[str, dict] | None:  # noqa: ANN001
    """class name -> description; rejected classes -> {'accepted': False}.  None: the package cannot be imported at all."""
    out: dict[str, dict] = {}
    if package == "m":
        import types

        # dataclasses looks the defining module up in sys.modules (KW_ONLY / string-annotation handling): register a real one
        mod = types.ModuleType(f"vf_c18_{next(_SERIAL)}")
        sys.modules[mod.__name__] = mod
        ns = mod.__dict__
        try:
            tree = ast.parse(files["m.py"])
            flags = future_flags(tree)
            for node in tree.body:
                # (dont_inherit: this very module postpones the evaluation of its annotations; the generated one decides for itself)
                code = compile(ast.Module([node], []), "<c18>", "exec", flags=flags, dont_inherit=True)
                try:
                    exec(code, ns)  # noqa: S102
                except Exception as exc:  # noqa: BLE001
                    if isinstance(node, ast.ClassDef):
                        out[node.name] = {"accepted": False, "why": f"{type(exc).__name__}: {exc}"[:160]}
                        continue
                    raise
                if isinstance(node, ast.ClassDef):
                    cls = ns[node.name]
                    out[node.name] = describe_class(cls)
                    for name, inner in vars(cls).items():
                        if isinstance(inner, type) and name.startswith("C"):
                            out[name] = describe_class(inner)
        finally:
            del sys.modules[mod.__name__]
        return out
    if package == "multi":
        return cpython_view_units(files, rec)
    with tmp_tree(files) as root:
        unique = f"pk{next(_SERIAL)}x"
        (root / "pk").rename(root / unique)
        for path in (root / unique).glob("*.py"):
            path.write_text(path.read_text().replace("from pk.", f"from {unique}."))
        sys.path.insert(0, str(root))
        try:
            mods = [importlib.import_module(f"{unique}.{m}") for m in ("m0", "m1")]
        except Exception:  # noqa: BLE001  (some class is rejected at creation: judge the others, statement by statement)
            mods = None
        finally:
            sys.path.remove(str(root))
            for k in [k for k in sys.modules if k == unique or k.startswith(unique + ".")]:
                del sys.modules[k]
        if mods is None:
            return cpython_view_statementwise(files, rec)
        for mod in mods:
            for name, obj in vars(mod).items():
                if isinstance(obj, type) and obj.__module__ == mod.__name__:
                    out[name] = describe_class(obj)
    return out


def module_names(files: dict[str, str]) -> list[str]:
    names = []
    for rel in files:
        parts = rel[:-3].split("/")
        if parts[-1] == "__init__":
            parts.pop()
        names.append(".".join(parts))
    return sorted(names)


def cpython_view_units(files: dict[str, str], rec) -> dict[str, dict] | None:  # noqa: ANN001
    """Several top-level modules / packages on one search path: import every module, describe every class where it is defined."""
    out: dict[str, dict] = {}
    names = module_names(files)
    tops = {n.split(".")[0] for n in names}
    clash = sorted(k for k in sys.modules if k.split(".")[0] in tops)
    if clash:
        raise RuntimeError(f"generated unit names are already imported: {clash}")
    with tmp_tree(files) as root:
        sys.path.insert(0, str(root))
        importlib.invalidate_caches()
        try:
            mods = [importlib.import_module(n) for n in names]
        except Exception:  # noqa: BLE001  (some class is rejected at creation: judge the others, statement by statement)
            mods = None
        finally:
            sys.path.remove(str(root))
            for k in [k for k in sys.modules if k.split(".")[0] in tops]:
                del sys.modules[k]
        if mods is None:
            return cpython_view_statementwise(files, rec)
        for mod in mods:
            for name, obj in vars(mod).items():
                if isinstance(obj, type) and obj.__module__ == mod.__name__:
                    out[name] = describe_class(obj)
    return out


def _imported_modules(node: ast.stmt, modname: str, is_pkg: bool, known: set[str]) -> set[str]:
    """The generated modules an import statement of module ``modname`` needs to be executed first."""
    found = set()
    if isinstance(node, ast.Import):
        for alias in node.names:
            parts = alias.name.split(".")
            found |= {".".join(parts[:k]) for k in range(1, len(parts) + 1)}
    elif isinstance(node, ast.ImportFrom):
        base = node.module or ""
        if node.level:
            pkg = modname.split(".") if is_pkg else modname.split(".")[:-1]
            pkg = pkg[:len(pkg) - (node.level - 1)]
            base = ".".join([*pkg, base] if base else pkg)
        parts = base.split(".")
        found |= {".".join(parts[:k]) for k in range(1, len(parts) + 1)}
        found |= {f"{base}.{alias.name}" for alias in node.names}
    return (found & known) - {modname}


def cpython_view_statementwise(files: dict[str, str], rec) -> dict[str, dict]:  # noqa: ANN001, C901
    """The same classes, created by CPython one statement at a time in module objects registered under the generated names
    (imports between them are served from sys.modules, dependencies executed first), so that a class CPython rejects is counted
    and left out - with everything that needs it - without losing the rest of the tree."""
    import types

    out: dict[str, dict] = {}
    rel_of = {}
    for rel in files:
        parts = rel[:-3].split("/")
        is_pkg = parts[-1] == "__init__"
        rel_of[".".join(parts[:-1] if is_pkg else parts)] = (rel, is_pkg)
    known = set(rel_of)
    clash = sorted(k for k in sys.modules if k in known)
    if clash:
        raise RuntimeError(f"generated module names are already imported: {clash}")
    trees = {name: ast.parse(files[rel]) for name, (rel, _p) in rel_of.items()}
    needs = {name: set().union(*[_imported_modules(st, name, rel_of[name][1], known) for st in trees[name].body]) for name in rel_of}
    order: list[str] = []

    def place(name: str, path: tuple = ()) -> None:
        if name in order or name in path:
            return
        for dep in sorted(needs[name]):
            place(dep, (*path, name))
        order.append(name)

    for name in sorted(rel_of):
        place(name)
    rec.count("trees_with_rejected_classes_judged_statementwise")
    mods = {}
    try:
        for name, (rel, is_pkg) in rel_of.items():
            mod = types.ModuleType(name)
            mod.__file__ = rel
            mod.__package__ = name if is_pkg else name.rpartition(".")[0]
            if is_pkg:
                mod.__path__ = []
            mods[name] = sys.modules[name] = mod
        for name, mod in mods.items():
            parent, _dot, short = name.rpartition(".")
            if parent:
                setattr(mods[parent], short, mod)
        for name in order:
            ns = mods[name].__dict__
            flags = future_flags(trees[name])
            body = []
            for node in trees[name].body:      # `from x import A, B` -> one statement per name: a rejected class only takes itself away
                if isinstance(node, ast.ImportFrom) and len(node.names) > 1:
                    body.extend(ast.copy_location(ast.ImportFrom(node.module, [alias], node.level), node) for alias in node.names)
                else:
                    body.append(node)
            for node in body:
                code = compile(ast.Module([node], []), f"<c18:{name}>", "exec", flags=flags, dont_inherit=True)
                try:
                    exec(code, ns)  # noqa: S102
                except Exception as exc:  # noqa: BLE001
                    if isinstance(node, ast.ClassDef):
                        out[node.name] = {"accepted": False, "why": f"{type(exc).__name__}: {exc}"[:160]}
                    elif isinstance(node, ast.ImportFrom) and isinstance(exc, ImportError) and node.names[0].name in out:
                        continue        # the import of a class that was rejected where it is defined
                    else:
                        raise
                else:
                    if isinstance(node, ast.ClassDef):
                        out[node.name] = describe_class(ns[node.name])
    finally:
        for name in mods:
            sys.modules.pop(name, None)
    return out


# ------------------------------------------------------------------------------------------------
# Griffe's view
def params_of(parameters) -> list[tuple[str, str, bool]]:  # noqa: ANN001
    return [(p.name, p.kind.value if p.kind is not None else None, bool(p.required)) for p in parameters]


def griffe_view(files: dict[str, str], package: str, load: list[str] | None = None, loaders: str = "same") -> dict[str, dict]:
    """Static load.  ``load``: a loading session - the top-level names are loaded one after the other (dependencies first), either
    by one GriffeLoader or by one new GriffeLoader per step sharing the modules / lines collections; the view is taken at the end."""
    import griffe

    out: dict[str, dict] = {}
    with tmp_tree(files) as root:
        loader = griffe.GriffeLoader(search_paths=[root], allow_inspection=False)
        tops = []
        for step, name in enumerate(load or [package]):
            if step and loaders == "shared-collections":
                loader = griffe.GriffeLoader(search_paths=[root], allow_inspection=False,
                                             modules_collection=loader.modules_collection, lines_collection=loader.lines_collection)
            tops.append(loader.load(name))

        def visit(obj) -> None:  # noqa: ANN001
            for name, member in obj.members.items():
                if member.is_alias:
                    continue
                if member.is_module:
                    visit(member)
                elif member.is_class:
                    init = member.members.get("__init__")
                    info = {"labels": sorted(member.labels), "own_init": init is not None, "member_params": None, "init_span": None,
                            "init_kind": None, "members": sorted(member.members)}
                    if init is not None:
                        info["init_kind"] = "alias" if init.is_alias else init.kind.value
                        if not init.is_alias and init.is_function:
                            info["member_params"] = params_of(init.parameters)
                            info["init_span"] = [init.lineno, init.endlineno]
                    try:
                        info["class_params"] = params_of(member.parameters)
                    except Exception as exc:  # noqa: BLE001
                        info["class_params"] = f"raised {type(exc).__name__}: {exc}"
                    out[name] = info
                    visit(member)

        for top in tops:
            visit(top)
    return out


# ------------------------------------------------------------------------------------------------
# mechanism classifiers.  A small reference model of the dataclass field-collection rules, written from the documentation of
# dataclasses (fields are collected from the bases' complete field tables in reverse MRO, then the class' own annotations in
# order; a redeclared field keeps its position and takes the new declaration; ClassVar pseudo-fields and init=False fields
# are in the table but not in __init__; keyword-only parameters go last).  With every switch off it must reproduce CPython's
# signature (checked on every class: a disagreement disables classification).  Each switch turns one rule into the misreading
# that a listed finding describes; a discrepancy is *known* iff some set of switches reproduces exactly what Griffe presents.
SWITCHES = [
    ("bare_field", F_BARE),             # `x: T = field()` (no argument) counts as "has a default"
    ("kw_false", F_KWFALSE),            # explicit field(kw_only=False) does not override a kw_only=True / KW_ONLY context
    ("init_false_misread", F_INITFALSE),  # @dataclass(init=False): "my fields are not parameters" + an __init__ is still built
    ("own_fields_only", F_DIAMOND),     # bases contribute their own declarations only, not their complete field table
    ("bare_classvar", F_BARECV),        # an un-subscripted `x: ClassVar` is an ordinary field
    ("removed_override", F_OVERRIDE),   # redeclaring an inherited field as ClassVar / init=False does not remove the parameter
    ("inherited_default", F_INHDEF),    # a field redeclared without a value does not pick up the inherited class attribute as default
    # a name bound more than once in one class body (Griffe keeps ONE member per name: position of the first binding, object of the last)
    ("rebind_position", F_RBPOS),       # the field sits where the name was first bound (plain assignment / def / class), not first annotated
    ("bare_forgets", F_RBBARE),         # a bare `x: T` after an assignment to x forgets the assigned value
    ("rebound_by_def", F_RBDEF),        # def / class / property statements binding a field's name are not seen as its default: bound last,
                                        # the field is no parameter at all; bound in between, the annotation (and the default) are lost
    ("del_ignored", F_DEL),             # `del x` in the class body is ignored: the deleted default stays
    ("labels_merged", F_RBLABELS),      # ClassVar-ness / property-ness follow the merged labels of every declaration, not the last annotation
    ("unpacking_ignored", F_UNPACK),    # `x, y = 1, 2` binds nothing (tuple / list targets are not visited)
    # an annotation that dataclasses reads as a *string* (a string literal, or any annotation under postponed evaluation)
    ("parsed_reading", F_STRPREFIX),    # is ClassVar / InitVar / KW_ONLY iff the parsed expression is one, not iff the text starts with one
]
REBIND_SWITCHES = {"rebind_position", "bare_forgets", "rebound_by_def", "del_ignored", "labels_merged", "unpacking_ignored"}


def _form(b: dict, tg: set) -> str | None:
    """The special form an annotation stands for: CPython's reading, or (switch) the reading of the parsed expression."""
    return b["parsed_form"] if "parsed_reading" in tg else b["form"]


def _is_classvar(b: dict, tg: set) -> bool:
    return _form(b, tg) == "ClassVar" and not ("bare_classvar" in tg and not b["subscripted"])


def own_decls(cname: str, facts: dict, tg: set, cpv: dict) -> list[dict]:  # noqa: C901, PLR0912
    """The fields a class body declares, from the sequence of its binding statements.

    CPython (all switches off): a field's position is that of the *first annotation* of its name and its type the *last*
    annotation (``__annotations__`` is a dict); its default is whatever the name is bound to when the body ends (last assignment,
    def or class statement; nothing after ``del``; a bare annotation binds nothing); the KW_ONLY marker splits the fields in
    annotation order."""
    fc = facts[cname]
    # dataclasses reads a field's default with getattr(cls, name): a field redeclared *without* a value picks up whatever class
    # attribute of that name an earlier class of the MRO left behind (typically the inherited field's default)
    inherited_attrs = set() if "inherited_default" in tg else {a for b in cpv[cname]["mro"][1:] for a in cpv[b]["class_attrs"]}
    if "init_false_misread" in tg and fc["dec_kwargs"].get("init") == "False":
        return []
    state: dict[str, dict] = {}
    for idx, b in enumerate(fc["bindings"]):
        kind = b["kind"]
        if kind == "aug" or (b["unpacked"] and "unpacking_ignored" in tg):
            continue        # rebinds a name that is bound already (NameError otherwise): neither position nor default-ness change
        s = state.setdefault(b["name"], {"first_bind": None, "first_ann": None, "ann": None, "attr": None, "labels": set(), "last": None, "carried_ann": None})
        if kind == "del":
            if "del_ignored" not in tg:
                s["attr"] = None
            continue
        if s["first_bind"] is None:
            s["first_bind"] = idx
        s["last"] = kind
        if kind in ("def", "class", "property"):
            s["attr"] = ("object", None)
            s["labels"] = {"property"} if kind == "property" else set()
            s["carried_ann"] = b if b["ann"] else None     # a function / class member has no annotation to hand on (a property: its return annotation)
            continue
        if kind == "ann":
            if s["first_ann"] is None:
                s["first_ann"] = idx
            s["ann"] = s["carried_ann"] = b
        if b["valued"]:
            s["attr"] = ("value", b["field_kwargs"])
        elif s["attr"] is not None and ("bare_forgets" if s["attr"][0] == "value" else "rebound_by_def") in tg:
            s["attr"] = None        # Griffe: the new attribute has no value (and a function / class never counted as one)
        # the labels Griffe's visitor gives the attribute of this statement, merged with those of the member it replaces
        if kind == "ann" and _is_classvar(b, tg):
            s["labels"] |= {"class"}
        else:
            s["labels"] |= {"class", "instance"} if b["valued"] else {"instance"}
    order = "first_bind" if "rebind_position" in tg else "first_ann"
    declared = sorted(((n, s) for n, s in state.items() if s["first_ann"] is not None), key=lambda ns: ns[1][order])
    out = []
    ctx_kw = fc["dec_kwargs"].get("kw_only") == "True"
    marker = False
    for name, s in declared:
        ann = s["ann"]
        if _form(ann, tg) == "KW_ONLY":
            marker = True
            continue
        if "rebound_by_def" in tg and (s["last"] in ("def", "class", "property") or s["carried_ann"] is None):
            continue        # the member is a function / class / property now, or an attribute that lost its annotation to one
        if s["last"] in ("def", "class", "property"):
            classvar = _is_classvar(ann, tg)
        elif "labels_merged" in tg:
            classvar = "property" in s["labels"] or ("class" in s["labels"] and "instance" not in s["labels"])
        else:
            classvar = _is_classvar(ann, tg)
        kw = s["attr"][1] if s["attr"] is not None and s["attr"][0] == "value" else None
        init = not (kw is not None and kw.get("init") == "False")
        if (classvar or not init) and "removed_override" in tg:
            continue
        if kw is None:
            has_default = s["attr"] is not None or name in inherited_attrs
        else:
            has_default = "default" in kw or "default_factory" in kw or (kw == {} and "bare_field" in tg)
        context = ctx_kw or marker
        explicit = None if kw is None or "kw_only" not in kw else kw["kw_only"] == "True"
        kw_only = context if explicit is None else (explicit or (context and "kw_false" in tg))
        out.append({"name": name, "classvar": classvar, "init": init, "required": not has_default, "kw_only": kw_only})
    return out


def field_table(cname: str, cpv: dict, facts: dict, tg: set) -> dict[str, dict]:
    """The complete field table of a *decorated* class."""
    table: dict[str, dict] = {}
    for b in reversed(cpv[cname]["mro"][1:]):
        if "own_fields_only" in tg:
            if cpv[b]["decorated_here"]:
                for d in own_decls(b, facts, tg, cpv):
                    table[d["name"]] = d
            continue
        holder = next((k for k in cpv[b]["mro"] if cpv[k]["decorated_here"]), None)   # getattr(b, '__dataclass_fields__', None)
        if holder is not None:
            for name, d in field_table(holder, cpv, facts, tg).items():
                table[name] = d
    for d in own_decls(cname, facts, tg, cpv):
        table[d["name"]] = d
    return table


def model_member(cname: str, cpv: dict, facts: dict, tg: set):  # noqa: ANN201
    """The generated __init__ of ``cname`` according to the model, or None when none is generated."""
    fc = facts[cname]
    if not fc["decorated"] or fc["init_span"] is not None:
        return None
    if fc["dec_kwargs"].get("init") == "False" and "init_false_misread" not in tg:
        return None
    params = [d for d in field_table(cname, cpv, facts, tg).values() if d["init"] and not d["classvar"]]
    std = [(d["name"], "positional or keyword", d["required"]) for d in params if not d["kw_only"]]
    kwo = [(d["name"], "keyword-only", d["required"]) for d in params if d["kw_only"]]
    return [("self", "positional or keyword", True), *std, *kwo]


def model_effective(cname: str, cpv: dict, facts: dict, tg: set):  # noqa: ANN201
    for k in cpv[cname]["mro"]:
        if facts[k]["init_span"] is not None:
            return cpv[k]["own_sig"]
        m = model_member(k, cpv, facts, tg)
        if m is not None:
            return m
    return None


def classify(cname: str, g: dict, cpv: dict, facts: dict, rec) -> str | None:  # noqa: ANN001
    """Finding id iff the model with a non-empty set of switches presents exactly what Griffe presents for this class."""
    cp = cpv[cname]
    try:
        ok = model_effective(cname, cpv, facts, set()) == cp["sig"] and (
            not cp["own_init"] or facts[cname]["init_span"] is not None or model_member(cname, cpv, facts, set()) == cp["own_sig"])
    except KeyError:
        ok = False     # a base CPython rejected / a class outside the analysed files
    if not ok:
        rec.count("reference_model_disagrees_with_cpython")
        return None
    rec.count("reference_model_agrees_with_cpython")
    # only defects still listed as `known` can explain a discrepancy: the switch of a repaired defect stays off, so that
    # the defect coming back (alone or combined with a known one) is reported as a violation
    from vf.core.rec import known_findings

    names = [n for n, f in SWITCHES if known_findings().get(f, {}).get("status") == "known"]
    if not any(rebound_fields(facts[k]) for k in cp["mro"]):
        names = [n for n in names if n not in REBIND_SWITCHES]      # they change nothing unless some name is bound twice in a body
    if not any(f["form"] != f["parsed_form"] for k in cp["mro"] for f in facts[k]["fields"]):
        names = [n for n in names if n != "parsed_reading"]
    for r in range(1, len(names) + 1):
        for combo in itertools.combinations(names, r):
            tg = set(combo)
            member = model_member(cname, cpv, facts, tg) if facts[cname]["init_span"] is None else cp["own_sig"]
            if g["member_params"] != member:
                continue
            eff = model_effective(cname, cpv, facts, tg)
            if g["class_params"] == (eff if eff is not None else []) or (eff is None and g["class_params"] == [("self", "positional or keyword", True)]):
                return next(f for n, f in SWITCHES if n in tg)
    return None


# ------------------------------------------------------------------------------------------------
def judge_case(rec, case: dict) -> None:  # noqa: ANN001, C901, PLR0912, PLR0915
    files, package = case["files"], case["package"]
    facts = analyse(files)
    try:
        with case_watchdog(60):
            cpv = cpython_view(files, package, rec)
            if cpv is None:
                rec.skip("package rejected by CPython")
                return
            gv = griffe_view(files, package, case.get("load"), case.get("loaders", "same"))
    except Exception as exc:  # noqa: BLE001
        rec.fail_exc(case, "exception while executing / loading the hierarchy", exc)
        return
    problems: list[tuple[str, object, object, str | None]] = []
    accepted_dc_with_dc_parent = False
    session = case.get("load")
    if session:
        rec.count("loading_sessions_judged")
        rec.maximum("loading_session_max_steps", len(session))
        rec.add_to_set("loading_session_loaders", case.get("loaders", "same"))

    def unit(name: str) -> str:
        return facts[name]["file"].split("/")[0].removesuffix(".py")
    for cname, cp in cpv.items():
        if not cp["accepted"]:
            rec.count("classes_rejected_by_cpython")
            rec.add_to_set("cpython_rejection_reasons", cp["why"].split(" for ")[0][:80])
            continue
        rec.count("classes_accepted_by_cpython")
        g = gv.get(cname)
        fc = facts[cname]
        if g is None:
            problems.append((f"{cname}: class missing from the loaded tree", sorted(gv), cname, None))
            continue
        # bookkeeping of what was exercised
        if fc["decorated"]:
            rec.add_to_set("init_kw_only_combinations", f"init={fc['dec_kwargs'].get('init', '-')},kw_only={fc['dec_kwargs'].get('kw_only', '-')}")
            if fc["dec_text"].split("(")[0] in ("dc", "d.dataclass"):
                rec.count("aliased_decorator_seen")
            rec.add_to_set("decorator_spellings", fc["dec_text"].split("(")[0] + ("()" if "(" in fc["dec_text"] else ""))
            for f in fc["fields"]:
                if f["form"] == "KW_ONLY":
                    rec.count("kw_only_marker_classes")
                elif f["form"] == "InitVar":
                    rec.count("initvar_fields_seen")
                elif f["form"] == "ClassVar":
                    rec.count("classvar_fields_seen")
                elif (f["field_kwargs"] or {}).get("init") == "False":
                    rec.count("field_init_false_seen")
        if cp["is_dc"] and any(cp["decorated"].get(b) for b in cp["mro"][1:]):
            accepted_dc_with_dc_parent = True
        # how the annotations are spelled, in which evaluation mode
        if fc["decorated"]:
            if fc["postponed"]:
                rec.count("classes_under_postponed_evaluation_compared")
            for f in fc["fields"]:
                mode = "postponed" if fc["postponed"] else "evaluated"
                if f["quoted"]:
                    rec.count("wholly_quoted_annotations_compared")
                    if f["quoted_form"]:        # the literal spells ClassVar / InitVar / KW_ONLY: CPython decides whether it is one
                        rec.count(f"quoted_special_form_annotations_{mode}_compared")
                        rec.add_to_set("quoted_special_form_readings", f"{mode}: \"{f['quoted_form']}\" is {f['form'] or 'an ordinary type'}")
                if f["aliased"]:
                    rec.count("special_forms_through_module_or_name_alias_compared")
                if not f["form"] and not f["quoted_form"] and re.search(r"ClassVar|InitVar|KW_ONLY", f["ann"]):
                    rec.count("ordinary_annotations_mentioning_special_forms_compared")
            if cp["own_init"] and fc["init_span"] is None and any(
                    cp["decorated"].get(b) and facts[b]["postponed"] != fc["postponed"] for b in cp["mro"][1:]):
                rec.count("generated_inits_mixing_evaluation_modes_compared")
        # names bound more than once in a class body: here, or in a dataclass this one inherits its fields from
        if fc["decorated"]:
            own_rebound = rebound_fields(fc)
            if own_rebound:
                rec.count("classes_with_rebound_field_compared")
                if session:
                    rec.count("classes_with_rebound_field_in_sessions_compared")
                marker_at = [i for i, b in enumerate(fc["bindings"]) if b["kind"] == "ann" and b["form"] == "KW_ONLY"]
                for bs in own_rebound.values():
                    rec.add_to_set("rebinding_forms", ">".join(binding_form(b) for b in bs))
                    if any(bs[0]["idx"] < m < bs[-1]["idx"] for m in marker_at):
                        rec.count("fields_rebound_across_kw_only_marker_compared")
            if cp["own_init"] and fc["init_span"] is None and any(
                    cp["decorated"].get(b) and rebound_fields(facts[b]) for b in cp["mro"][1:]):
                rec.count("generated_inits_inheriting_rebound_field_compared")
        if package == "pk" and cp["own_init"] and fc["init_span"] is None and any(
                cp["decorated"].get(b) and facts[b]["file"] > fc["file"] for b in cp["mro"][1:]):
            rec.count("generated_inits_with_base_in_later_module_compared")     # the subclass is processed before its base
        if session:
            # what the class inherits from classes that were loaded in an *earlier step* of the session (another top-level package)
            foreign = [b for b in cp["mro"][1:] if unit(b) != unit(cname)]
            foreign_dc = [b for b in foreign if cp["decorated"].get(b)]
            if foreign:
                rec.count("cross_package_subclasses_compared")
            if foreign_dc and cp["own_init"] and fc["init_span"] is None:
                rec.count("cross_package_generated_inits_compared")
                # fields that are parameters but never members of the loaded class (init-only variables): nothing in the tree of
                # the earlier package records them once that package has been processed
                if any(f["form"] == "InitVar" for b in foreign_dc for f in facts[b]["fields"]):
                    rec.count("cross_package_inherited_initvar_inits_compared")
            if foreign_dc and not cp["own_init"]:
                rec.count("cross_package_inherited_inits_compared")
        # (1) label
        labelled = "dataclass" in g["labels"]
        if cp["is_dc"] and not cp["decorated_here"]:
            rec.count("inherited_dataclass_labels_checked")
        if cp["is_dc"] != labelled:
            # listed mechanism: the label of an *undecorated* subclass is only set on the code path that synthesises an __init__,
            # which is skipped when the class body defines __init__ itself
            fid = F_LABEL if (cp["is_dc"] and not fc["decorated"] and fc["init_span"] is not None) else None
            problems.append((f"{cname}: 'dataclass' label {'missing' if cp['is_dc'] else 'present on a non-dataclass'}",
                             g["labels"], f"is_dataclass={cp['is_dc']}", fid))
        # (2) the __init__ member
        if cp["own_init"]:
            exp = cp["sig"]
            if fc["init_span"] is not None:
                rec.count("handwritten_inits_checked")
                if g["init_span"] != fc["init_span"]:
                    problems.append((f"{cname}: hand-written __init__ is not the function from the source", g["init_span"], fc["init_span"], None))
            else:
                rec.count("generated_inits_compared")
            if g["member_params"] is None:
                problems.append((f"{cname}: CPython has an own __init__, Griffe presents none ({g['init_kind']})", None, exp, None))
            elif g["member_params"] != exp:
                problems.append((f"{cname}: __init__ member parameters differ from CPython's", g["member_params"], exp,
                                 classify(cname, g, cpv, facts, rec)))
        elif not cp["is_dc"]:
            rec.count("non_dataclasses_checked_no_init")
            if g["own_init"]:
                problems.append((f"{cname}: not a dataclass, no __init__ in the source, but Griffe presents one", g["member_params"], None, None))
        # (3) Class.parameters against the effective __init__
        rec.count("class_parameters_compared")
        exp = cp["sig"]
        got = g["class_params"]
        if exp is None:
            if got not in ([], [("self", "positional or keyword", True)]):
                problems.append((f"{cname}: no __init__ anywhere in CPython's MRO but Class.parameters is not empty", got, [],
                                 classify(cname, g, cpv, facts, rec)))
        elif got != exp:
            problems.append((f"{cname}: Class.parameters differ from the signature of CPython's (effective) __init__", got, exp,
                             classify(cname, g, cpv, facts, rec)))
    nontrivial = accepted_dc_with_dc_parent and any(
        f["form"] == "KW_ONLY" or "kw_only" in (f["field_kwargs"] or {}) for fc in facts.values() for f in fc["fields"]) or (
        accepted_dc_with_dc_parent and any("kw_only" in fc["dec_kwargs"] for fc in facts.values()))
    tags = ["two-modules"] if package == "pk" else ["multi-package"] if session else []
    if not problems:
        rec.ok(case, nontrivial=nontrivial, tags=tags)
        return
    unknown = [p for p in problems if p[3] is None]
    what, obs, exp, fid = (unknown or problems)[0]
    rec.fail(case, what, observed=obs, expected=exp, finding=None if unknown else fid, nontrivial=nontrivial, tags=tags, tried=ALL_FINDINGS)
    if not unknown:
        for f in {p[3] for p in problems}:
            rec.count("cases_meeting_" + f)


# ------------------------------------------------------------------------------------------------
def shards(tier: str, seed: int) -> list[dict]:
    total = 4160 if tier == "quick" else 40000
    nsh = 13 if tier == "quick" else 32
    return [{"kind": "random", "count": total // nsh} for _ in range(nsh)]


def run_shard(spec: dict, rec) -> None:  # noqa: ANN001
    rng = random.Random(spec["seed"])
    combos = list(gen.INIT_KW)
    for i in range(spec["count"]):
        combo = combos[i % len(combos)] if i % 3 == 0 else None
        case = gen.gen_case(rng, combo)
        judge_case(rec, case)
    seen = rec.sets.get("init_kw_only_combinations", set())
    if len(seen) >= 9:
        rec.count("init_kw_only_combinations_seen", len(seen))


def run_replay(inp: dict, rec) -> None:  # noqa: ANN001
    judge_case(rec, {k: inp[k] for k in ("files", "package", "load", "loaders") if k in inp})


def run_pinned(findings: list[dict], rec) -> dict:  # noqa: ANN001
    from vf.core.rec import Recorder

    res = {}
    for f in findings:
        sub = Recorder(PROP, {})
        judge_case(sub, f["witness"])
        if sub.n_fail:
            res[f["id"]] = {"reproduced": True, "detail": "fails, but not as the listed mechanism: " + sub.fails[0]["what"]}
        elif f["id"] in sub.known:
            res[f["id"]] = {"reproduced": True, "detail": sub.known[f["id"]]["first"]["what"]}
        else:
            res[f["id"]] = {"reproduced": False, "detail": "passes" if not sub.known else f"classified as {sorted(sub.known)}"}
    return res
