"""C03 — Stored expressions render back to equivalent Python code.

Workload: grammar-directed random expression trees over every node class of ``_node_map`` (``vf.gen.exprs``), text
from ``ast.unparse``, each expression embedded in twelve storage sites of a generated module (attribute value /
annotation at module and class level, instance attribute value, function / method parameter default, parameter and
return annotation, function and class decorator, base class) which is visited by the real visitor; a second workload of typing-shaped annotations with
quoted parts, ``Literal[...]`` in every spelling, with / without ``from __future__ import annotations``.

Oracles (CPython's parser is the reference):
 1. ``str(expr)`` parses and its tree equals the tree of the source expression (positions / contexts / string
    prefixes ignored, constants by type+value) — after replacing, in annotation sites without the future import, every
    string constant outside ``Literal[...]`` by the tree CPython parses from it;
 2. flat iteration yields only ``str`` / ``ExprName`` pieces whose concatenation is ``str(expr)``; recursive non-flat
    iteration reconstructs the same text; every ``Load`` name of the (expected) tree is present as an ``ExprName``
    with a scope/parent to resolve in;
 3. the string rule is decided by (1) on the substituted tree, per (future?, inside Literal?, site) cell.

Views of one tree: every stored expression is judged a second time through the other documented ways of obtaining and
rendering it — decoded alone from its JSON (base / full encoder, twice in a row, from ``as_dict()``), fetched from the
module decoded from ``module.as_json()`` (base dump, full dump, dump of the decoded module), ``modernize()``, and its
``path`` / ``canonical_path`` (which must produce text).  The same CPython oracle decides: a view whose text equals the
fresh text has the fresh text's parse (its iteration views and name elements are still checked; decoded names need a
scope when they sit in a decoded module); any other text is parsed and compared with the source tree.

Domains: ``D_clean`` (no classifier consulted: any refutation is a violation) and ``D_hostile`` (refutations go through
mechanism classifiers: the *minimal failing subtree* is located by re-rendering sub-trees alone, the mechanism's
structural trigger is repaired on a copy, and the finding only matches when the repaired sub-tree renders correctly;
the whole tree is then re-judged with the repaired part, so a second, unknown defect in the same expression is still
reported).
"""
from __future__ import annotations

import ast
import math
import random
from collections import Counter

from vf.core.rec import digest, known_findings
from vf.core.util import case_watchdog, visit_source
from vf.gen.exprs import BINOPS, BOOLOPS, CLEAN_EXCLUDES, CMPOPS, LITERAL_SPELLINGS, PRELUDE, UNARYOPS, ExprGen, StringAnnGen

PROP = "C03"
LEVEL = "exploration"
ANCHORS = ["expressions.py", "agents/nodes/parameters.py"]
RULE = ("random expression trees (depth <=3 quick / <=5 thorough) over all 28 node classes of _node_map, all 13 binary / 4 unary / "
        "2 boolean / 10 comparison operators, every operand position; text from ast.unparse; each expression stored in 12 sites "
        "of a generated module with and without 'from __future__ import annotations'; plus typing-shaped annotations with quoted "
        "parts and Literal[...] in 7 spellings. distinct = (source text, future flag); non-trivial = tree depth >= 2 and >= 2 "
        "distinct node classes")
LEVEL_TEXT = ("Every generated expression is visited by the real visitor at every storage site; str(), flat and recursive iteration "
              "of the stored Expr are compared with CPython's parse of the source text (tree equality up to parentheses and literal "
              "spelling), name elements against the Load names of the tree, string annotations against the (future?, Literal?, site) "
              "rule. The same judgement is repeated on every other view of the stored expression: decoded from its own JSON, "
              "from the base / full / repeated JSON dump of the visited module, as_dict(), modernize(), path / canonical_path. "
              "D_clean (no grouping ever needed, no known trigger) admits no classifier; in D_hostile a refutation must be "
              "explained by a listed mechanism whose repair makes the minimal failing subtree render correctly.")
LEVEL_NOTE = ("trusted: ast.parse / ast.unparse of CPython 3.12 (PEP 701 f-string grammar); rendered text is parsed as the right-hand "
              "side of an assignment (so a bare 'yield x' or 'a, b' counts as valid), a starred base as a call argument; depth-bounded "
              "sample, not exhaustive")
TECHNIQUE = "runtime monitoring: differential oracle (CPython parser) on the real visitor's stored expressions, two-domain classification"
REQUIRED_COUNTERS = ["parse_back_equal", "flat_iteration_checked", "recursive_iteration_checked", "names_checked",
                     "clean_domain_expressions", "hostile_domain_expressions", "string_parsed_as_code_checked",
                     "string_literal_under_future_checked", "string_literal_inside_Literal_checked",
                     "string_literal_non_annotation_site_checked",
                     "view_checked[expr_json]", "view_checked[expr_json_full]", "view_checked[expr_json_twice]",
                     "view_checked[as_dict_json]", "view_checked[modernize]", "view_checked[module_json_base]",
                     "view_checked[module_json_full]", "view_checked[module_json_twice]", "path_views_checked", "module_reloads"]
EXHAUSTIVE = {"quick": False, "thorough": False}
ASSUMPTIONS = [
    "strings inside a quoted annotation (nested quoting), strings in lambda defaults, in f-string replacement fields and in the "
    "subscripted object (left of '[') are not 'string annotations': such cases are only generated with the future import on",
    "'valid Python' = accepted by CPython 3.12's parser as the right-hand side of an assignment",
    "an expression decoded on its own (outside an object tree) has no scope to give to its names: name elements are only "
    "required to be present there; in a decoded module they must have a scope like in the visited one",
    "modernize() may respell typing aliases (Union, Optional, List, ...): with such a name in the expression only validity of the "
    "modernised text is required, otherwise tree equality",
    "the expression-only views are judged once per distinct (text, expected tree, class) of a case, the module views at every site; "
    "all cases go through the views in the quick tier, every fourth case in the thorough tier",
    "D_clean restrictions: " + "; ".join(CLEAN_EXCLUDES),
]
SHARD_TIMEOUT = {"quick": 900, "thorough": 10800}   # safety nets only (the machine may be heavily shared)

SITES = ["value", "annotation", "default", "param_annotation", "returns", "decorator", "class_decorator", "base",
         "class_value", "class_annotation", "method_default", "instance_value"]
ANN_SITES = {"annotation", "param_annotation", "returns", "class_annotation"}
LITERALS = set(LITERAL_SPELLINGS)
LOWPREC = (ast.BinOp, ast.UnaryOp, ast.BoolOp, ast.Compare, ast.IfExp, ast.Lambda, ast.Yield, ast.YieldFrom, ast.GeneratorExp)
FTEXT_TRIGGERS = set("{}'\"\\\n\r\t\x00")


# ---------------------------------------------------------------------------------------------------------------
# reference side
class Unusable(Exception):
    pass


def canon(n):  # noqa: ANN001, ANN201
    """Tree identity up to positions, contexts and literal spelling (string prefix ``u``)."""
    if isinstance(n, ast.Constant):
        v = n.value
        return ("Constant", type(v).__name__, repr(v))
    if isinstance(n, ast.JoinedStr):
        # CPython 3.12 leaves an empty trailing Constant('') in format-spec JoinedStr nodes: not part of the tree's identity
        return ("JoinedStr", tuple(canon(v) for v in n.values if not (isinstance(v, ast.Constant) and v.value == "")))
    if isinstance(n, ast.AST):
        return (type(n).__name__,) + tuple(canon(getattr(n, f, None)) for f in n._fields if f not in ("ctx", "kind", "type_comment"))
    if isinstance(n, list):
        return tuple(canon(x) for x in n)
    return n


def clone(n):  # noqa: ANN001, ANN201
    """Structural copy of a tree (fields only: no positions, no memo attributes) — much cheaper than copy.deepcopy."""
    if isinstance(n, ast.AST):
        new = n.__class__()
        for f in n._fields:
            setattr(new, f, clone(getattr(n, f, None)))
        return new
    if isinstance(n, list):
        return [clone(x) for x in n]
    return n


def parse_expr_text(src: str) -> ast.expr:
    """CPython's reading of a source expression (``*x`` is read as a call argument / base class)."""
    try:
        if src.lstrip().startswith("*"):
            call = ast.parse("__vf__(" + src + ")").body[0].value  # type: ignore[attr-defined]
            if len(call.args) == 1 and isinstance(call.args[0], ast.Starred) and not call.keywords:
                return call.args[0]
        return ast.parse("(" + src + ")", mode="eval").body
    except (SyntaxError, ValueError, RecursionError, MemoryError) as exc:
        raise Unusable(f"source does not parse: {exc}") from exc


def parse_back(text: str, starred: bool):  # noqa: ANN201
    """Parse rendered text: right-hand side of an assignment (or sole call argument for a starred expression)."""
    if starred:
        tree = ast.parse("__vf__(" + text + ")")
        if len(tree.body) == 1 and isinstance(tree.body[0], ast.Expr) and isinstance(tree.body[0].value, ast.Call):
            call = tree.body[0].value
            if isinstance(call.func, ast.Name) and call.func.id == "__vf__" and len(call.args) == 1 and not call.keywords:
                return call.args[0]
        raise SyntaxError("rendered text is not a single starred argument")
    tree = ast.parse("__vf__ = " + text)
    if len(tree.body) == 1 and isinstance(tree.body[0], ast.Assign) and len(tree.body[0].targets) == 1 and \
            isinstance(tree.body[0].targets[0], ast.Name):
        return tree.body[0].value
    raise SyntaxError("rendered text is not a single expression")


def is_literal_subscript(node: ast.Subscript) -> bool:
    try:
        return ast.unparse(node.value) in LITERALS
    except Exception:  # noqa: BLE001
        return False


class StringInfo:
    """Where the string constants of a tree sit."""

    def __init__(self, tree: ast.AST) -> None:
        self.plain = 0        # strings outside Literal[...] (candidates for parsing)
        self.in_literal = 0   # strings inside Literal[...]
        self.corner = 0       # strings in positions the statement does not speak about (see ASSUMPTIONS)
        self.nested = 0       # strings whose parsed content itself contains strings
        self._walk(tree, False, False)

    def _walk(self, n: ast.AST, literal: bool, corner: bool) -> None:
        if isinstance(n, ast.Constant):
            if isinstance(n.value, str):
                if corner:
                    self.corner += 1
                elif literal:
                    self.in_literal += 1
                else:
                    self.plain += 1
                    try:
                        inner = ast.parse(n.value, mode="eval")
                    except (SyntaxError, ValueError, RecursionError, MemoryError):
                        return
                    if any(isinstance(x, ast.Constant) and isinstance(x.value, str) for x in ast.walk(inner)):
                        self.nested += 1
            return
        if isinstance(n, ast.JoinedStr):
            for v in n.values:
                if corner and isinstance(v, ast.Constant) and isinstance(v.value, str):
                    self.corner += 1  # text of an f-string nested in a replacement field
                if isinstance(v, ast.FormattedValue):
                    self._walk(v.value, literal, True)
                    if v.format_spec is not None:
                        self._walk(v.format_spec, literal, True)
            return
        if isinstance(n, ast.Subscript):
            self._walk(n.value, literal, True)
            self._walk(n.slice, literal or is_literal_subscript(n), corner)
            return
        if isinstance(n, ast.Lambda):
            for dflt in list(n.args.defaults) + [k for k in n.args.kw_defaults if k is not None]:
                self._walk(dflt, literal, True)
            self._walk(n.body, literal, corner)
            return
        for c in ast.iter_child_nodes(n):
            self._walk(c, literal, corner)


class _Subst(ast.NodeTransformer):
    """Expected tree of an annotation when postponed evaluation is off: strings outside Literal become code."""

    def __init__(self) -> None:
        self.literal = False
        self.parsed = 0
        self.kept = 0

    def visit_Constant(self, node: ast.Constant):  # noqa: ANN201, N802
        if isinstance(node.value, str) and not self.literal:
            try:
                body = ast.parse(node.value, mode="eval").body
            except (SyntaxError, ValueError, RecursionError, MemoryError):
                self.kept += 1
                return node
            self.parsed += 1
            return body
        return node

    def visit_JoinedStr(self, node: ast.JoinedStr):  # noqa: ANN201, N802
        return node  # text parts are not constants of the annotation; replacement fields are a corner (future forced on)

    def visit_Subscript(self, node: ast.Subscript):  # noqa: ANN201, N802
        prev = self.literal
        if is_literal_subscript(node):
            self.literal = True
        node.slice = self.visit(node.slice)
        self.literal = prev
        return node

    def visit_Lambda(self, node: ast.Lambda):  # noqa: ANN201, N802
        node.body = self.visit(node.body)
        return node


def expected_tree(ref: ast.expr, parse_strings: bool) -> tuple[ast.expr, int]:
    """The tree the stored expression must parse back to (memoised on the reference tree)."""
    if not parse_strings:
        return ref, 0
    memo = getattr(ref, "_vf_expected", None)
    if memo is None:
        if not any(isinstance(n, ast.Constant) and isinstance(n.value, str) for n in ast.walk(ref)):
            memo = (ref, 0)
        else:
            sub = _Subst()
            out = sub.visit(clone(ref))
            memo = (out, sub.parsed)
        ref._vf_expected = memo  # type: ignore[attr-defined]
    return memo


def called_constant(ref: ast.AST) -> bool:
    for n in ast.walk(ref):
        if isinstance(n, ast.Call) and isinstance(n.func, ast.Constant):
            return True
        if isinstance(n, ast.Constant) and isinstance(n.value, str):
            try:
                if called_constant(ast.parse(n.value, mode="eval")):
                    return True
            except (SyntaxError, ValueError, RecursionError, MemoryError):
                pass
    return False


def uncompilable_string(ref: ast.AST) -> bool:
    """A string constant CPython refuses to compile with something else than SyntaxError (lone surrogates)."""
    for n in ast.walk(ref):
        if isinstance(n, ast.Constant) and isinstance(n.value, str):
            try:
                compile(n.value, "<string-annotation>", "eval", flags=ast.PyCF_ONLY_AST)
            except SyntaxError:
                continue
            except Exception:  # noqa: BLE001
                return True
    return False


def contains(tree: ast.AST, cls) -> bool:  # noqa: ANN001
    return any(isinstance(n, cls) for n in ast.walk(tree))


def tree_depth(n: ast.AST) -> int:
    kids = [c for c in ast.iter_child_nodes(n) if not isinstance(c, (ast.expr_context, ast.operator, ast.unaryop, ast.boolop, ast.cmpop))]
    return 1 + max((tree_depth(c) for c in kids), default=0)


# ---------------------------------------------------------------------------------------------------------------
# observation side
def render_pieces(stored):  # noqa: ANN001, ANN201
    """(text, problem) from the three iteration views of a stored expression."""
    from _griffe.expressions import Expr, ExprName

    if isinstance(stored, str):
        return stored, None, []
    text = str(stored)
    flat = list(stored.iterate(flat=True))
    for p in flat:
        if not isinstance(p, (str, ExprName)):
            return text, ("flat iteration yields a piece that is neither str nor ExprName", repr(p)[:200], "str | ExprName"), []
    joined = "".join(p if isinstance(p, str) else p.name for p in flat)
    if joined != text:
        return text, ("concatenated flat iteration differs from str()", joined, text), []

    def rebuild(e, depth=0):  # noqa: ANN001, ANN202
        out = []
        for p in e:  # Expr.__iter__ == iterate(flat=False)
            if isinstance(p, str):
                out.append(p)
            elif isinstance(p, ExprName):
                out.append(p.name)
            elif isinstance(p, Expr):
                out.append(rebuild(p, depth + 1))
            else:
                raise TypeError(f"non-flat iteration yields {type(p).__name__}")
        return "".join(out)

    try:
        again = rebuild(stored)
    except TypeError as exc:
        return text, (str(exc), None, "str | Expr"), []
    if again != text:
        return text, ("recursive non-flat iteration reconstructs a different text", again, text), []
    names = [p for p in flat if isinstance(p, ExprName)]
    return text, None, names


def judge(expected: ast.expr, stored, rec=None, memo: bool = False, need_parent: bool = True):  # noqa: ANN001, ANN201
    """None when the stored expression satisfies oracles 1+2 for ``expected``; else (kind, what, observed, expected).

    ``need_parent``: every name element must have a scope to resolve in (false for an expression decoded on its own, outside
    any object tree: nothing can attach a scope there)."""
    text, problem, names = render_pieces(stored)
    if problem:
        return ("iteration",) + problem
    if rec is not None and not isinstance(stored, str):
        rec.count("flat_iteration_checked")
        rec.count("recursive_iteration_checked")
    try:
        back = parse_back(text, isinstance(expected, ast.Starred))
    except (SyntaxError, ValueError, RecursionError, MemoryError) as exc:
        return ("syntax", f"str(expr) is not valid Python ({type(exc).__name__}: {exc})"[:300], text, _unparse(expected))
    want_canon = getattr(expected, "_vf_canon", None) if memo else None
    if want_canon is None:
        want_canon = canon(expected)
        if memo:  # only for trees that are never mutated (the reference / expected tree of a case)
            expected._vf_canon = want_canon  # type: ignore[attr-defined]
    if canon(back) != want_canon:
        return ("tree", "str(expr) parses to a different tree than the source expression", text, _unparse(expected))
    if rec is not None:
        rec.count("parse_back_equal")
    if not isinstance(stored, str):
        problem = names_problem(expected, names, need_parent, memo)
        if problem:
            return problem
        if rec is not None:
            rec.count("names_checked")
    return None


def names_problem(expected: ast.expr, names, need_parent: bool, memo: bool = False):  # noqa: ANN001, ANN201
    want = getattr(expected, "_vf_names", None) if memo else None
    if want is None:
        want = Counter(n.id for n in ast.walk(expected) if isinstance(n, ast.Name) and isinstance(n.ctx, ast.Load))
        if memo:  # only for trees that are never mutated
            expected._vf_names = want  # type: ignore[attr-defined]
    have = Counter(n.name for n in names if n.parent is not None or not need_parent)
    if want - have:
        return ("names", "a referenced (Load) name is not present as a resolvable ExprName element", dict(have), dict(want))
    return None


def _unparse(node: ast.AST) -> str:
    try:
        return ast.unparse(node)
    except Exception as exc:  # noqa: BLE001
        return f"<unparse failed: {exc!r}>"


_HOST = None


def host_module():  # noqa: ANN201
    """Parent scope for sub-trees rendered alone (also silences the parser's SyntaxWarnings about rendered text such as `1.real`)."""
    global _HOST
    if _HOST is None:
        import warnings

        warnings.filterwarnings("ignore", category=SyntaxWarning)
        warnings.filterwarnings("ignore", category=DeprecationWarning)
        _HOST = visit_source(PRELUDE, "vfhost")
    return _HOST


def wrap(node: ast.AST) -> ast.expr:
    """Smallest expression in which ``node`` can be rendered and parsed on its own."""
    if isinstance(node, (ast.Starred, ast.GeneratorExp)):
        return ast.Call(ast.Name("__f", ast.Load()), [node], [])
    if isinstance(node, ast.keyword):
        return ast.Call(ast.Name("__f", ast.Load()), [], [node])
    if isinstance(node, ast.Slice) or (isinstance(node, ast.Tuple) and any(isinstance(e, ast.Slice) for e in node.elts)):
        return ast.Subscript(ast.Name("__s", ast.Load()), node, ast.Load())
    if isinstance(node, ast.comprehension):
        return ast.ListComp(ast.Name("__e", ast.Load()), [node])
    if isinstance(node, ast.FormattedValue):
        return ast.JoinedStr([node])
    return node  # type: ignore[return-value]


def standalone(node: ast.AST, rec=None, as_root: bool = False):  # noqa: ANN001, ANN201
    """Render a (wrapped) subtree through the real builder.  Returns (problem | None, text)."""
    from _griffe.expressions import get_expression

    if contains(node, ast.Await):
        return None, None
    tree = node if as_root and isinstance(node, ast.expr) else wrap(node)
    if rec is not None:
        rec.count("standalone_subtree_renders")
    try:
        stored = get_expression(tree, parent=host_module(), parse_strings=False)
    except Exception as exc:  # noqa: BLE001
        return ("exception", f"builder raised {type(exc).__name__}: {exc}"[:200], None, _unparse(tree)), None
    if stored is None:
        return ("none", "nothing built", None, _unparse(tree)), None
    return judge(tree, stored), str(stored)


# ---------------------------------------------------------------------------------------------------------------
# views of one stored expression: every expression the check stores is also looked at through the other documented ways of
# obtaining / rendering it.  All of them are judged by the same CPython oracle as the freshly built expression.
EXPR_VIEWS = ["expr_json", "expr_json_full", "expr_json_twice", "as_dict_json", "modernize"]
MODULE_VIEWS = {"module_json_base": False, "module_json_full": True, "module_json_twice": False}   # view -> `full` option of the dump
ALL_VIEWS = EXPR_VIEWS + list(MODULE_VIEWS)
# names that `modernize()` is documented to respell (PEP 585 / 604): only there is the modernised text allowed to be another tree
MODERNIZED_NAMES = {"Union", "Optional", "List", "Dict", "Set", "FrozenSet", "Tuple", "Type", "Deque", "DefaultDict", "OrderedDict",
                    "Counter", "ChainMap"}


def json_roundtrip(obj, full: bool = False):  # noqa: ANN001, ANN201
    """Public encoder / decoder pair, applied to anything griffe can dump."""
    import json

    import griffe

    return json.loads(json.dumps(obj, cls=griffe.JSONEncoder, full=full), object_hook=griffe.json_decoder)


def reload_module(mod, full: bool):  # noqa: ANN001, ANN201
    return type(mod).from_json(mod.as_json(full=full))


def expression_views(stored):  # noqa: ANN001, ANN201
    """(view name, names must have a scope?, thunk) for the views that need nothing but the expression itself."""
    yield "expr_json", False, lambda: json_roundtrip(stored)
    yield "expr_json_full", False, lambda: json_roundtrip(stored, full=True)
    yield "expr_json_twice", False, lambda: json_roundtrip(json_roundtrip(stored))
    if not isinstance(stored, str):
        yield "as_dict_json", False, lambda: json_roundtrip(stored.as_dict())
        yield "modernize", True, stored.modernize


def walk_expr(e):  # noqa: ANN001, ANN201
    """Every Expr node of a stored expression (fields of the dataclasses; lists / tuples looked through)."""
    from dataclasses import fields, is_dataclass

    from _griffe.expressions import Expr, ExprName

    stack = [e]
    while stack:
        x = stack.pop()
        if isinstance(x, (list, tuple)):
            stack.extend(x)
        elif isinstance(x, Expr):
            yield x
            if isinstance(x, ExprName) or not is_dataclass(x):
                continue
            for f in fields(x):
                if f.name not in ("parent", "function"):
                    stack.append(getattr(x, f.name, None))


def judge_view(expected: ast.expr, stored, view, fresh_text: str, fresh_ok: bool, need_parent: bool, rec, modernized: bool = False):  # noqa: ANN001, ANN201
    """Judge another view of a stored expression.  None, or (kind, what, observed, expected).

    The CPython oracle decides: text identical to that of the fresh expression has the parse the fresh text has (so only the
    iteration views and the name elements remain to be checked, or — when the fresh expression is already refuted — nothing
    new is observed); any other text is parsed and compared with the source tree like a fresh one."""
    if view is None:
        return ("view-none", "the view holds nothing although an expression is stored", None, fresh_text)
    if isinstance(view, str) and not isinstance(stored, str):
        text, problem, names = view, None, []
    else:
        text, problem, names = render_pieces(view)
    if problem:
        return ("iteration",) + problem
    if text == fresh_text:
        rec.count("view_text_identical_to_fresh")
        if not fresh_ok:
            rec.count("view_same_observation_as_refuted_fresh")
            return None
        if not isinstance(stored, str):
            return names_problem(expected, names, need_parent, memo=True)
        return None
    rec.count("view_text_differs_from_fresh")
    if modernized and any((isinstance(n, ast.Name) and n.id in MODERNIZED_NAMES) or (isinstance(n, ast.Attribute) and n.attr in MODERNIZED_NAMES)
                          for n in ast.walk(expected)):
        try:  # a documented respelling: the text must still be Python
            parse_back(text, isinstance(expected, ast.Starred))
        except (SyntaxError, ValueError, RecursionError, MemoryError) as exc:
            return ("syntax", f"modernised text is not valid Python ({exc})"[:300], text, fresh_text)
        rec.count("modernize_respelled_only_syntax_checked")
        return None
    if isinstance(view, str) and not isinstance(stored, str):
        problem = judge(expected, view, None, memo=True)
        return problem or names_problem(expected, [], need_parent, memo=True)
    return judge(expected, view, None, memo=True, need_parent=need_parent)


VIEW_IDS: list[str] = []


def classify_view(name: str, problem, expected, stored):  # noqa: ANN001, ANN201, ARG001
    """Listed mechanisms for refuted views (D_hostile only): none is known on the pinned tree."""
    return None


def path_views_problem(e):  # noqa: ANN001, ANN201
    """`path` / `canonical_path` are views of the same tree too: they must produce text for every stored expression."""
    for attr in ("path", "canonical_path"):
        try:
            value = getattr(e, attr)
        except RecursionError:
            raise
        except Exception as exc:  # noqa: BLE001
            return ("view-exception", f"`{attr}` of the stored expression raised {type(exc).__name__}: {exc}"[:300], None, "a string")
        if not isinstance(value, str):
            return ("view-type", f"`{attr}` of the stored expression is not a string", repr(value)[:200], "a string")
    return None


def check_views(expected: ast.expr, stored, fresh_ok: bool, site: str, reloaded: dict, rec, seen: set | None = None):  # noqa: ANN001, ANN201
    """(view name, problem) of the first view of ``stored`` that is refuted, else None.

    ``seen``: keys of the expressions of this case whose expression-only views were already judged (the same source at the
    twelve sites gives equal expression trees per expected tree; the module views differ per site and are judged at each)."""
    from _griffe.expressions import Expr, ExprParameter

    fresh_text = stored if isinstance(stored, str) else str(stored)
    key = (fresh_text, id(expected), type(stored).__name__)
    if seen is not None and key in seen:
        candidates = []
        rec.count("expression_only_views_shared_with_equal_expression_of_the_case")
    else:
        candidates = list(expression_views(stored))
        if seen is not None:
            seen.add(key)
    for label, rmod in reloaded.items():
        if not isinstance(rmod, Exception):
            candidates.append((label, True, lambda rmod=rmod: fetch(rmod, site)))
    for name, need_parent, thunk in candidates:
        try:
            view = thunk()
        except RecursionError:
            raise
        except Exception as exc:  # noqa: BLE001
            return name, ("view-exception", f"obtaining the view raised {type(exc).__name__}: {exc}"[:300], None, fresh_text)
        try:
            problem = judge_view(expected, stored, view, fresh_text, fresh_ok, need_parent, rec, modernized=name == "modernize")
        except RecursionError:
            raise
        except Exception as exc:  # noqa: BLE001
            problem = ("view-exception", f"rendering the view raised {type(exc).__name__}: {exc}"[:300], None, fresh_text)
        if problem:
            return name, problem
        # (a view of an expression that is itself refuted only shows the same observation again: counted apart)
        rec.count(f"view_checked[{name}]" if fresh_ok else f"view_of_refuted_fresh_expression[{name}]")
        if isinstance(view, Expr):
            if name in ("module_json_base", "module_json_full", "modernize"):
                problem = path_views_problem(view)
                if problem:
                    return name, problem
                rec.count("path_views_checked")
            if name == "module_json_base":
                for x in walk_expr(view):
                    rec.add_to_set("expr_classes_in_reloaded_views", type(x).__name__)
                    if isinstance(x, ExprParameter):
                        rec.add_to_set("parameter_kinds_in_reloaded_views", str(getattr(x.kind, "value", x.kind)))
    if isinstance(stored, Expr):
        problem = path_views_problem(stored)
        if problem:
            return "fresh", problem
        rec.count("path_views_checked")
    return None


# ---------------------------------------------------------------------------------------------------------------
# mechanism classifiers (D_hostile only)
def slots(node: ast.AST):  # noqa: ANN201
    """(child, parent, field, index) for every renderable unit directly below ``node``."""
    for field in node._fields:
        val = getattr(node, field, None)
        if isinstance(val, ast.arguments):
            for f2 in ("defaults", "kw_defaults"):
                for i, d in enumerate(getattr(val, f2)):
                    if d is not None:
                        yield d, val, f2, i
        elif isinstance(val, (ast.expr, ast.comprehension, ast.keyword)):
            yield val, node, field, None
        elif isinstance(val, list):
            for i, v in enumerate(val):
                if isinstance(v, (ast.expr, ast.comprehension, ast.keyword)):
                    yield v, node, field, i


def put(parent: ast.AST, field: str, index, new: ast.AST) -> None:  # noqa: ANN001
    if index is None:
        setattr(parent, field, new)
    else:
        getattr(parent, field)[index] = new


def minimal_failing(node: ast.AST, rec, slot=None):  # noqa: ANN001, ANN201
    """Post-order search for the smallest subtree that fails when rendered alone. Returns (node, slot) or None."""
    for child, parent, field, index in slots(node):
        found = minimal_failing(child, rec, (parent, field, index))
        if found:
            return found
    if slot is None:
        return None  # the root is judged by the caller
    problem, _ = standalone(node, rec)
    return (node, slot) if problem else None


PLACEHOLDER = "__vfk"


def _ph() -> ast.Name:
    return ast.Name(PLACEHOLDER, ast.Load())


def repair_grouping(n: ast.AST, log: list | None = None) -> bool:
    """Replace every direct low-precedence operand (looking through ``*x``) by a fresh name."""
    changed = False
    for child, parent, field, index in list(slots(n)):
        target = None
        if isinstance(child, LOWPREC):
            target = (parent, field, index, child)
        elif isinstance(child, ast.Starred) and isinstance(child.value, LOWPREC):
            target = (child, "value", None, child.value)
        if target:
            name = f"{PLACEHOLDER}{len(log) if log is not None else 0}__"
            if log is not None:
                log.append((name, target[3]))
            put(target[0], target[1], target[2], ast.Name(name if log is not None else PLACEHOLDER, ast.Load()))
            changed = True
    return changed


def grouping_explains(n: ast.AST, rendered: str | None, rec, root: bool) -> bool:  # noqa: ANN001
    """DESIGN predicate for grouping ("equal after deleting parentheses"), made independent of ast.unparse's spelling:
    with the low-precedence operands replaced by names the subtree renders correctly; putting the operands' own texts back
    *in parentheses* gives text that parses to the subtree, and putting them back *bare* gives what was rendered (up to
    parentheses)."""
    from _griffe.expressions import get_expression

    if rendered is None:
        return False
    log: list = []
    trial = clone(n)
    if not repair_grouping(trial, log):
        return False
    problem, text = standalone(trial, rec, as_root=root)
    if problem is not None or text is None:
        return False
    grouped = bare = text
    for name, child in log:
        try:
            child_text = str(get_expression(child, parent=host_module(), parse_strings=False))
        except Exception:  # noqa: BLE001
            return False
        if grouped.count(name) != 1:
            return False
        grouped = grouped.replace(name, "(" + child_text + ")")
        bare = bare.replace(name, child_text)
    # (compared modulo parentheses and blanks: below a subscript index the operand's own comprehension targets are rendered
    # `for k, v in` instead of `for (k, v) in`, see C03-subscript-tuple-leak)
    strip = str.maketrans("", "", "() ")
    if bare.translate(strip) != rendered.translate(strip):
        return False
    target = n if root and isinstance(n, ast.expr) else wrap(n)
    try:
        return canon(parse_back(grouped, isinstance(target, ast.Starred))) == canon(target)
    except (SyntaxError, ValueError, RecursionError, MemoryError):
        return False


def repair_dict_unpack(n: ast.AST) -> bool:
    if isinstance(n, ast.Dict) and any(k is None for k in n.keys):
        n.keys = [_ph() if k is None else k for k in n.keys]
        return True
    return False


def repair_lambda_markers(n: ast.AST) -> bool:
    if not isinstance(n, ast.Lambda):
        return False
    a = n.args
    changed = False
    if a.vararg is not None and a.kwonlyargs:
        a.vararg = None  # '*, k' is then the (correctly rendered) bare-star form
        changed = True
    if a.posonlyargs and not a.args:
        a.args, a.posonlyargs = a.posonlyargs, []  # slash only renders correctly in front of a regular parameter
        changed = True
    return changed


def repair_empty_tuple_index(n: ast.AST) -> bool:
    if isinstance(n, ast.Subscript) and isinstance(n.slice, ast.Tuple) and not n.slice.elts:
        n.slice = _ph()
        return True
    return False


def _tuple_leak_root(n: ast.AST) -> bool:
    """Parenthesised tuples below a subscript index (not the index itself) that are reached without crossing another
    tuple or subscript: `a[[(1, 2)]]`, `a[(1, 2):3]`, `a[b + (1, 2)]`.  Repair: replace them by a stand-in call `__vfk()`."""
    changed = False

    def walk(x: ast.AST) -> None:
        nonlocal changed
        if isinstance(x, ast.Subscript):
            return
        for child, parent, field, index in list(slots(x)):
            if isinstance(child, ast.Tuple) and isinstance(getattr(child, "ctx", None), ast.Store):
                continue  # comprehension target: `for k, v in x` is as good as `for (k, v) in x`
            if isinstance(child, ast.Tuple):
                # (the tuple itself renders correctly alone — it is smaller than N — so nothing is lost by replacing it; a list
                # display would pass the flag on to tuples the replaced tuple used to shield.  The stand-in `__vfk()` ends
                # with a parenthesis like the tuple did, so that a dict comprehension that only parses because its value ends
                # with punctuation — `{k: ()for z in x}` — keeps doing so.)
                put(parent, field, index, ast.Call(_ph(), [], []))
                changed = True
            else:
                walk(child)

    if isinstance(n, ast.Slice):  # rendered alone as `__s[<slice>]`
        walk(n)
        return changed
    if not isinstance(n, ast.Subscript) or isinstance(n.slice, ast.Tuple):
        return False
    walk(n.slice)
    return changed


def repair_fstring(n: ast.AST) -> bool:
    if isinstance(n, ast.FormattedValue):
        values = [n]
    elif isinstance(n, ast.JoinedStr):
        values = n.values
    else:
        return False
    changed = False
    for v in values:
        if isinstance(v, ast.Constant) and isinstance(v.value, str):
            if set(v.value) & FTEXT_TRIGGERS or not v.value.isprintable():
                v.value = "x"
                changed = True
        elif isinstance(v, ast.FormattedValue):
            if v.conversion != -1:
                v.conversion = -1
                changed = True
            if v.format_spec is not None:
                v.format_spec = None
                changed = True
            if contains(v.value, ast.JoinedStr) or _unparse(v.value).startswith("{"):
                v.value = _ph()
                changed = True
    return changed


def repair_int_attribute(n: ast.AST) -> bool:
    if isinstance(n, ast.Attribute) and isinstance(n.value, ast.Constant) and type(n.value.value) is int:
        n.value = _ph()
        return True
    return False


def repair_nonfinite(n: ast.AST) -> bool:
    if isinstance(n, ast.Constant) and isinstance(n.value, (float, complex)):
        v = n.value
        parts = [v] if isinstance(v, float) else [v.real, v.imag]
        if any(not math.isfinite(p) for p in parts):
            n.value = 1.5
            return True
    return False


def check_dictcomp_space(n: ast.AST, rec) -> bool:  # noqa: ANN001
    """The rendered text is exactly the template with the blank before the first 'for' missing."""
    from _griffe.expressions import ExprDictComp, get_expression

    if not isinstance(n, ast.DictComp):
        return False
    e = get_expression(n, parent=host_module(), parse_strings=False)
    if not isinstance(e, ExprDictComp):
        return False
    gens = " ".join(str(g) for g in e.generators)
    if str(e) != "{" + str(e.key) + ": " + str(e.value) + gens + "}":
        return False
    fixed = "{" + str(e.key) + ": " + str(e.value) + " " + gens + "}"
    try:
        return canon(parse_back(fixed, False)) == canon(n)
    except SyntaxError:
        return False


MECHANISMS = [
    ("C03-grouping", repair_grouping),
    ("C03-dict-unpack", repair_dict_unpack),
    ("C03-lambda-markers", repair_lambda_markers),
    ("C03-empty-tuple-index", repair_empty_tuple_index),
    ("C03-subscript-tuple-leak", _tuple_leak_root),
    ("C03-fstring-rendering", repair_fstring),
    ("C03-int-attribute", repair_int_attribute),
    ("C03-nonfinite-float", repair_nonfinite),
]
ALL_IDS = [m[0] for m in MECHANISMS] + ["C03-dictcomp-space", "C03-future-detection-by-member-name",
                                         "C03-unencodable-string-annotation"]


def classify_node(n: ast.AST, rec, root: bool):  # noqa: ANN001, ANN201
    """Which listed mechanism explains that ``n`` (whose parts all render correctly alone) does not?

    Returns (finding id | None, repaired copy | None).  A mechanism only matches when repairing *its* structural trigger
    on a copy makes the subtree render correctly (for grouping additionally: the texts differ in parentheses only).
    """
    _problem, rendered = standalone(n, rec, as_root=root)
    if isinstance(n, ast.DictComp):
        # every dict comprehension is hit; other triggers directly inside it are repaired first, then the template is checked
        trial = clone(n)
        for _fid, repair in MECHANISMS:
            repair(trial)
        if check_dictcomp_space(trial, rec):
            return "C03-dictcomp-space", _ph()
    if root and isinstance(n, ast.GeneratorExp) and rendered is not None:
        # a bare generator expression is only valid as the sole argument of a call: parentheses around it are all that is missing
        try:
            if canon(parse_back("(" + rendered + ")", False)) == canon(n):
                return "C03-grouping", _ph()
        except (SyntaxError, ValueError, RecursionError, MemoryError):
            pass
    triggered = []
    for fid, repair in MECHANISMS:
        trial = clone(n)
        if not repair(trial):
            continue
        triggered.append((fid, repair))
        problem, _ = standalone(trial, rec, as_root=root)
        if problem is None:
            if fid == "C03-grouping" and not grouping_explains(n, rendered, rec, root):
                continue
            return fid, trial
    if len(triggered) > 1:
        trial = clone(n)
        for _fid, repair in triggered:
            repair(trial)
        problem, _ = standalone(trial, rec, as_root=root)
        if problem is None:
            return triggered[0][0], trial
    return None, None


def explain(expected: ast.expr, rec):  # noqa: ANN001, ANN201
    """Explain a refutation by listed mechanisms; returns (list of finding ids, None) or (ids so far, unexplained problem)."""
    tree = clone(expected)
    holder = ast.Expression(tree)
    found: list[str] = []
    for _round in range(60):
        problem, _ = standalone(holder.body, rec, as_root=True)
        if problem is None:
            return found, None
        hit = minimal_failing(holder.body, rec)
        if hit:
            node, (parent, field, index) = hit
            fid, repaired = classify_node(node, rec, root=False)
        else:
            node, (parent, field, index) = holder.body, (holder, "body", None)
            if isinstance(node, ast.GeneratorExp) and standalone(node, rec, as_root=False)[0] is not None:
                fid, repaired = classify_node(node, rec, root=False)  # first what is wrong inside it, then its being bare
            else:
                fid, repaired = classify_node(node, rec, root=True)
        if fid is None:
            sub_problem, _ = standalone(node, rec, as_root=hit is None)
            return found, (sub_problem or problem, type(node).__name__, _unparse(wrap(node) if hit else node))
        found.append(fid)
        put(parent, field, index, repaired)
    # more than 60 separate defect sites in one expression: everything located so far was a listed mechanism; the rest of
    # the tree is not examined further (counted, so that the evidence shows how often this happens)
    if rec is not None:
        rec.count("explanation_round_budget_exhausted")
    return found, None


# ---------------------------------------------------------------------------------------------------------------
# module under visit
def future_in_effect(future) -> bool:  # noqa: ANN001
    return future not in (False, None, 0, "", "no")


def build_module(src: str, future, sites, starred: bool) -> str:  # noqa: ANN001
    lines = []
    if future == "aliased":
        lines.append("from __future__ import annotations as _vf_ann")
    elif future_in_effect(future):
        lines.append("from __future__ import annotations")
    lines.append(PRELUDE.rstrip("\n"))
    if future == "shadowed":
        lines.append("annotations = 0")
    e = src if starred else "(" + src + ")"
    if "value" in sites:
        lines.append(f"v_site = {e}")
    if "annotation" in sites:
        lines.append(f"a_site: {e}")
    params = []
    if "default" in sites:
        params.append(f"p_default={e}")
    if "param_annotation" in sites:
        params.append(f"p_ann: {e} = 0")
    ret = f" -> {e}" if "returns" in sites else ""
    if params or ret:
        lines.append(f"def f({', '.join(params)}){ret}: ...")
    if "decorator" in sites:
        lines.append(f"@{e}\ndef g(): ...")
    if "class_decorator" in sites:
        lines.append(f"@{e}\nclass D: ...")
    if {"base", "class_value", "class_annotation", "method_default", "instance_value"} & set(sites):
        lines.append(f"class C({e}):" if "base" in sites else "class C:")
        body = []
        if "class_value" in sites:
            body.append(f"    cv_site = {e}")
        if "class_annotation" in sites:
            body.append(f"    ca_site: {e}")
        if "method_default" in sites:
            body.append(f"    def meth(self, mp_default={e}): ...")
        if "instance_value" in sites:
            body.append(f"    def __init__(self):\n        self.iv_site = {e}")
        lines.extend(body or ["    ..."])
    return "\n".join(lines) + "\n"


def fetch(mod, site: str):  # noqa: ANN001, ANN201
    m = mod.members
    if site == "value":
        return m["v_site"].value
    if site == "annotation":
        return m["a_site"].annotation
    if site == "default":
        return m["f"].parameters["p_default"].default
    if site == "param_annotation":
        return m["f"].parameters["p_ann"].annotation
    if site == "returns":
        return m["f"].returns
    if site == "decorator":
        decs = m["g"].decorators
        return decs[0].value if decs else None
    if site == "class_decorator":
        decs = m["D"].decorators
        return decs[0].value if decs else None
    if site == "base":
        bases = m["C"].bases
        return bases[0] if bases else None
    if site == "class_value":
        return m["C"].members["cv_site"].value
    if site == "class_annotation":
        return m["C"].members["ca_site"].annotation
    if site == "method_default":
        return m["C"].members["meth"].parameters["mp_default"].default
    if site == "instance_value":
        return m["C"].members["iv_site"].value
    raise KeyError(site)


def coverage(ref: ast.expr, rec) -> tuple[int, int]:  # noqa: ANN001
    classes = set()
    for n in ast.walk(ref):
        if isinstance(n, ast.expr_context):
            continue
        name = type(n).__name__
        if isinstance(n, (ast.operator, ast.unaryop, ast.boolop, ast.cmpop)):
            rec.add_to_set("operators_covered", name)
            continue
        if isinstance(n, ast.arguments) or isinstance(n, ast.arg):
            continue
        classes.add(name)
        rec.add_to_set("node_classes_covered", name)
        for child, parent, field, _i in slots(n):
            rec.add_to_set("operand_positions_covered", f"{name}.{field}<-{type(child).__name__}")
    return tree_depth(ref), len(classes)


def run_case(rec, src: str, future, domain: str, sites=None, workload: str = "grammar", views: bool = True) -> None:  # noqa: ANN001, C901, PLR0912, PLR0915
    """Judge one source expression at the given sites (default: all); ``views``: also through every other view of it."""
    host_module()
    try:
        ref = parse_expr_text(src)
    except Unusable as exc:
        rec.skip("generated text does not parse")
        rec.note(f"unusable source {src[:80]!r}: {exc}")
        return
    starred = isinstance(ref, ast.Starred)
    want_sites = list(sites) if sites else list(SITES)
    if starred:
        want_sites = [s for s in want_sites if s == "base"] or ["base"]
    info = StringInfo(ref)
    unsupported = contains(ref, ast.Await)
    if unsupported and "class_decorator" in want_sites and len(want_sites) > 1:
        want_sites.remove("class_decorator")  # Decorator(None) crashes decorators_to_labels: not this property's subject
    depth, nclasses = coverage(ref, rec)
    nontrivial = depth >= 2 and nclasses >= 2
    case_all = {"site": "*" if not sites else ",".join(want_sites), "source": src, "future": future, "domain": domain}
    rec.count(f"{domain}_domain_expressions")
    code = build_module(src, future, want_sites, starred)
    try:
        with case_watchdog(60):
            try:
                mod = visit_source(code, "m")
            except AttributeError as exc:
                # `Decorator.callable_path` / `Expr.is_classvar` raise on an expression in which a *constant is called*
                # (`None(0)[x]`): the visitor aborts and stores nothing, so the property is vacuous there.  Sites are retried
                # one by one; a crash is only excused when that trigger is present.
                if "canonical_path" not in str(exc) or not called_constant(ref):
                    raise
                survivors = []
                for site in want_sites:
                    try:
                        visit_source(build_module(src, future, [site], starred), "m")
                        survivors.append(site)
                    except AttributeError:
                        rec.count("visitor_aborted_on_called_constant_not_judged")
                rec.note(f"visitor raises {exc!r} on `{src[:100]}` (called constant; nothing stored at the crashing sites)")
                if not survivors:
                    return
                want_sites = survivors
                mod = visit_source(build_module(src, future, want_sites, starred), "m")
    except Exception as exc:  # noqa: BLE001
        rec.fail_exc(case_all, "visiting the generated module raised", exc, nontrivial=nontrivial)
        return
    in_effect = future_in_effect(future)
    detected = bool(mod.imports_future_annotations)
    problems: dict = {}   # finding id or None (fresh expression) / ("view", finding id or None) -> (site, problem, tried)
    seen_views: set = set()
    reloaded: dict = {}   # view -> module decoded from the dump of `mod` (or the exception that prevented it)
    if views:
        rec.count("cases_judged_through_all_views")
    for label, full in MODULE_VIEWS.items() if views else ():
        try:
            with case_watchdog(60):
                reloaded[label] = reload_module(mod, full)
                if label == "module_json_twice":  # a decoded tree is dumped and decoded again
                    reloaded[label] = reload_module(reloaded[label], full)
            rec.count("module_reloads")
        except RecursionError:
            raise
        except Exception as exc:  # noqa: BLE001
            reloaded[label] = exc
            vproblem = ("view-exception", f"view {label}: dumping and reloading the visited module raised {type(exc).__name__}: {exc}"[:300],
                        None, "a module")
            vfid = None if domain == "clean" else classify_view(label, vproblem, None, None)
            problems.setdefault(("view", vfid), ("*", vproblem, list(VIEW_IDS)))
    cache: dict = {}      # tree identity -> [text rendered alone, explanation]

    def alone(tree: ast.expr) -> list:
        key = canon(tree)
        if key not in cache:
            cache[key] = [standalone(tree, rec, as_root=True)[1], None]
        return cache[key]

    for site in want_sites:
        rec.add_to_set("sites_covered", site)
        try:
            stored = fetch(mod, site)
        except Exception as exc:  # noqa: BLE001
            problems.setdefault(None, (site, ("fetch", f"stored expression not reachable: {exc!r}", None, None), []))
            continue
        ann = site in ANN_SITES
        parse_strings = ann and not in_effect
        expected, nparsed = expected_tree(ref, parse_strings)
        if contains(expected, ast.Await):
            rec.count("unsupported_node_not_judged")
            if stored is not None:
                rec.count("unsupported_node_but_something_stored")
            continue
        if parse_strings and (info.corner or info.nested):
            rec.count("annotation_site_not_judged_unspecified_string_position")
            continue
        rec.count("site_judgements")
        if stored is None:
            problem = ("none", "nothing stored for an expression made of supported nodes only", None, _unparse(expected))
        else:
            problem = judge(expected, stored, rec, memo=True)
            refuted_view = check_views(expected, stored, problem is None, site, reloaded, rec, seen_views) if views else None
            if refuted_view:
                vname, vproblem = refuted_view
                vfid = None if domain == "clean" else classify_view(vname, vproblem, expected, stored)
                vproblem = (vproblem[0], f"view {vname}: {vproblem[1]}", vproblem[2], vproblem[3])
                problems.setdefault(("view", vfid), (site, vproblem, list(VIEW_IDS)))
        if problem is None:
            if info.plain or info.in_literal:
                cell = f"strings[future={int(in_effect)},site={site}]"
                if info.plain:
                    rec.count(cell + " outside Literal", info.plain)
                if info.in_literal:
                    rec.count(cell + " inside Literal", info.in_literal)
                if parse_strings:
                    rec.count("string_parsed_as_code_checked", nparsed)
                    rec.count("string_unparsable_kept_literal_checked", info.plain - nparsed)
                    rec.count("string_literal_inside_Literal_checked", info.in_literal)
                elif ann:
                    rec.count("string_literal_under_future_checked", info.plain + info.in_literal)
                else:
                    rec.count("string_literal_non_annotation_site_checked", info.plain + info.in_literal)
            continue
        # ---- refuted ------------------------------------------------------------------------------------------
        if domain == "clean":
            problems.setdefault(None, (site, problem, []))
            continue
        tried = list(ALL_IDS)
        fid = None
        if stored is None:
            if parse_strings and uncompilable_string(ref):
                fid = "C03-unencodable-string-annotation"
            elif ann and in_effect and not detected and contains(expected_tree(ref, True)[0], ast.Await):
                fid = "C03-future-detection-by-member-name"  # a string was parsed (it must not be) and holds an unsupported node
        else:
            text = str(stored)
            if ann and in_effect and not detected:
                # the future import is in effect but the loader does not see it: strings were parsed although they must not be
                alt, n_alt = expected_tree(ref, True)
                if n_alt and alone(alt)[0] == text:
                    fid = "C03-future-detection-by-member-name"
            if fid is None:
                entry = alone(expected)
                if entry[0] is not None and entry[0] != text:
                    problem = ("strings", "stored expression differs from the one built from the expected (string-substituted) "
                               "tree: " + problem[1], problem[2], problem[3])
                else:
                    if entry[1] is None:
                        entry[1] = explain(expected, rec)
                    ids, rest = entry[1]
                    if rest is None and ids:
                        fid = ids[0]
                        for extra in ids[1:]:
                            rec.count(f"co-occurring:{extra}")
                    elif rest is not None:
                        sub_problem, cls, text2 = rest
                        problem = (sub_problem[0], f"{problem[1]} — unexplained at subtree {cls} `{text2[:120]}`: {sub_problem[1]}",
                                   problem[2], problem[3])
        problems.setdefault(fid, (site, problem, tried))
    if not problems:
        tags = [f"domain:{domain}", f"workload:{workload}", f"future:{future}"]
        rec.ok(case_all, nontrivial=nontrivial, tags=tags, dig=digest(f"{src}|{future}"))
        return
    for key, (site, problem, tried) in problems.items():
        fid = key[1] if isinstance(key, tuple) else key
        case = {"site": site, "source": src, "future": future, "domain": domain}
        rec.fail(case, f"[{site}] {problem[1]}", observed=problem[2], expected=problem[3], finding=fid, nontrivial=nontrivial,
                 tags=(f"domain:{domain}", f"refuted:{problem[0]}"), tried=tried)


# ---------------------------------------------------------------------------------------------------------------
# shards
def shards(tier: str, seed: int) -> list[dict]:
    if tier == "quick":
        n_gen, n_str, depth = 400, 300, 3
    else:
        n_gen, n_str, depth = 20000, 15000, 5
    # the other views of each stored expression (JSON round trips, ...) cost about three times the fresh judgement: every case in
    # the quick tier, every fourth case (by index) in the thorough tier — still 12 times the quick tier's number
    every = 1 if tier == "quick" else 4
    out = []
    for i in range(12):
        out.append({"kind": "grammar", "domain": "clean" if i % 2 == 0 else "hostile", "count": n_gen, "depth": depth, "views_every": every})
    for i in range(4):
        out.append({"kind": "strings", "domain": "clean" if i % 2 == 0 else "hostile", "count": n_str, "depth": 3 if tier == "quick" else 4,
                    "views_every": every})
    return out


def forced_future(info: StringInfo, future):  # noqa: ANN001, ANN201
    """Positions the statement is silent about are only generated with postponed evaluation on (strings stay literal)."""
    if (info.corner or info.nested) and not future_in_effect(future):
        return True
    return future


def gen_source(tree: ast.expr):  # noqa: ANN201
    try:
        return ast.unparse(tree)
    except Exception:  # noqa: BLE001
        return None


def run_shard(spec: dict, rec) -> None:  # noqa: ANN001
    rng = random.Random(spec["seed"])
    clean = spec["domain"] == "clean"
    every = max(1, int(spec.get("views_every", 1)))
    host_module()
    for b in BINOPS + UNARYOPS + BOOLOPS + CMPOPS:
        rec.add_to_set("operators_in_grammar", b.__name__)
    if spec["kind"] == "grammar":
        # triggers of findings whose status became `fixed` re-enter D_clean (where no classifier is consulted)
        fixed = frozenset(fid for fid, f in known_findings().items()
                          if f.get("property") == PROP and str(f.get("status", "")).startswith("fixed"))
        for fid in sorted(fixed):
            rec.note(f"D_clean widened: trigger of fixed finding {fid} is generated in the clean domain")
        gen = ExprGen(rng, clean=clean, fixed=fixed)
        for index in range(spec["count"]):
            depth = rng.randint(1, spec["depth"])
            src = gen_source(gen.top(depth))
            if src is None:
                rec.skip("ast.unparse refused the generated tree")
                continue
            future = rng.random() < 0.5
            try:
                info = StringInfo(parse_expr_text(src))
            except Unusable:
                rec.skip("generated text does not parse")
                continue
            f2 = forced_future(info, future)
            if f2 is not future:
                rec.count("future_forced_on_for_unspecified_string_position")
            run_case(rec, src, f2, spec["domain"], workload="grammar", views=index % every == 0)
    else:
        for index in range(spec["count"]):
            gen = StringAnnGen(rng, clean=clean)
            src = gen_source(gen.typ(rng.randint(1, spec["depth"])))
            if src is None:
                rec.skip("ast.unparse refused the generated tree")
                continue
            k = rng.random()
            future = False if k < 0.5 else True if (clean or k < 0.9) else rng.choice(["aliased", "shadowed"])
            try:
                info = StringInfo(parse_expr_text(src))
            except Unusable:
                rec.skip("generated text does not parse")
                continue
            f2 = forced_future(info, future)
            if f2 is not future:
                rec.count("future_forced_on_for_unspecified_string_position")
            run_case(rec, src, f2, spec["domain"], workload="strings", views=index % every == 0)


def run_replay(inp: dict, rec) -> None:  # noqa: ANN001
    site = inp.get("site", "*")
    sites = None if site in ("*", None, "") else [s for s in site.split(",") if s in SITES]
    run_case(rec, inp["source"], inp.get("future", False), inp.get("domain", "hostile"), sites=sites, workload="replay")


def run_pinned(findings: list[dict], rec) -> dict:  # noqa: ANN001
    from vf.core.rec import Recorder

    out = {}
    for f in findings:
        sub = Recorder(PROP, {})
        w = dict(f["witness"])
        w["domain"] = "hostile"
        try:
            run_replay(w, sub)
        except Exception as exc:  # noqa: BLE001
            out[f["id"]] = {"reproduced": False, "detail": f"replay raised {exc!r}"}
            continue
        if f["id"] in sub.known:
            out[f["id"]] = {"reproduced": True, "detail": sub.known[f["id"]]["first"]["what"]}
        elif sub.n_fail:
            hit = [x for x in sub.fails if x["classifier"]["matched"] == f["id"]]
            out[f["id"]] = {"reproduced": bool(hit) or f.get("status") != "known",
                            "detail": (hit or sub.fails)[0]["what"] + ("" if hit else " (fails, but not by this mechanism)")}
        else:
            other = ", ".join(sub.known) or "passes"
            out[f["id"]] = {"reproduced": False, "detail": other}
    return out
