"""C14 — Module discovery matches the import system, independent of listing order.

Workload: generated file trees over 2-3 search paths (+ directories added by ``.pth`` files):
regular / nested / namespace packages, portions of one namespace spread over paths, legacy
(pkgutil / pkg_resources-style) namespace packages whose ``__init__.py`` extends ``__path__`` (top-level
and nested, five spellings of the declaration, declarations that are only mentioned), ``.pyi``
siblings, ``__init__.pyi``-only directories, ``-stubs`` packages, compiled-looking file names,
``__pycache__``, non-module files, extension-less files named like packages, same names as file and
directory and across paths.

Oracle (M-REF): a fresh CPython child (``python -I -S``) whose ``sys.path`` starts with the search
paths (``site.addsitedir`` for every search path when ``.pth`` files are present):
``importlib.util.find_spec`` for every dotted name derivable from the tree, ``pkgutil.walk_packages``
for the *imported* requested package (its ``__path__`` after import, so that an executed
``pkgutil.extend_path`` counts; the call itself is observed through a wrapper in the child).  Generated
modules are empty or hold one constant and/or such a declaration, so importing them is harmless.

M-INJ-LS: every load is repeated under K directory-listing orders (``vf.mon.listing``); the
canonical JSON (``as_json(full=True, sort_keys=True)``, file paths included) must be identical for
all orders and for by-name / by-path requests.

By-path requests: the top-level directory (every portion), and up to 4 + 2 paths per tree of module files /
sub-package directories (top-level single-file module, ``pkg/__init__.py``, ``pkg/sub/mod.py``, members of
namespace portions, stub-only files, stubs next to sources, nested namespace directories), inside the
search paths and with their search path removed, spelled as absolute / relative ``Path`` / ``str``; plus one
path that does not exist.  Expected: the object at the dotted name CPython imports from that file, and
the same tree as the by-name load.
"""
from __future__ import annotations

import json
import keyword
import os
import random
import re
import shutil
import subprocess
import sys
import tempfile
import traceback
from pathlib import Path

from vf.core.util import case_watchdog
from vf.mon import listing

PROP = "C14"
LEVEL = "exploration"
ANCHORS = ["finder.py", "loader.py"]
RULE = ("seeded random file trees: 2-3 search paths (+0-2 directories reached through .pth files); per path the requested "
        "name 'pkg' is absent / regular package / namespace portion / legacy namespace portion (__init__.py holding a "
        "pkgutil.extend_path declaration in one of five spellings, with or without a pkg_resources try-branch, or only "
        "mentioning it in a comment/string) / module file / file+directory / extension-less file / "
        "__init__.pyi-only directory, optionally with a pkg-stubs package; 15% of the trees are built mostly from legacy "
        "namespace portions; sub-packages declare a legacy namespace too in half of the trees; package directories are filled recursively "
        "(depth<=3) from the names {a,b,sub} plus 0-2 names per tree that are no identifiers or are keywords but importable "
        "(hyphen, leading digit, keyword, spaces, punctuation, non-ASCII, __main__, upper-case twin) in 1-3 forms each (x.py, x.pyi, x/ with and without __init__.py, "
        "x.cpython-312-x86_64-linux-gnu.so, x.abi3.so, x.so, x.pyd, x.pyc, x.cpython-312.pyc, x.pyo, extension-less x, "
        "x.txt, x.y.py, x.y.pyi, ...) plus __pycache__, hidden and dotted directories, data files; 40% of the trees get 1-3 symbolic "
        "links (directory links to packages / namespace directories outside every search path, into another portion, whole "
        "top-level portions, chains, absolute targets, inside linked directories and inside pkg-stubs; file links module->module, "
        "__init__.py->other name, module->some __init__.py, stubs, chains; dangling links; a self-cycle); in half of the trees a "
        "part of one path's entries is repeated in a later path so that equal names of equal form meet across paths. Each "
        "tree is loaded under K listing orders by name and by path. distinct = digest of the tree; non-trivial = >=2 search "
        "paths and >=1 dotted name provided by >=2 different file-system entries")
LEVEL_TEXT = ("Each generated tree is written to disk once; CPython (fresh child, sys.path = the search paths) gives "
              "find_spec for every dotted name the tree can spell, the __path__ of every imported package and "
              "pkgutil.walk_packages over the imported package's __path__; the real "
              "GriffeLoader loads it under K injected directory-listing orders (all orders of every directory with <=3 "
              "entries in quick, <=4 in thorough), by dotted name and by directory path. Judged: every loaded module "
              "against CPython's spec (origin file, package / namespace / module kind, the five classification "
              "properties), every walker result against the loaded tree, byte-identical canonical JSON across orders "
              "and request styles; module-file / sub-directory paths (4 inside + 2 outside the search paths per tree, "
              "four spellings) must give the object at the dotted name CPython imports from that file and the by-name tree.")
LEVEL_NOTE = ("trusted: CPython 3.12 importlib/pkgutil/site as reference; compiled-extension files are fakes, so for them "
              "'loaded' is observed as 'the loader was handed that file at that dotted name' (wrapper on "
              "GriffeLoader._load_module_path) with inspection disabled; os.walk lists a directory's files before its "
              "sub-directories, an order no file system can change, so it is not permuted")
TECHNIQUE = ("runtime monitoring: differential oracle against CPython's import system in a child process + injected "
             "directory-listing orders (os.walk / Path.iterdir / os.listdir / os.scandir wrappers) + load-attempt recorder")
REQUIRED_COUNTERS = ["trees_judged", "loaded_modules_checked_against_find_spec", "walker_modules_checked",
                     "classification_checks", "permutations_compared", "by_path_compared", "listings_permuted",
                     "first_path_wins_checked", "compiled_names_checked", "namespace_packages_checked",
                     "stub_only_modules_checked", "pth_trees_judged", "file_spells_name_checked",
                     "by_path_outside_search_paths_compared", "legacy_namespace_packages_checked",
                     "legacy_namespace_multi_portion_checked", "walker_modules_in_later_portion_checked",
                     "walker_modules_in_later_legacy_portion_checked", "by_file_path_requests", "by_file_path_trees_compared",
                     "by_file_path_toplevel_module_file", "by_file_path_submodule_file", "by_file_path_stub_only_file",
                     "by_file_path_in_namespace_package", "by_file_path_outside_search_paths", "by_file_path_missing_checked",
                     "by_file_path_file_next_to_same_named_link",
                     "loaded_modules_with_unusual_name_checked", "walker_unusual_names_checked",
                     "walker_unusual_package_names_checked", "walker_modules_below_unusual_package_checked",
                     "link_trees_judged", "walker_modules_through_directory_link_checked", "walker_modules_from_file_link_checked",
                     "walker_packages_with_linked_init_checked", "classification_through_directory_link_checked",
                     "classification_init_link_to_other_name_checked", "classification_module_link_to_init_checked",
                     "namespace_portions_through_link_checked", "loaded_stub_files_through_or_from_link_checked"]
EXHAUSTIVE = {"quick": False, "thorough": False}
ASSUMPTIONS = ["symbolic links: CPython follows them everywhere and goes by the LINK's name (spec.origin and __path__ keep the link "
               "path); Griffe's file paths are compared as spelled, links not resolved (the tree's root is a real path). A name the "
               "walker lists only because a dangling / looping link is named like a module is not a module (CPython cannot import "
               "it). A self-cycle (d/loop -> .) repeats a small directory until the kernel's limit of 40 links per path; both sides "
               "stop there. Requests BY PATH that lead through a link are not judged (x.py next to a link named x is: no link on its way): which dotted "
               "name such a path has is not said by the statement (the finder names it after the link's target)",
               "legacy namespace packages: the reference child has no pkg_resources, so every generated declaration reaches "
               "pkgutil.extend_path (directly or in the except-ImportError branch); bare pkg_resources declarations and "
               "<name>.pkg files are not generated. Whether such a package is *called* package or namespace package is not "
               "judged (Griffe: namespace package, CPython: regular package with an extended __path__); its portions, the "
               "files of its modules and the walker's result are",
               "CPython 3.12 on Linux is the reference: .pyd/.pyo and foreign-ABI .so names are not modules there",
               "fake compiled files: discovery is judged at the level of (dotted name, file) handed to the loader",
               "a compiled/bytecode file and a source file with the same stem in one directory: which of the two "
               "represents the module is not judged (Griffe is a static analyser and inspection is off), only that the "
               "dotted name is present and the result is order-independent",
               ".pth files: only absolute directory lines, comments and blank lines, placed in search paths; every search "
               "path is treated as a site directory (site.addsitedir) by the reference",
               "'requested by path': the top-level directory, and (widening the statement's wording to what load() documents: 'file "
               "path to a module') the file of any module / the directory of any sub-package or nested namespace package that "
               "names ONE module unambiguously: CPython imports that dotted name from that very file (or it is a stub-only "
               "module / the stub next to such a file); the request is spelled as absolute or relative Path or str. Expected: "
               "the object at that dotted path and the same tree as the by-name load; a path that does not exist: "
               "FileNotFoundError (Path) / ModuleNotFoundError (str) as documented. <name>-stubs directories and dotted file "
               "names given as path are outside the statement",
               "a file outside every search path: its top-level package is the topmost directory of the unbroken chain of "
               "__init__.py directories above it (the parent of that directory acts as search path, CPython's own script / "
               "pytest rootdir convention); a file in a directory without __init__.py is its own top-level module. Checked "
               "against load(name) with that directory put first on the search paths (and CPython's spec there)",
               "a stub-only module is accepted where CPython has no source module of that name (or only a module the "
               "package walker does not reach); nested namespace packages: Griffe's portions must be among CPython's",
               "as_json(full=True) is taken with the tree's parent as working directory, and falls back to the base dump "
               "when relative_package_filepath raises for -stubs modules (serialisation, not discovery)"]
SHARD_TIMEOUT = {"quick": 600, "thorough": 3600}

TOP = "pkg"
SO = ".cpython-312-x86_64-linux-gnu.so"
FORMS = [("py", 9), ("pyi", 3), ("regdir", 5), ("nsdir", 3), ("stubdir", 1), ("so", 2), ("abi3so", 1), ("plainso", 1),
         ("oldso", 1), ("pyd", 1), ("winpyd", 1), ("pyc", 2), ("pyctag", 1), ("pyo", 1), ("noext", 1), ("txt", 1),
         ("dotted", 1), ("dottedpyi", 1), ("bak", 1)]
DIRFORMS = {"regdir", "nsdir", "stubdir"}
FILE_OF_FORM = {"py": "{n}.py", "pyi": "{n}.pyi", "so": "{n}" + SO, "abi3so": "{n}.abi3.so", "plainso": "{n}.so",
                "oldso": "{n}.cpython-39-x86_64-linux-gnu.so", "pyd": "{n}.pyd", "winpyd": "{n}.cp312-win_amd64.pyd",
                "pyc": "{n}.pyc", "pyctag": "{n}.cpython-312.pyc", "pyo": "{n}.pyo", "noext": "{n}", "txt": "{n}.txt",
                "dotted": "{n}.y.py", "dottedpyi": "{n}.y.pyi", "bak": "{n}.py.bak"}
FAKE = "\x7fELF fake, never loaded\n"
# Legacy ("pkg-style") namespace declarations: source text of an ``__init__.py`` that makes CPython extend the package's
# ``__path__`` over every same-named directory of the parent's search path when the package is imported.  All variants are
# executable in the reference child (which has no pkg_resources: the try/except variants fall back to pkgutil there).
PKGUTIL_LINE = "__path__ = __import__({q}pkgutil{q}).extend_path(__path__, __name__)\n"
PKGRES_LINE = "__import__({q}pkg_resources{q}).declare_namespace(__name__)\n"
DECLARATIONS = [
    ("pkgutil-inline", 6, PKGUTIL_LINE),
    ("pkgres-or-pkgutil-inline", 2, "try:\n    " + PKGRES_LINE + "except ImportError:\n    " + PKGUTIL_LINE),
    ("pkgres-or-pkgutil-imported", 1, "try:\n    " + PKGRES_LINE + "except ImportError:\n    from pkgutil import extend_path\n"
                                      "    __path__ = extend_path(__path__, __name__)\n"),
    ("pkgutil-imported", 2, "from pkgutil import extend_path\n__path__ = extend_path(__path__, __name__)\n"),
    ("pkgutil-attribute", 1, "import pkgutil\n__path__ = pkgutil.extend_path(__path__, __name__)\n"),
]


# ------------------------------------------------------------------------------------------
# generator
def _content(rng: random.Random, rel: str) -> str:
    if rel.endswith(".py"):
        return f"WHERE = {rel!a}\n" if rng.random() < 0.75 else ""
    if rel.endswith(".pyi"):
        return "WHERE: str\n" + ("STUB_ONLY: int\n" if rng.random() < 0.5 else "")
    if rel.endswith((".txt", ".md", ".json", ".typed", ".bak")):
        return "data\n"
    return FAKE


def _declaration(rng: random.Random, rel: str) -> str:
    """Source of an ``__init__.py`` that declares a legacy namespace package (optionally with code around the declaration)."""
    _names, weights, texts = zip(*DECLARATIONS)
    text = rng.choices(texts, weights)[0].format(q=rng.choice(["'", "'", '"']))
    if rng.random() < 0.07:
        # decoy: the literal declaration is only mentioned (comment / string), CPython executes nothing: a regular package
        line = PKGUTIL_LINE.format(q="'")
        text = rng.choice(["# " + line, f"NOTE = {line.strip()!r}\n", '"""Formerly:\n\n    ' + line + '"""\n'])
    r = rng.random()
    if r < 0.25:
        text = f"# namespace package\nWHERE = {rel!a}\n" + text
    elif r < 0.4:
        text += f"WHERE = {rel!a}\n"
    return text


def declares_namespace(content: str) -> bool:
    """Input structure only: the source calls extend_path (all generated declarations do)."""
    return "extend_path(__path__, __name__)" in content


def _pick_forms(rng: random.Random, n: int) -> list[str]:
    names, weights = zip(*FORMS)
    out: list[str] = []
    for _ in range(20):
        if len(out) >= n:
            break
        f = rng.choices(names, weights)[0]
        if f in out:
            continue
        if f in DIRFORMS | {"noext"} and any(x in DIRFORMS | {"noext"} for x in out):
            continue
        out.append(f)
    return out


# Names of files and directories that are not identifiers (or are keywords) yet importable: CPython's path finder joins
# the name to the directory, pkgutil lists every name without a dot - neither asks whether `import <name>` could be
# written.  What the reference child really finds decides; this pool only proposes spellings.
UNUSUAL_NAMES = ["my-plugin", "2fa", "class", "import", "None", "with space", "trail ", " lead", "-dash", "a+b", "x@y", "~tmp",
                 "$var", "\u00fcn\u00ef", "caf\u00e9-au-lait", "\u65e5\u672c \u8a9e", "\u2603", "A", "__main__", "__dunder__", "a'b", "x=1", "(p)", "%41"]
_EXTRA_NAMES: tuple = ()        # the unusual names of the tree being generated (set by gen_case)


def unusual(component: str) -> bool:
    return not component.isidentifier() or keyword.iskeyword(component)


def gen_dir(rng: random.Random, files: dict, dirs: list, rel: str, depth: int, stubs_only: bool = False,
            legacy_sub: float = 0.0) -> None:
    """Fill directory ``rel`` (already decided to be package-like) with children."""
    present = 0.62 if depth <= 1 else 0.45
    for name in ("a", "b", "sub") + _EXTRA_NAMES:
        if rng.random() > present:
            continue
        forms = _pick_forms(rng, rng.choice([1, 1, 1, 2, 2, 3]))
        if stubs_only:
            forms = [{"py": "pyi", "regdir": "stubdir"}.get(f, f) for f in forms]
            forms = list(dict.fromkeys(forms))
        for form in forms:
            if form in DIRFORMS:
                sub = f"{rel}/{name}"
                if form == "regdir":
                    # (a sub-package can declare itself a legacy namespace too: its portions are then the same-named
                    # directories of all portions of the parent)
                    files[f"{sub}/__init__.py"] = (_declaration(rng, f"{sub}/__init__.py") if rng.random() < legacy_sub
                                                   else _content(rng, f"{sub}/__init__.py"))
                    if rng.random() < 0.2:
                        files[f"{sub}/__init__.pyi"] = _content(rng, f"{sub}/__init__.pyi")
                elif form == "stubdir":
                    files[f"{sub}/__init__.pyi"] = _content(rng, f"{sub}/__init__.pyi")
                if depth < 3 and rng.random() < 0.85:
                    before = len(files)
                    gen_dir(rng, files, dirs, sub, depth + 1, stubs_only, legacy_sub)
                    if len(files) == before and form == "nsdir":
                        if rng.random() < 0.5:
                            files[f"{sub}/x.py"] = _content(rng, f"{sub}/x.py")
                        else:
                            dirs.append(sub)
                elif form == "nsdir":
                    if rng.random() < 0.6:
                        files[f"{sub}/x.py"] = _content(rng, f"{sub}/x.py")
                    elif rng.random() < 0.5:
                        files[f"{sub}/notes.txt"] = "data\n"
                    else:
                        dirs.append(sub)
            else:
                p = f"{rel}/" + FILE_OF_FORM[form].format(n=name)
                files[p] = _content(rng, p)
    r = rng.random()
    if r < 0.35:
        files[f"{rel}/__pycache__/a.cpython-312.pyc"] = FAKE
        files[f"{rel}/__pycache__/__init__.cpython-312.pyc"] = FAKE
        if rng.random() < 0.5:
            files[f"{rel}/__pycache__/zz.cpython-312.pyc"] = FAKE
    if rng.random() < 0.15:
        files[f"{rel}/README.md"] = "data\n"
    if rng.random() < 0.1:
        files[f"{rel}/py.typed"] = ""
    if rng.random() < 0.08:
        files[f"{rel}/.hid/h.py"] = ""
    if rng.random() < 0.08:
        files[f"{rel}/v1.2/w.py"] = ""


TOPFORMS = [("none", 2), ("regular", 5), ("namespace", 5), ("module", 2), ("dir+module", 1), ("ns+module", 1),
            ("ghost", 1), ("stubinit", 1), ("module+pyi", 1), ("legacyns", 2)]


def gen_top(rng: random.Random, files: dict, dirs: list, base: str, form: str, legacy_sub: float = 0.0) -> None:
    d = f"{base}/{TOP}"
    if form in ("regular", "dir+module"):
        files[f"{d}/__init__.py"] = _content(rng, f"{d}/__init__.py")
        if rng.random() < 0.2:
            files[f"{d}/__init__.pyi"] = _content(rng, f"{d}/__init__.pyi")
        gen_dir(rng, files, dirs, d, 1, legacy_sub=legacy_sub)
    if form == "legacyns":
        # a portion of a legacy namespace package: a directory whose __init__.py declares the namespace
        files[f"{d}/__init__.py"] = _declaration(rng, f"{d}/__init__.py")
        gen_dir(rng, files, dirs, d, 1, legacy_sub=legacy_sub)
    if form in ("namespace", "ns+module"):
        before = len(files)
        gen_dir(rng, files, dirs, d, 1, legacy_sub=legacy_sub)
        if len(files) == before:
            if rng.random() < 0.7:
                files[f"{d}/a.py"] = _content(rng, f"{d}/a.py")
            else:
                dirs.append(d)
    if form == "stubinit":
        files[f"{d}/__init__.pyi"] = _content(rng, f"{d}/__init__.pyi")
        gen_dir(rng, files, dirs, d, 2, stubs_only=rng.random() < 0.7)
    if form in ("module", "dir+module", "ns+module", "module+pyi"):
        files[f"{base}/{TOP}.py"] = _content(rng, f"{base}/{TOP}.py")
    if form == "module+pyi":
        files[f"{base}/{TOP}.pyi"] = _content(rng, f"{base}/{TOP}.pyi")
    if form == "ghost":
        files[f"{base}/{TOP}"] = "not a directory\n"


def _can_add(files: dict, dirs: list, target: str) -> bool:
    if target in files or target in dirs:
        return False
    parts = target.split("/")
    if any("/".join(parts[:i]) in files for i in range(1, len(parts))):
        return False        # a parent is a file
    return not any(k.startswith(target + "/") for k in list(files) + list(dirs))      # the target is a directory


def gen_case(rng: random.Random, perms: int) -> dict:
    nsp = rng.choice([2, 2, 3])
    search = [f"sp{i}" for i in range(nsp)]
    files: dict[str, str] = {}
    dirs: list[str] = []
    names, weights = zip(*TOPFORMS)
    style = rng.random()
    # nested legacy namespaces (a sub-package's __init__.py holding the declaration) in a part of the trees only
    legacy_sub = rng.choice([0.0, 0.0, 0.15, 0.4])
    # 0-2 unusual names join the pool {a, b, sub} of this tree: the same few names in every directory of every search path,
    # so that they meet as file / package / namespace directory, across portions and at every depth
    global _EXTRA_NAMES  # noqa: PLW0603
    _EXTRA_NAMES = tuple(rng.sample(UNUSUAL_NAMES, rng.choice([0, 1, 1, 2])))
    for sp in search:
        if style < 0.3:
            form = rng.choice(["namespace", "namespace", "namespace", "regular", "none", "ns+module"])
        elif style < 0.45:
            # legacy namespace spread over the search paths, sometimes meeting native portions / regular packages / modules
            form = rng.choice(["legacyns"] * 8 + ["namespace", "namespace", "none", rng.choice(["regular", "module", "legacyns"])])
        else:
            form = rng.choices(names, weights)[0]
        gen_top(rng, files, dirs, sp, form, legacy_sub)
        if form == "none" and not any(k.startswith(sp + "/") for k in files):
            dirs.append(sp)
        if rng.random() < 0.15:
            files[f"{sp}/other/__init__.py"] = ""
            files[f"{sp}/{TOP}x.py"] = ""
        if rng.random() < 0.05:
            files[f"{sp}/{TOP}.txt"] = "data\n"
    # echo: repeat a part of one portion's entries in a later path, so that the same dotted names (same forms, same depth)
    # meet across search paths
    holders = [sp for sp in search if any(k.startswith(f"{sp}/{TOP}/") for k in files)]
    if len(holders) >= 2 and rng.random() < 0.5:
        src, dst = holders[0], rng.choice(holders[1:])
        for k in sorted(k for k in files if k.startswith(f"{src}/{TOP}/") and "__pycache__" not in k):
            rel = k[len(src) + 1:]
            if rel == f"{TOP}/__init__.py" or rng.random() > 0.4:
                continue
            t = f"{dst}/{rel}"
            if _can_add(files, dirs, t):
                # (an echoed __init__.py that declares a legacy namespace mostly declares it in the other portion too)
                files[t] = (_declaration(rng, t) if declares_namespace(files[k]) and rng.random() < 0.8 else _content(rng, t))
    stubs_pkg = False
    if rng.random() < 0.22:
        sp = rng.choice(search)
        d = f"{sp}/{TOP}-stubs"
        if rng.random() < 0.8:
            files[f"{d}/__init__.pyi"] = _content(rng, f"{d}/__init__.pyi")
        gen_dir(rng, files, dirs, d, 2, stubs_only=True)
        if not any(k.startswith(d + "/") for k in files):
            files[f"{d}/a.pyi"] = _content(rng, f"{d}/a.pyi")
        for k in [k for k in files if k.startswith(d + "/") and k.endswith(".py")]:      # a stubs package holds stubs
            if os.path.basename(k).count(".") == 1:
                files[k + "i"] = _content(rng, k + "i")
            del files[k]
        stubs_pkg = rng.random() < 0.8
    if rng.random() < 0.25:
        nxt = 0
        sp = rng.choice(search)
        for pth in rng.sample(["aa.pth", "mm.pth", "zz.pth"], rng.choice([1, 2, 2, 3])):
            lines = []
            if rng.random() < 0.3:
                lines.append("# comment")
            for _ in range(rng.choice([1, 1, 2])):
                ext = f"ext{nxt}"
                nxt += 1
                gen_top(rng, files, dirs, ext, rng.choice(["regular", "namespace", "module", "regular", "legacyns"]), legacy_sub)
                if not any(k.startswith(ext + "/") for k in files):
                    dirs.append(ext)
                lines.append("{ROOT}/" + ext)
                if rng.random() < 0.2:
                    lines.append("")
                if rng.random() < 0.15:
                    lines.append("{ROOT}/missing-dir")
            files[f"{sp}/{pth}"] = "\n".join(lines) + "\n"
    links: dict[str, str] = {}
    link_kinds: dict[str, str] = {}
    if rng.random() < 0.4:
        add_links(rng, search, files, dirs, links, link_kinds, legacy_sub)
    case = {"search": search, "files": dict(sorted(files.items())), "dirs": sorted(set(dirs)), "request": TOP,
            "find_stubs_package": stubs_pkg, "perms": perms, "perm_seed": rng.randrange(1 << 30)}
    if links:
        case["links"] = dict(sorted(links.items()))
        case["link_kinds"] = dict(sorted(link_kinds.items()))
    return case


# symbolic links: CPython follows them everywhere and goes by the LINK's name (spec.origin keeps the link path)
LINK_KINDS = [("dir-to-shared-package", 4), ("dir-to-shared-namespace", 2), ("dir-to-other-portion", 3), ("dir-top-level-portion", 3),
              ("dir-chain", 2), ("dir-in-stubs-package", 3), ("dir-absolute-target", 1), ("file-module", 3),
              ("file-init-to-other-name", 4), ("file-module-to-init", 3), ("file-stub", 2), ("file-chain", 1),
              ("dangling-file", 1), ("dangling-dir", 1), ("dir-named-like-sibling-module", 3)]
# (a self-cycle is added to 2% of the link trees only: both sides walk it 40 levels deep, the kernel's limit of links per path)


def add_links(rng: random.Random, search: list, files: dict, dirs: list, links: dict, kinds: dict, legacy_sub: float) -> None:  # noqa: C901, PLR0912, PLR0915
    """1-3 symbolic links: sub-package / namespace directories pointing outside every search path (``shared/``), into another
    portion or search path, whole top-level portions, chains, links inside linked directories and inside <name>-stubs, module
    / __init__ / stub file links (also to differently named files), dangling links and a self-cycle."""
    names, weights = zip(*LINK_KINDS)
    pool = ("a", "b", "sub", "lnk", "plugins") + _EXTRA_NAMES
    counter = [0]

    def fresh(prefix: str) -> str:
        counter[0] += 1
        return f"shared/{prefix}{counter[0]}"

    def package_dirs(stubs: bool = False) -> list[str]:
        tops = {f"{r}/{TOP}-stubs" if stubs else f"{r}/{TOP}" for r in {k.split("/")[0] for k in list(files) + list(dirs)}}
        out = set()
        for k in list(files) + [d + "/." for d in dirs]:
            d = os.path.dirname(k)
            while d.count("/") >= 1:
                if any(d == t or d.startswith(t + "/") for t in tops) and "__pycache__" not in d.split("/") \
                        and not any(part.startswith(".") or "." in part for part in d.split("/")[2:]):
                    out.add(d)
                d = os.path.dirname(d)
        return sorted(h for h in out | {h for h in hosts_extra if not stubs} if not any(h == c or h.startswith(c + "/") for c in cyclic))

    def free(path: str) -> bool:
        if path in links or any(path.startswith(k + "/") or k.startswith(path + "/") for k in links):
            return False
        return _can_add(files, dirs, path)

    def place(host_dirs: list[str], suffix: str = "") -> str | None:
        for _ in range(8):
            if not host_dirs:
                return None
            cand = f"{rng.choice(host_dirs)}/{rng.choice(pool)}{suffix}"
            if free(cand):
                return cand
        return None

    def rel(link: str, target: str) -> str:
        return os.path.relpath(target, os.path.dirname(link))

    def fill(d: str, init: bool, stubs_only: bool = False) -> None:
        before = len(files)
        if init:
            n = f"{d}/__init__.pyi" if stubs_only else f"{d}/__init__.py"
            files[n] = _content(rng, n)
        gen_dir(rng, files, dirs, d, 2, stubs_only, legacy_sub)
        if len(files) == before + (1 if init else 0):
            n = f"{d}/x.pyi" if stubs_only else f"{d}/x.py"
            files[n] = _content(rng, n)
        if stubs_only:
            for k in [k for k in files if k.startswith(d + "/") and k.endswith(".py")]:
                if os.path.basename(k).count(".") == 1:
                    files[k + "i"] = _content(rng, k + "i")
                del files[k]

    hosts_extra: list[str] = []
    cyclic: list[str] = []          # directories repeated without end by a cycle: nothing else is put there
    for _ in range(rng.choice([1, 1, 2, 2, 3])):
        kind = "cycle-self" if rng.random() < 0.02 else rng.choices(names, weights)[0]
        hosts = package_dirs()
        link = target = None
        if kind in ("dir-to-shared-package", "dir-to-shared-namespace", "dir-chain", "dir-absolute-target"):
            link = place(hosts)
            if link:
                real = fresh("d")
                fill(real, init=kind != "dir-to-shared-namespace")
                hosts_extra.append(real)           # later links may sit inside this linked directory
                target = rel(link, real)
                if kind == "dir-chain":
                    mid = fresh("l")
                    links[mid] = rel(mid, real)
                    kinds[mid] = "dir-chain-middle"
                    target = rel(link, mid)
                elif kind == "dir-absolute-target":
                    target = "{ROOT}/" + real
        elif kind == "dir-named-like-sibling-module":
            # x -> <directory elsewhere> next to an existing x.py / x.pyi: the directory link is shadowed or shadows, as its
            # content dictates; the FILE keeps its own name whatever the link leads to
            mods = [k for k in files if k.endswith((".py", ".pyi")) and os.path.basename(k).count(".") == 1
                    and not os.path.basename(k).startswith("__init__") and os.path.dirname(k) in hosts]
            rng.shuffle(mods)
            for m in mods[:4]:
                cand = m.rsplit(".", 1)[0]
                if free(cand):
                    real = fresh("d")
                    if rng.random() < 0.4:
                        files[f"{real}/notes.txt"] = "data\n"         # a data directory: nothing to import there
                    else:
                        fill(real, init=rng.random() < 0.4)
                    link, target = cand, rel(cand, real)
                    break
        elif kind == "dir-to-other-portion":
            targets = [d for d in hosts if d.count("/") >= 2]
            if targets:
                real = rng.choice(targets)
                # (not inside the target itself: that would be a cycle)
                others = [h for h in hosts if not (h == real or h.startswith(real + "/"))]
                if others:
                    host = rng.choice(others)
                    cand = f"{host}/{os.path.basename(real) if rng.random() < 0.5 else rng.choice(pool)}"
                    if free(cand):
                        link, target = cand, rel(cand, real)
        elif kind == "dir-top-level-portion":
            empty = [sp for sp in search if not any(k.startswith(f"{sp}/{TOP}") for k in list(files) + list(dirs) + list(links))]
            if empty:
                sp = rng.choice(empty)
                base = fresh("t")
                gen_top(rng, files, dirs, base, rng.choice(["regular", "namespace", "namespace", "legacyns"]), legacy_sub)
                if not any(k.startswith(f"{base}/{TOP}/") for k in files):
                    files[f"{base}/{TOP}/x.py"] = ""
                link = f"{sp}/{TOP}"
                target = rel(link, f"{base}/{TOP}")
        elif kind == "dir-in-stubs-package":
            shosts = package_dirs(stubs=True)
            link = place(shosts)
            if link:
                real = fresh("s")
                fill(real, init=rng.random() < 0.8, stubs_only=True)
                target = rel(link, real)
        elif kind == "file-module":
            mods = [k for k in files if k.endswith(".py") and os.path.basename(k).count(".") == 1 and not os.path.basename(k).startswith("__init__")
                    and os.path.dirname(k) in hosts]
            link = place(hosts, ".py")
            if link:
                if mods and rng.random() < 0.6:
                    real = rng.choice(mods)
                else:
                    real = fresh("m") + ".py"
                    files[real] = _content(rng, real)
                target = rel(link, real)
        elif kind == "file-init-to-other-name":
            sub = place(hosts)
            if sub:
                impl = f"{os.path.dirname(sub)}/_{os.path.basename(sub)}_impl.py" if rng.random() < 0.6 else fresh("i") + ".py"
                if impl not in files and free(impl):
                    files[impl] = _content(rng, impl)
                    files[f"{sub}/x.py"] = _content(rng, f"{sub}/x.py")
                    if rng.random() < 0.4:
                        gen_dir(rng, files, dirs, sub, 3, False, legacy_sub)
                    link, target = f"{sub}/__init__.py", rel(f"{sub}/__init__.py", impl)
        elif kind == "file-module-to-init":
            inits = [k for k in files if os.path.basename(k) == "__init__.py" and os.path.dirname(k) in hosts]
            link = place(hosts, ".py")
            if link and inits:
                target = rel(link, rng.choice(inits))
            else:
                link = None
        elif kind == "file-stub":
            link = place(hosts, ".pyi")
            if link:
                real = fresh("st") + ".pyi"
                files[real] = _content(rng, real)
                target = rel(link, real)
        elif kind == "file-chain":
            link = place(hosts, ".py")
            if link:
                real, mid = fresh("r") + ".py", fresh("c") + ".py"
                files[real] = _content(rng, real)
                links[mid] = rel(mid, real)
                kinds[mid] = "file-chain-middle"
                target = rel(link, mid)
        elif kind == "dangling-file":
            link = place(hosts, rng.choice([".py", ".py", ".pyi"]))
            target = "nowhere.py"
        elif kind == "dangling-dir":
            link = place(hosts)
            target = "nowhere"
        elif kind == "cycle-self":
            sub = place(hosts)
            if sub:
                # (a regular package, so that CPython's walker goes down the cycle too; as a native namespace directory the
                # walker would not enter it and every find_spec recalculates the whole chain of parent paths)
                files[f"{sub}/__init__.py"] = _content(rng, f"{sub}/__init__.py")
                files[f"{sub}/x.py"] = _content(rng, f"{sub}/x.py")
                link, target = f"{sub}/loop", "."
                cyclic.append(sub)
        if link and target:
            links[link] = target
            kinds[link] = kind
            if kind.startswith("dir-") and _link_cycle({"search": search, "files": files, "dirs": dirs, "links": links}, set(cyclic)):
                del links[link], kinds[link]        # (two links that lead into each other: a cycle with branches, kept out)




# ------------------------------------------------------------------------------------------
# tree on disk
def write_tree(case: dict, root: str) -> None:
    for d in case["search"] + list(case.get("dirs", [])):
        os.makedirs(os.path.join(root, d), exist_ok=True)
    for rel, content in case["files"].items():
        p = os.path.join(root, rel)
        os.makedirs(os.path.dirname(p), exist_ok=True)
        with open(p, "w", encoding="latin-1") as fh:
            fh.write(content.replace("{ROOT}", root))
    for rel, target in case.get("links", {}).items():
        p = os.path.join(root, rel)
        os.makedirs(os.path.dirname(p), exist_ok=True)
        os.symlink(target.replace("{ROOT}", root), p)


def _link_target(case: dict, link: str) -> str | None:
    """Where a link points, relative to the root (None: outside the tree)."""
    target = case["links"][link]
    t = target[len("{ROOT}/"):] if target.startswith("{ROOT}/") else os.path.normpath(os.path.join(os.path.dirname(link), target))
    return None if t.startswith("..") or os.path.isabs(t) else t


def resolve_entry(case: dict, path: str) -> str | None:
    """The real entry a (virtual) path leads to, following links component by component; None: dangling or a loop."""
    links = case.get("links", {})
    cur = ""
    hops = 0
    for comp in path.split("/"):
        cur = f"{cur}/{comp}" if cur else comp
        while cur in links:
            hops += 1
            cur = _link_target(case, cur)
            if cur is None or hops > 64:
                return None
            if any("/".join(cur.split("/")[:i]) in links for i in range(1, cur.count("/") + 1)):
                cur = resolve_entry(case, cur)          # a link below a link
                if cur is None:
                    return None
    return cur


def _link_cycle(case: dict, allowed: set) -> bool:
    """Following links leads from some directory back into itself (other than the deliberate self-cycles in ``allowed``)."""
    links = case["links"]
    kinds: dict[str, str] = {f: "file" for f in case["files"]}
    for e in list(kinds) + list(case["search"]) + list(case["dirs"]) + list(links):
        parts = e.split("/")
        for i in range(1, len(parts) + (0 if e in kinds or e in links else 1)):
            kinds.setdefault("/".join(parts[:i]), "dir")
    children: dict[str, set[str]] = {}
    for e in list(kinds) + list(links):
        if "/" in e:
            children.setdefault(e.rsplit("/", 1)[0], set()).add(e)
    state: dict[str, int] = {}

    def visit(d: str) -> bool:
        state[d] = 1
        for c in sorted(children.get(d, ())):
            r = resolve_entry(case, c)
            if r is None or kinds.get(r) != "dir" or (r == d and d in allowed):
                continue
            if state.get(r) == 1 or (r not in state and visit(r)):
                return True
        state[d] = 2
        return False

    return any(d not in state and visit(d) for d in sorted(k for k, v in kinds.items() if v == "dir"))


def source_text(case: dict, root: str, path: str) -> str:
    """The generated text of the file a path (possibly through links) leads to."""
    rel = os.path.relpath(path, root).replace(os.sep, "/")
    real = resolve_entry(case, rel) if case.get("links") else rel
    return case["files"].get(real or "", "")


def virtual_entries(case: dict, max_parts: int = 50) -> dict[str, str]:
    """Every path below the root reachable by following links -> 'file' / 'dir' / 'dangling' (depth-bounded: a link
    cycle repeats the tree without end)."""
    links = case.get("links", {})
    kinds: dict[str, str] = {}
    for f in case["files"]:
        kinds[f] = "file"
    for d in list(case["search"]) + list(case.get("dirs", [])):
        kinds.setdefault(d, "dir")
    for e in list(kinds) + list(links):
        parts = e.split("/")
        for i in range(1, len(parts)):
            kinds.setdefault("/".join(parts[:i]), "dir")
    if not links:
        return kinds
    children: dict[str, set[str]] = {}
    for e in list(kinds) + list(links):
        if "/" in e:
            children.setdefault(e.rsplit("/", 1)[0], set()).add(e.rsplit("/", 1)[1])
    out: dict[str, str] = {}
    stack = [(t, t) for t in sorted({e.split("/")[0] for e in list(kinds) + list(links)})]
    while stack:
        virt, real = stack.pop()
        out[virt] = "dir"
        for name in sorted(children.get(real, ())):
            v = f"{virt}/{name}"
            r = resolve_entry(case, f"{real}/{name}")
            if r is None or r not in kinds:
                out[v] = "dangling"
            elif kinds[r] == "file":
                out[v] = "file"
            elif v.count("/") + 1 < max_parts:
                stack.append((v, r))
            else:
                out[v] = "dir"
    return out


def has_pth(case: dict) -> bool:
    return any(k.endswith(".pth") for k in case["files"])


def _base(component: str) -> str:
    return component.split(".", 1)[0]


def name_providers(case: dict) -> dict[str, set[str]]:
    """dotted name -> file-system entries (relative) that could provide it, for every name the tree can spell."""
    out: dict[str, set[str]] = {}
    for e in sorted(e for e in virtual_entries(case) if "/" in e):
        parts = e.split("/")[1:]
        if not parts or any(p.startswith(".") or p == "__pycache__" for p in parts):
            continue
        top = parts[0]
        if _base(top) not in (TOP,) and top != TOP + "-stubs":
            continue
        comps = [TOP if i == 0 and p == TOP + "-stubs" else _base(p) for i, p in enumerate(parts)]
        if comps[-1] == "__init__":
            comps = comps[:-1]
            e = e.rsplit("/", 1)[0]
        if not comps or any(not c for c in comps):
            continue
        out.setdefault(".".join(comps), set()).add(e)
    return out


def nontrivial(case: dict) -> bool:
    return len(case["search"]) >= 2 and any(len(v) >= 2 for v in name_providers(case).values())


# ------------------------------------------------------------------------------------------
# M-REF: CPython in a child
REF_SCRIPT = r"""
import sys, json
arg = json.loads(sys.stdin.read())
import importlib, importlib.util, pkgutil, os
sys.path[:0] = arg["paths"]
if arg["site"]:
    import site
    for p in arg["paths"]:
        site.addsitedir(p)
importlib.invalidate_caches()
# which packages really had their __path__ extended by CPython (observed at the call, not read from the source text)
EXTENDED = {}
_extend_path = pkgutil.extend_path
def extend_path(path, name):
    before = list(path)
    result = _extend_path(path, name)
    EXTENDED[name] = {"before": before, "after": list(result)}
    return result
pkgutil.extend_path = extend_path
def describe(name):
    try:
        spec = importlib.util.find_spec(name)
    except BaseException as exc:
        return {"found": False, "error": type(exc).__name__ + ": " + str(exc)[:200]}
    if spec is None:
        return {"found": False}
    locs = spec.submodule_search_locations
    out = {"found": True, "origin": spec.origin if spec.has_location else None,
           "locations": None if locs is None else [os.path.abspath(p) for p in locs],
           "loader": type(spec.loader).__name__ if spec.loader is not None else None, "extended": False}
    if locs is not None and (out["origin"] is None or out["origin"].endswith(".py")):
        # a package's search locations are those of the *imported* package: its __init__ may extend __path__ (legacy
        # namespace packages).  Generated modules hold constants and such declarations only, so importing is harmless;
        # find_spec / walk_packages import the parents of every dotted name anyway.
        out["spec_locations"] = out["locations"]
        try:
            mod = importlib.import_module(name)
            out["locations"] = [os.path.abspath(p) for p in mod.__path__]
            out["extended"] = name in EXTENDED
        except BaseException as exc:
            out["import_error"] = type(exc).__name__ + ": " + str(exc)[:200]
    return out
out = {"sys_path": [p for p in sys.path], "specs": {}, "walk": [], "walk_errors": []}
for name in arg["names"]:
    out["specs"][name] = describe(name)
top = out["specs"].get(arg["top"]) or describe(arg["top"])
out["specs"][arg["top"]] = top
if top["found"] and top["locations"] is not None:
    for info in pkgutil.walk_packages(top["locations"], arg["top"] + ".", onerror=out["walk_errors"].append):
        out["walk"].append([info.name, bool(info.ispkg)])
        if info.name not in out["specs"]:
            out["specs"][info.name] = describe(info.name)
sys.stdout.write(json.dumps(out))
"""


class ReferenceDied(Exception):
    pass


def reference(case: dict, root: str, search: list[str] | None = None) -> dict:
    names = sorted(name_providers(case), key=lambda n: (n.count("."), n))
    arg = {"paths": [os.path.join(root, s) for s in (search or case["search"])], "site": has_pth(case),
           "names": names, "top": case["request"]}
    try:
        proc = subprocess.run([sys.executable, "-I", "-S", "-c", REF_SCRIPT], input=json.dumps(arg).encode(),
                              stdout=subprocess.PIPE, stderr=subprocess.PIPE, timeout=120, check=False, cwd=root)
    except subprocess.TimeoutExpired as exc:
        raise ReferenceDied("reference child timed out") from exc
    if proc.returncode != 0:
        raise ReferenceDied(f"reference child rc={proc.returncode}: {proc.stderr.decode(errors='replace')[-800:]}")
    return json.loads(proc.stdout)


def multi_portion(desc: dict | None) -> bool:
    """CPython searches the sub-modules of this package in a list of directories that can span several search paths:
    a native namespace package, or a package whose __path__ was extended at import (legacy namespace package)."""
    return ref_kind(desc) == "namespace" or (ref_kind(desc) == "package" and bool(desc.get("extended")))


def ref_kind(desc: dict | None) -> str:
    if not desc or not desc.get("found"):
        return "absent"
    if desc["locations"] is not None:
        return "package" if desc["origin"] else "namespace"
    if desc["loader"] == "SourceFileLoader":
        return "module"
    return "compiled"      # ExtensionFileLoader / SourcelessFileLoader


# ------------------------------------------------------------------------------------------
# griffe side
_ATTEMPTS: list | None = None


def install_attempt_recorder() -> None:
    from _griffe.exceptions import LoadingError
    from _griffe.loader import GriffeLoader

    if getattr(GriffeLoader._load_module_path, "_vf", False):
        return
    orig = GriffeLoader._load_module_path

    def wrapper(self, module_name, module_path, *, submodules=True, parent=None):  # noqa: ANN001
        rec_it = _ATTEMPTS is not None and not isinstance(module_path, list)
        dotted = (parent.path + "." if parent is not None else "") + module_name
        try:
            result = orig(self, module_name, module_path, submodules=submodules, parent=parent)
        except LoadingError as exc:
            if rec_it:
                _ATTEMPTS.append((dotted, str(module_path), "LoadingError: " + str(exc)[:80]))
            raise
        if rec_it:
            _ATTEMPTS.append((dotted, str(module_path), "loaded"))
        return result

    wrapper._vf = True  # type: ignore[attr-defined]
    GriffeLoader._load_module_path = wrapper


def observe(case: dict, root: str, k: int, request, search: list[str] | None = None, pin_dirs=None) -> dict:  # noqa: ANN001
    """Load with listing order ``k``; return a JSON-able observation.

    ``pin_dirs``: counterfactual used by the classifiers - these directories are listed in sorted order while every
    other listing stays permuted.
    """
    global _ATTEMPTS
    import griffe

    install_attempt_recorder()
    paths = [os.path.join(root, s) for s in (search or case["search"])]
    _ATTEMPTS = []
    obs: dict = {"outcome": "ok", "modules": {}, "json": None}
    saved_order = listing.ORDER.order
    try:
        with listing.shuffled(k, case.get("perm_seed", 0), only_under=root) as order:
            if pin_dirs:
                pinset = set()
                for d in pin_dirs:
                    pinset |= {d, d + "|d", d + "|f"}

                def pinned(directory, names, _orig=saved_order):  # noqa: ANN001
                    if directory in pinset:
                        return sorted(names)
                    return _orig(directory, names)

                order.order = pinned  # type: ignore[method-assign]
            try:
                loader = griffe.GriffeLoader(search_paths=paths, allow_inspection=False)
                mod = loader.load(request, find_stubs_package=bool(case.get("find_stubs_package")))
            except ModuleNotFoundError as exc:
                obs["outcome"] = "ModuleNotFoundError"
                obs["detail"] = str(exc)[:200]
                return obs
            except FileNotFoundError as exc:      # documented by ModuleFinder.find_spec for a path that does not exist
                obs["outcome"] = "FileNotFoundError"
                obs["detail"] = str(exc)[:200]
                return obs
            except KeyError as exc:
                obs["outcome"] = f"KeyError: {exc}"
                obs["detail"] = "".join(traceback.format_exception(type(exc), exc, exc.__traceback__))[-1500:]
                return obs
            finally:
                if pin_dirs:
                    del order.order
        obs["search_paths"] = [str(p) for p in loader.finder.search_paths]
        obs["top"] = mod.path
        try:
            obs["json"] = mod.as_json(full=True, sort_keys=True)
        except ValueError as exc:
            # relative_package_filepath raises for a stub-only module taken from a -stubs package that lives in another
            # search path than the package: a serialisation matter outside this property. Fall back to the base dump.
            if "is not in the subpath of" not in str(exc):
                raise
            obs["json_full"] = False
            obs["json"] = mod.as_json(full=False, sort_keys=True)
        if getattr(mod, "parent", None) is not None:
            # a module below the top level was requested: the tree it belongs to is part of the observation
            try:
                obs["package_json"] = mod.package.as_json(full=obs.get("json_full", True), sort_keys=True)
            except ValueError as exc:
                if "is not in the subpath of" not in str(exc):
                    raise
                obs["package_json"] = mod.package.as_json(full=False, sort_keys=True)
        stack = [mod]
        while stack:
            m = stack.pop()
            fp = m.filepath
            obs["modules"][m.path] = {
                "file": [str(p) for p in fp] if isinstance(fp, list) else str(fp),
                "flags": [bool(m.is_init_module), bool(m.is_package), bool(m.is_subpackage),
                          bool(m.is_namespace_package), bool(m.is_namespace_subpackage)],
            }
            for child in m.members.values():
                if not child.is_alias and child.is_module:
                    stack.append(child)
        return obs
    finally:
        obs["attempts"] = sorted(set(_ATTEMPTS))
        _ATTEMPTS = None


def _first_diff(a, b, path="$"):  # noqa: ANN001
    if type(a) is not type(b):
        return path, a, b
    if isinstance(a, dict):
        for key in sorted(set(a) | set(b)):
            if key not in a:
                return f"{path}.{key}", "<absent>", b[key]
            if key not in b:
                return f"{path}.{key}", a[key], "<absent>"
            d = _first_diff(a[key], b[key], f"{path}.{key}")
            if d:
                return d
        return None
    if isinstance(a, list):
        if len(a) != len(b):
            return path + ".length", a, b
        for i, (x, y) in enumerate(zip(a, b)):
            d = _first_diff(x, y, f"{path}[{i}]")
            if d:
                return d
        return None
    return None if a == b else (path, a, b)


def describe_diff(obs_a: dict, obs_b: dict) -> dict:
    if obs_a["outcome"] != obs_b["outcome"]:
        return {"at": "outcome", "a": obs_a["outcome"], "b": obs_b["outcome"]}
    d = _first_diff(json.loads(obs_a["json"]), json.loads(obs_b["json"]))
    if not d and obs_a.get("package_json") != obs_b.get("package_json"):
        d = _first_diff(json.loads(obs_a.get("package_json") or "null"), json.loads(obs_b.get("package_json") or "null"), "$package")
    if not d:
        return {"at": "?", "a": None, "b": None}
    return {"at": d[0], "a": json.dumps(d[1], sort_keys=True)[:300], "b": json.dumps(d[2], sort_keys=True)[:300]}


def same(obs_a: dict, obs_b: dict) -> bool:
    return obs_a["outcome"] == obs_b["outcome"] and obs_a["json"] == obs_b["json"] \
        and obs_a.get("package_json") == obs_b.get("package_json")


# ------------------------------------------------------------------------------------------
# oracle
class Problem:
    def __init__(self, kind: str, name: str | None, what: str, observed=None, expected=None) -> None:  # noqa: ANN001
        self.kind, self.name, self.what, self.observed, self.expected = kind, name, what, observed, expected
        self.finding: str | None = None

    def as_dict(self) -> dict:
        return {"kind": self.kind, "name": self.name, "what": self.what, "observed": self.observed,
                "expected": self.expected, "finding": self.finding}


def _rp(p: str | None) -> str | None:
    # normalised, links NOT resolved: the tree's root is a real path, so every path below it is comparable as it is spelled -
    # and a link's own name is what the import system goes by
    return None if p is None else os.path.normpath(os.path.abspath(p))


def link_on_the_way(path: str | None, root: str) -> tuple[bool, bool]:
    """(some directory between the root and the file is a symbolic link, the last component itself is one)."""
    if not path:
        return False, False
    path = _rp(path)
    last = os.path.islink(path)
    d = os.path.dirname(path)
    through = False
    while len(d) > len(root):
        if os.path.islink(d):
            through = True
            break
        d = os.path.dirname(d)
    return through, last


def portions_agree(griffe_dirs: set, cpython_dirs: set, is_top: bool) -> bool:
    """Top level: the same directories. Nested namespace packages are created by Griffe on demand (when a module is found
    below), CPython counts every same-named directory: Griffe's portions must be among CPython's."""
    return griffe_dirs == cpython_dirs if is_top else griffe_dirs <= cpython_dirs


def expected_flags(kind: str, top: bool) -> list[bool]:
    # [is_init_module, is_package, is_subpackage, is_namespace_package, is_namespace_subpackage]
    if kind == "package":
        return [True, top, not top, False, False]
    if kind == "namespace":
        return [False, False, False, top, not top]
    return [False, False, False, False, False]


def _dangling_provider(name: str, specs: dict) -> bool:
    parent = specs.get(name.rsplit(".", 1)[0]) or {}
    last = name.rsplit(".", 1)[-1]
    for loc in parent.get("locations") or []:
        try:
            entries = os.listdir(loc)
        except OSError:
            continue
        for e in entries:
            p = os.path.join(loc, e)
            if e.split(".", 1)[0] == last and os.path.islink(p) and not os.path.exists(p):
                return True
    return False


def judge_against_cpython(case: dict, root: str, ref: dict, obs: dict, rec) -> list[Problem]:  # noqa: ANN001, C901, PLR0912, PLR0915
    problems: list[Problem] = []
    specs = ref["specs"]
    top = case["request"]
    topk = ref_kind(specs.get(top))
    if obs["outcome"] == "ModuleNotFoundError":
        if topk in ("package", "namespace", "module"):
            problems.append(Problem("top-not-found", top, f"CPython finds {top} ({topk}) but Griffe raises ModuleNotFoundError",
                                    obs.get("detail"), specs[top]))
        return problems
    if obs["outcome"] != "ok":
        problems.append(Problem("load-exception", top, f"loading {top} raised {obs['outcome']}", obs.get("detail"),
                                "a tree or ModuleNotFoundError"))
        return problems
    mods = obs["modules"]
    attempts = {(n, _rp(f)) for n, f, _o in obs["attempts"]}
    attempted_names = {n for n, _f, _o in obs["attempts"]}
    walked = {n for n, _ispkg in ref["walk"]}
    # ---- direction 1: every loaded module is importable at that name from that file, or stub-only -------------------
    for name in sorted(mods, key=lambda n: (n.count("."), n)):
        info = mods[name]
        desc = specs.get(name)
        if desc is None:
            problems.append(Problem("unknown-name", name, f"Griffe loaded {name}, a dotted name the tree cannot spell",
                                    info["file"], None))
            continue
        kind = ref_kind(desc)
        is_top = "." not in name
        f = info["file"]
        ancestors = [name.rsplit(".", i)[0] for i in range(1, name.count(".") + 1)]
        if any(ref_kind(specs.get(a)) == "compiled" for a in ancestors):
            # CPython takes a (fake) compiled file for an ancestor where Griffe has a same-named source/stub package:
            # the compiled-vs-source corner that is not judged (see ASSUMPTIONS)
            rec.count("compiled_ancestor_not_judged")
            continue
        rec.count("loaded_modules_checked_against_find_spec")
        if any(unusual(c) for c in name.split(".")[1:]):
            rec.count("loaded_modules_with_unusual_name_checked")
        gkind = None
        if kind == "compiled":
            # CPython would take a (fake) compiled file for this very name; Griffe has a source / stub / directory instead
            rec.count("compiled_sibling_shadows_source_not_judged")
            gkind = ("namespace" if isinstance(f, list) else
                     "package" if os.path.basename(f).split(".", 1)[0] == "__init__" else "module")
        elif isinstance(f, list):
            rec.count("namespace_packages_checked")
            gkind = "namespace"
            notdir = [p for p in f if not os.path.isdir(p)]
            if case.get("find_stubs_package") and f and all((top + "-stubs") in p.split(os.sep) for p in f):
                rec.count("stub_only_modules_checked")       # a namespace that exists in the <name>-stubs package only
            elif notdir:
                problems.append(Problem("namespace-portion-not-a-directory", name,
                                        f"{name}: namespace package with a portion that is not a directory", f, desc))
            elif kind == "package" and desc.get("extended"):
                # legacy namespace package: a regular package for the import system, whose __init__ extends __path__ over
                # the same-named directories of the other search paths.  Whether it is *called* package or namespace
                # package is not judged; its portions are: the directories CPython searches after importing it.
                rec.count("legacy_namespace_packages_checked")
                if len(desc["locations"]) >= 2:
                    rec.count("legacy_namespace_multi_portion_checked")
                if not portions_agree({_rp(p) for p in f if not (case.get("find_stubs_package") and (top + "-stubs") in p.split(os.sep))},
                                      set(desc["locations"]), is_top):
                    problems.append(Problem("namespace-portions", name, f"{name}: portions of the legacy namespace package "
                                            "differ from the imported package's __path__", sorted(f), desc["locations"]))
            elif kind != "namespace":
                problems.append(Problem("not-importable" if kind == "absent" else "classification", name,
                                        f"{name}: Griffe says namespace package, CPython says {kind}", f, desc))
            elif not portions_agree({_rp(p) for p in f if not (case.get("find_stubs_package") and (top + "-stubs") in p.split(os.sep))},
                                    set(desc["locations"]), is_top):
                # (with find_stubs_package the portions of the <name>-stubs namespace are appended by design: stub-only portions)
                problems.append(Problem("namespace-portions", name, f"{name}: namespace portions differ",
                                        sorted(f), desc["locations"]))
        elif f.endswith(".pyi"):
            rec.count("stub_only_modules_checked")
            gkind = "package" if os.path.basename(f).split(".", 1)[0] == "__init__" else "module"
            if kind in ("module", "package") and not (is_top or name in walked):
                # a runtime module the package walker does not reach (native namespace inside a regular package, which Griffe
                # skips on purpose): whether its stubs may stand in for it is not judged
                rec.count("stub_for_module_outside_walker_not_judged")
            elif kind in ("module", "package"):
                problems.append(Problem("stub-hides-runtime", name,
                                        f"{name}: loaded from stubs only although CPython imports a source module", f, desc))
        else:
            gkind = "package" if os.path.basename(f) == "__init__.py" else "module"
            if kind == "absent":
                problems.append(Problem("not-importable", name, f"{name}: loaded from {os.path.relpath(f, root)} but CPython "
                                        "cannot import that name", f, desc))
            elif _rp(desc["origin"]) != _rp(f):
                rec.count("first_path_wins_checked")
                problems.append(Problem("wrong-file", name, f"{name}: loaded from another file than CPython imports",
                                        os.path.relpath(f, root),
                                        os.path.relpath(desc["origin"], root) if desc["origin"] else desc))
            else:
                rec.count("first_path_wins_checked")
        # classification follows the files - for a link: the LINK's name (CPython never looks at what it points to)
        rec.count("classification_checks")
        if not isinstance(f, list) and case.get("links"):
            through, last = link_on_the_way(desc.get("origin") if kind in ("package", "module") else f, root)
            if through:
                rec.count("classification_through_directory_link_checked")
            if last and kind in ("package", "module"):
                real_is_init = os.path.basename(os.path.realpath(desc["origin"])).startswith("__init__.")
                if kind == "package" and not real_is_init:
                    rec.count("classification_init_link_to_other_name_checked")
                elif kind == "module" and real_is_init:
                    rec.count("classification_module_link_to_init_checked")
                else:
                    rec.count("classification_file_link_same_kind_checked")
        elif isinstance(f, list) and case.get("links") and any(os.path.islink(p) or link_on_the_way(p, root)[0] for p in f):
            rec.count("namespace_portions_through_link_checked")
        want = expected_flags(gkind, is_top)
        if info["flags"] != want:
            problems.append(Problem("classification", name, f"{name}: classification properties do not follow its files "
                                    "[init, package, subpackage, namespace, namespace-sub]", info["flags"], want))
        elif not isinstance(f, list) and not f.endswith(".pyi") and kind in ("package", "module", "namespace") and kind != gkind \
                and not any(p.name == name for p in problems):
            problems.append(Problem("classification", name, f"{name}: Griffe says {gkind}, CPython says {kind}", f, desc))
    # ---- every source / stub file that was loaded spells the dotted name it was loaded at -------------------------------
    for dotted, f, outcome in obs["attempts"]:
        if outcome != "loaded" or not f.endswith((".py", ".pyi")):
            continue
        rec.count("file_spells_name_checked")
        if case.get("links") and f.endswith(".pyi") and any(link_on_the_way(f, root)):
            rec.count("loaded_stub_files_through_or_from_link_checked")
        stem = os.path.basename(f).rsplit(".", 1)[0]
        spelled = os.path.basename(os.path.dirname(f)) if stem == "__init__" else stem
        last = dotted.rsplit(".", 1)[-1]
        if spelled != last and not (spelled == last + "-stubs" and "." not in dotted):
            problems.append(Problem("file-does-not-spell-name", dotted, f"{dotted}: loaded from {os.path.relpath(f, root)}, whose "
                                    "name does not spell that module name", os.path.relpath(f, root), last))
    # ---- direction 2: every module the walker finds is loaded at the same dotted path ------------------------------------
    for name, ispkg in ref["walk"]:
        rec.count("walker_modules_checked")
        comps = name.split(".")[1:]
        desc = specs.get(name) or {}
        kind = ref_kind(desc)
        ispkg_from_dangling_link = False
        if case.get("links"):
            if kind in ("package", "module", "compiled") and not ispkg and _dangling_provider(name, specs):
                # the walker met a dangling link named like this module first and lists the name once, as a non-package; what
                # CPython imports is another entry (a later portion's package, say): only ispkg is the link's, not judged
                ispkg_from_dangling_link = True
                rec.count("walker_ispkg_taken_from_dangling_link_not_judged")
            if kind in ("absent", "namespace") and not ispkg and _dangling_provider(name, specs):
                # the walker lists names from the directory listing without looking at the files: a dangling (or looping)
                # link named like a module is listed, but CPython cannot import it - not a module (a same-named directory
                # without __init__.py may make the name importable as a namespace package: the walker would not list that)
                rec.count("walker_dangling_link_names_not_judged")
                mf = mods.get(name, {}).get("file")
                if isinstance(mf, str) and os.path.islink(mf) and not os.path.exists(mf):
                    problems.append(Problem("not-importable", name, f"{name}: loaded from a dangling link", mods[name], desc))
                continue
            through, last = link_on_the_way(desc.get("origin") or (desc.get("locations") or [None])[0], root)
            if through:
                rec.count("walker_modules_through_directory_link_checked")
            if last:
                rec.count("walker_packages_with_linked_init_checked" if ispkg else "walker_modules_from_file_link_checked")
        if unusual(comps[-1]):
            # a name `import` could not spell, yet found by CPython's package walker (and imported by it when a package)
            rec.count("walker_unusual_names_checked")
            rec.add_to_set("unusual_names_found_by_walker", comps[-1])
            if ispkg:
                rec.count("walker_unusual_package_names_checked")
        if any(unusual(c) for c in comps[:-1]):
            rec.count("walker_modules_below_unusual_package_checked")
        pdesc = specs.get(name.rsplit(".", 1)[0]) or {}
        where = desc.get("origin") or (desc.get("locations") or [None])[0]
        if where and pdesc.get("locations") and not _under(where, pdesc["locations"][0]):
            # CPython takes this module from a second or later directory of its parent's search locations
            rec.count("walker_modules_in_later_portion_checked")
            if ref_kind(pdesc) == "package" and pdesc.get("extended"):
                rec.count("walker_modules_in_later_legacy_portion_checked")
        if kind == "compiled":
            rec.count("compiled_names_checked")
            if name in mods or name in attempted_names:
                if (name, _rp(desc["origin"])) in attempts:
                    rec.count("compiled_names_same_file")
                continue
            problems.append(Problem("walker-module-missing", name, f"{name}: found by pkgutil.walk_packages (compiled name "
                                    f"{os.path.basename(desc['origin'])}) but never handed to the loader", sorted(mods), desc))
            continue
        if name not in mods:
            problems.append(Problem("walker-module-missing", name, f"{name}: found by pkgutil.walk_packages but not loaded",
                                    sorted(mods), desc))
        elif ispkg != mods[name]["flags"][0] and not ispkg_from_dangling_link and not any(p.name == name for p in problems):
            problems.append(Problem("classification", name, f"{name}: walker says ispkg={ispkg}", mods[name], desc))
    if ref["walk_errors"]:
        rec.count("walker_import_errors", len(ref["walk_errors"]))
    return problems


# ------------------------------------------------------------------------------------------
# mechanism classifiers (predicates over tree structure + observation; see known_findings.d/C14.json)
INLINE_DECLARATION = re.compile(r"__path__ = __import__\([\"']pkgutil[\"']\)\.extend_path\(__path__, __name__\)|"
                                r"__import__\([\"']pkg_resources[\"']\)\.declare_namespace\(__name__\)")
FINDINGS = ["C14-by-path-module-named-after-sibling-link", "C14-by-path-object-path-is-bare-name", "C14-by-path-file-in-non-package-directory-named-after-it",
            "C14-legacy-namespace-loses-to-later-package", "C14-legacy-namespace-portion-order",
            "C14-extend-path-declaration-not-recognised", "C14-nested-legacy-namespace-not-merged",
            "C14-mentioned-declaration-taken-as-namespace",
            "C14-pth-listing-order", "C14-file-taken-as-namespace-portion", "C14-namespace-duplicate-last-portion-wins",
            "C14-submodule-under-plain-module", "C14-stub-only-dir-taken-as-package", "C14-stubs-merged-then-replaced",
            "C14-seen-subpackage-descendants-leak", "C14-dotted-pyi-name-truncated",
            "C14-earlier-portion-dir-merged-into-regular-subpackage", "C14-stubs-only-namespace-keyerror"]


def top_of(name: str) -> str:
    return name.split(".", 1)[0]


def _under(path: str | None, directory: str) -> bool:
    if path is None:
        return False
    rp, d = _rp(path), _rp(directory)
    return rp == d or rp.startswith(d + os.sep)


class _NoCount:
    def count(self, *_a) -> None:
        pass


def _spec_view(ref: dict) -> dict:
    return {n: (d.get("found"), d.get("origin"), d.get("locations"), d.get("extended")) for n, d in ref["specs"].items()}


def _winner_first_counterfactual(case: dict, root: str, ref: dict, tdesc: dict) -> dict | None:
    """(kind, name) -> (observed, finding) of the problems that remain when the search path that holds the __init__.py
    CPython imports for the top-level legacy namespace package is moved to the front (classified by the other
    mechanisms).  None when that changes CPython's own answer."""
    winner = os.path.relpath(tdesc["origin"], root).split(os.sep)[0]
    search = [winner] + [s for s in case["search"] if s != winner]
    try:
        ref2 = reference(case, root, search)
    except ReferenceDied:
        return None
    if _spec_view(ref2) != _spec_view(ref) or sorted(map(tuple, ref2["walk"])) != sorted(map(tuple, ref["walk"])):
        return None
    obs2 = observe(case, root, 0, case["request"], search)
    problems2 = judge_against_cpython(case, root, ref2, obs2, _NoCount())
    classify(case, root, ref2, obs2, problems2, order_counterfactual=False)
    return {(q.kind, q.name): (json.dumps(q.observed, sort_keys=True, default=str), q.finding) for q in problems2}


def classify(case: dict, root: str, ref: dict, obs: dict, problems: list[Problem], order_counterfactual: bool = True) -> None:  # noqa: C901, PLR0912
    specs = ref["specs"]
    mods = obs.get("modules", {})
    by_name: dict = {}
    for p in problems:
        by_name.setdefault(p.name, []).append(p)

    def portion_index(path: str | None, parent_locs: list[str]) -> int | None:
        for i, loc in enumerate(parent_locs):
            if _under(path, loc):
                return i
        return None

    def expected_location(name: str) -> str | None:
        desc = specs.get(name) or {}
        return desc.get("origin") or (desc.get("locations") or [None])[0]

    # directories D that Griffe took as a (sub-)package because of D/__init__.pyi although D/__init__.py does not exist and D
    # is not (inside) a <name>-stubs package: dotted name -> D.  Read from the recorded load attempts.
    stub_dirs: dict[str, str] = {}
    for dotted, f, _outcome in obs.get("attempts", []):
        if os.path.basename(f) == "__init__.pyi" and not os.path.exists(f[:-1]) \
                and (TOP + "-stubs") not in os.path.relpath(f, root).split(os.sep):
            stub_dirs[dotted] = os.path.dirname(f)

    order_cf: dict = {}
    for p in sorted(problems, key=lambda q: ((q.name or "").count("."), q.name or "")):
        name = p.name or ""
        parent = name.rsplit(".", 1)[0] if "." in name else None
        info = mods.get(name)
        if p.kind == "namespace-portion-not-a-directory":
            p.finding = "C14-file-taken-as-namespace-portion"
            continue
        # C14-stubs-only-namespace-keyerror: find_stubs_package, no runtime package anywhere, and the first <name>-stubs
        # directory on the search paths has no __init__.pyi (namespace-style stubs-only package)
        if p.kind == "load-exception" and case.get("find_stubs_package") and obs["outcome"] == f"KeyError: '{case['request']}'" \
                and ref_kind(specs.get(case["request"])) == "absent":
            stub_dirs_on_path = [d for d in (os.path.join(sp, TOP + "-stubs") for sp in ref["sys_path"]) if os.path.isdir(d)]
            if stub_dirs_on_path and not any(os.path.exists(os.path.join(d, "__init__.pyi")) for d in stub_dirs_on_path):
                p.finding = "C14-stubs-only-namespace-keyerror"
                continue
        # C14-dotted-pyi-name-truncated: a stub file x.<more>.pyi was loaded as module x
        if p.kind == "file-does-not-spell-name" and str(p.observed).endswith(".pyi") \
                and os.path.basename(str(p.observed))[:-4].split(".", 1)[0] == p.expected \
                and "." in os.path.basename(str(p.observed))[:-4]:
            p.finding = "C14-dotted-pyi-name-truncated"
            continue
        # C14-stub-only-dir-taken-as-package: what CPython imports for this name lies outside a directory that Griffe took as
        # *the* package (or sub-package) only because it holds __init__.pyi; CPython sees such a directory as a namespace portion
        if p.kind in ("stub-hides-runtime", "walker-module-missing", "wrong-file", "top-not-found"):
            want = expected_location(name)
            hit = any((name == dn or name.startswith(dn + ".")) and want and not _under(want, d) for dn, d in stub_dirs.items())
            if hit:
                p.finding = "C14-stub-only-dir-taken-as-package"
                continue
        # C14-namespace-duplicate-last-portion-wins: the name exists in two portions of a namespace package, CPython imports
        # it from the earlier portion, Griffe kept the one from a later portion
        if p.kind in ("wrong-file", "classification", "stub-hides-runtime") and parent and info and not isinstance(info["file"], list):
            pdesc = specs.get(parent)
            if multi_portion(pdesc):
                i = portion_index(expected_location(name), pdesc["locations"])
                j = portion_index(info["file"], pdesc["locations"])
                both_init = os.path.basename(info["file"]).startswith("__init__.") and \
                    os.path.basename(expected_location(name) or "").startswith("__init__.")
                # (two regular sub-packages of the same name are de-duplicated by the finder's 'seen' set: not this finding)
                if i is not None and j is not None and j > i and not both_init:
                    p.finding = "C14-namespace-duplicate-last-portion-wins"
                    continue
        # ---- legacy namespace packages (CPython really executed pkgutil.extend_path for the package: desc["extended"]) -----
        tdesc = specs.get(top_of(name)) or {}
        tinfo = mods.get(top_of(name))
        # C14-legacy-namespace-loses-to-later-package: CPython imports the top-level package from an __init__.py that extends
        # __path__; Griffe took a regular package / module file of a LATER search path instead
        if p.kind == "wrong-file" and not parent and tdesc.get("extended") and info and not isinstance(info["file"], list):
            i, j = portion_index(tdesc["origin"], ref["sys_path"]), portion_index(info["file"], ref["sys_path"])
            if i is not None and j is not None and j > i:
                p.finding = "C14-legacy-namespace-loses-to-later-package"
                continue
        # C14-mentioned-declaration-taken-as-namespace: the __init__.py CPython imports for the top-level package contains the
        # literal declaration but CPython did not execute it (a comment / string): a regular package for CPython, while Griffe
        # made it a namespace portion (top-level module is a list of directories, or a later regular package / module won)
        if not parent and ref_kind(tdesc) == "package" and not tdesc.get("extended") and info \
                and INLINE_DECLARATION.search(source_text(case, root, tdesc["origin"])):
            if p.kind == "classification" and isinstance(info["file"], list):
                p.finding = "C14-mentioned-declaration-taken-as-namespace"
                continue
            if p.kind == "wrong-file" and not isinstance(info["file"], list):
                i, j = portion_index(tdesc["origin"], ref["sys_path"]), portion_index(info["file"], ref["sys_path"])
                if i is not None and j is not None and j > i:
                    p.finding = "C14-mentioned-declaration-taken-as-namespace"
                    continue
        # C14-legacy-namespace-portion-order: Griffe and CPython agree on the set of portions of the top-level legacy namespace,
        # but CPython searches the directory of the imported __init__.py first and Griffe keeps search-path order; the problem
        # at this name disappears when the search path holding that __init__.py is moved to the front (which leaves CPython's
        # answer unchanged - verified - and makes Griffe's order CPython's), or turns into another observation that one of the
        # other mechanisms explains
        if order_counterfactual and p.kind in ("wrong-file", "not-importable", "walker-module-missing", "classification", "stub-hides-runtime") and parent \
                and tdesc.get("extended") and tinfo and isinstance(tinfo["file"], list):
            g_order = [_rp(x) for x in tinfo["file"] if (TOP + "-stubs") not in x.split(os.sep)]
            c_order = tdesc["locations"]
            if set(g_order) == set(c_order) and g_order != c_order:
                if "cf" not in order_cf:
                    order_cf["cf"] = _winner_first_counterfactual(case, root, ref, tdesc)
                left = None if order_cf["cf"] is None else order_cf["cf"].get((p.kind, p.name), "gone")
                if left == "gone" or (left is not None and left[1] and left[1] != "C14-legacy-namespace-portion-order"
                                      and left[0] != json.dumps(p.observed, sort_keys=True, default=str)):
                    p.finding = "C14-legacy-namespace-portion-order"
                    continue
        # A module CPython takes from a second or later directory of the extended __path__ of its closest legacy-namespace
        # ancestor A, while Griffe has A as a regular package made of the directory of A's __init__.py alone:
        #  C14-nested-legacy-namespace-not-merged: A is a sub-package (the finder looks for declarations at top level only)
        #  C14-extend-path-declaration-not-recognised: A is top-level and its __init__.py spells the declaration in another way
        #  than the two literal one-liners (e.g. `from pkgutil import extend_path`)
        if p.kind in ("walker-module-missing", "stub-hides-runtime") and parent:
            want = expected_location(name)
            verdict = None
            for a in [name.rsplit(".", i)[0] for i in range(1, name.count(".") + 1)]:
                adesc = specs.get(a) or {}
                if not (ref_kind(adesc) == "package" and adesc.get("extended")):
                    continue
                k = portion_index(want, adesc["locations"])
                if k is None or k == 0:
                    continue        # (taken from the directory of a's own __init__.py: look further up)
                ainfo = mods.get(a)
                if not ainfo or isinstance(ainfo["file"], list) or _rp(ainfo["file"]) != _rp(adesc["origin"]):
                    break
                if "." in a:
                    verdict = "C14-nested-legacy-namespace-not-merged"
                else:
                    text = source_text(case, root, adesc["origin"])
                    if declares_namespace(text) and not INLINE_DECLARATION.search(text):
                        verdict = "C14-extend-path-declaration-not-recognised"
                break
            if verdict:
                p.finding = verdict
                continue
        # C14-submodule-under-plain-module: an ancestor in Griffe's own tree is a plain module file (P.py / P.pyi), which
        # cannot have sub-modules
        if p.kind == "not-importable" and parent and info and not isinstance(info["file"], list):
            ancs = [name.rsplit(".", i)[0] for i in range(1, name.count(".") + 1)]
            if any(a in mods and not isinstance(mods[a]["file"], list) and not mods[a]["flags"][0] for a in ancs):
                p.finding = "C14-submodule-under-plain-module"
                continue
        # Files attached below a regular sub-package P (loaded from directory D, inside a top-level namespace package) although
        # they do not lie in D - read from the recorded load attempts at this dotted name or an ancestor's:
        #  C14-seen-subpackage-descendants-leak: the foreign file comes from a LATER portion than D
        #  C14-earlier-portion-dir-merged-into-regular-subpackage: it comes from an EARLIER portion than D
        if p.kind in ("not-importable", "wrong-file", "classification", "stub-hides-runtime", "walker-module-missing") and parent \
                and isinstance(mods.get(top_of(name), {}).get("file"), list):
            top_locs = [_rp(x) for x in mods[top_of(name)]["file"]]
            verdict = None
            for dotted, f, _outcome in obs.get("attempts", []):
                if "." not in dotted or not (name == dotted or name.startswith(dotted + ".")):
                    continue
                pinfo = mods.get(dotted.rsplit(".", 1)[0])
                if not pinfo or isinstance(pinfo["file"], list) or not pinfo["flags"][0] or "." not in dotted.rsplit(".", 1)[0]:
                    continue
                d = os.path.dirname(pinfo["file"])
                if _under(f, d):
                    continue
                i, j = portion_index(d, top_locs), portion_index(f, top_locs)
                if i is None or j is None or i == j:
                    continue
                verdict = verdict or ("C14-seen-subpackage-descendants-leak" if j > i
                                      else "C14-earlier-portion-dir-merged-into-regular-subpackage")
            if verdict:
                p.finding = verdict
                continue
        # consequences of a classified problem on an ancestor (the children come from the wrongly chosen file / directory)
        anc = parent
        while anc:
            hit = [q for q in by_name.get(anc, []) if q.finding]
            if hit and (p.kind in ("not-importable", "wrong-file", "walker-module-missing", "classification", "stub-hides-runtime")
                        # (directories of other search paths merged below a package that is regular for CPython)
                        or (p.kind == "namespace-portions" and hit[0].finding == "C14-mentioned-declaration-taken-as-namespace")):
                p.finding = hit[0].finding
                break
            anc = anc.rsplit(".", 1)[0] if "." in anc else None


def _stub_replace_pins(case: dict, root: str, diff_at: str) -> set[str]:
    """Directories listing the providers of a dotted name that has >= 2 source providers (x.py, x/__init__.py, possibly
    in different portions) and >= 1 stub provider, when the difference lies below that module."""
    pins: set[str] = set()
    entries = virtual_entries(case)         # (paths as the loader meets them: through links too)
    for name, provs in name_providers(case).items():
        files_of = []
        for e in provs:
            if entries.get(e) == "file":
                files_of.append(e)
            else:
                files_of += [f"{e}/__init__.py", f"{e}/__init__.pyi"]
        files_of = [f for f in files_of if entries.get(f) == "file"]
        nsrc = sum(1 for f in files_of if f.endswith(".py") and os.path.basename(f).count(".") == 1)
        nstub = sum(1 for f in files_of if f.endswith(".pyi") and os.path.basename(f).count(".") == 1)
        chain = name.split(".")[1:]
        if nsrc >= 2 and nstub >= 1 and chain and diff_at.startswith("$" + "".join(f".members.{c}" for c in chain) + "."):
            pins |= {os.path.join(root, os.path.dirname(f)) for f in files_of}
    return pins


def _dotted_pyi_pins(case: dict, root: str, diff_at: str) -> set[str]:
    """Directories holding a stub x.<more>.pyi when the difference lies at / below module x of that directory."""
    pins: set[str] = set()
    for f in (e for e, k in virtual_entries(case).items() if k == "file"):
        b = os.path.basename(f)
        if b.endswith(".pyi") and "." in b[:-4] and not b.startswith("."):
            chain = os.path.dirname(f).split("/")[2:] + [b.split(".", 1)[0]]
            if (diff_at + ".").startswith("$" + "".join(f".members.{c}" for c in chain) + "."):
                pins.add(os.path.join(root, os.path.dirname(f)))
    return pins


def _pth_pins(case: dict, root: str, diff_at: str) -> set[str]:  # noqa: ARG001
    by_dir: dict[str, int] = {}
    for f in case["files"]:
        if f.endswith(".pth"):
            by_dir[os.path.dirname(f)] = by_dir.get(os.path.dirname(f), 0) + 1
    return {os.path.join(root, d) for d, n in by_dir.items() if n >= 2}


ORDER_MECHANISMS = [("C14-pth-listing-order", _pth_pins), ("C14-dotted-pyi-name-truncated", _dotted_pyi_pins),
                    ("C14-stubs-merged-then-replaced", _stub_replace_pins)]


def _mechanisms_known_first() -> list:
    """Mechanisms still listed as `known` are tried before repaired ones: the counterfactual (pin the blamed directories)
    of a repaired mechanism can succeed by accident when the same directory also hosts a known one."""
    from vf.core.rec import known_findings

    status = {fid: known_findings().get(fid, {}).get("status") for fid, _ in ORDER_MECHANISMS}
    return sorted(ORDER_MECHANISMS, key=lambda m: 0 if status.get(m[0]) == "known" else 1)


def classify_order_dependence(case: dict, root: str, request, base: dict, other: dict, other_k: int, search) -> list[str]:  # noqa: ANN001
    """Counterfactual predicates: the dependence disappears when exactly the directories named by the mechanism(s) are
    listed in sorted order while every other listing stays permuted.  Each round looks at the first remaining difference,
    asks every mechanism for the directories it blames for *that* difference, pins them, and re-observes; a mechanism
    counts only if pinning its directories changes the observation.  Returns the finding ids that together explain the
    difference, or [] when something is left unexplained."""
    found: list[str] = []
    pins: set[str] = set()
    current = other
    for _round in range(8):
        if same(current, base):
            return found
        at = "outcome" if current["outcome"] != base["outcome"] else describe_diff(base, current)["at"]
        progressed = False
        for fid, pins_of in _mechanisms_known_first():
            more = pins_of(case, root, at) - pins
            if not more:
                continue
            again = observe(case, root, other_k, request, search, pin_dirs=sorted(pins | more))
            if same(again, current):
                continue
            pins |= more
            current = again
            if fid not in found:
                found.append(fid)
            progressed = True
            break
        if not progressed:
            return []
    return found if same(current, base) else []


# ------------------------------------------------------------------------------------------
# requests by the path of a module's FILE (or of a directory below the top level)
REQUEST_STYLES = ["absolute-Path", "relative-Path", "absolute-str", "relative-str"]
MAX_FILE_REQUESTS = 4


def file_request_candidates(case: dict, ref: dict, obs: dict, problems: list[Problem]) -> list[dict]:
    """Paths that name one module unambiguously: Griffe's by-name tree has module N from file F, CPython imports N from F
    (or N is a stub-only module CPython does not know), and nothing was found wrong at N or above it.  Also the
    directories of sub-packages and of nested namespace packages."""
    bad = {p.name for p in problems if p.name}
    specs = ref["specs"]
    mods = obs["modules"]
    top_is_namespace = isinstance(mods[obs["top"]]["file"], list)
    out: list[dict] = []

    def add(cat: str, name: str, path: str) -> None:
        out.append({"cat": cat, "name": name, "path": path, "in_namespace": top_is_namespace})

    linked = bool(case.get("links"))

    def add(cat: str, name: str, path: str) -> None:  # noqa: F811
        if linked and os.path.realpath(path) != _rp(path):
            return          # a path that leads through a link: which dotted name it has is not judged (see ASSUMPTIONS)
        if linked and os.path.isfile(path) and os.path.islink(os.path.join(os.path.dirname(path), os.path.basename(path).split(".", 1)[0])):
            # x.py / x.pyi next to a LINK named x: the suffix-less name of the file is no path of its own, the link must not be
            # followed when the module is named (C14-by-path-module-named-after-sibling-link) - a class of its own
            cat = "file-next-to-same-named-link"
        out.append({"cat": cat, "name": name, "path": path, "in_namespace": top_is_namespace})

    for name in sorted(mods):
        chain = [name.rsplit(".", i)[0] for i in range(name.count(".") + 1)]
        if any(a in bad or ref_kind(specs.get(a)) == "compiled" for a in chain):
            continue
        f = mods[name]["file"]
        desc = specs.get(name) or {}
        nested = "." in name
        if isinstance(f, list):
            if nested and ref_kind(desc) == "namespace" and {_rp(x) for x in f} == set(desc["locations"]):
                for d in f:
                    add("namespace-directory", name, d)
            continue
        if (TOP + "-stubs") in f.split(os.sep) or os.path.basename(f).count(".") != 1:
            continue            # <name>-stubs packages and dotted file names are outside the statement
        is_init = os.path.basename(f).startswith("__init__.")
        if f.endswith(".pyi"):
            if ref_kind(desc) != "absent":
                continue
            add("stub-only-file", name, f)
            continue
        if _rp(desc.get("origin")) != _rp(f):
            continue
        if is_init:
            add("subpackage-init-file" if nested else "toplevel-init-file", name, f)
            if nested:
                add("subpackage-directory", name, os.path.dirname(f))
        else:
            add("submodule-file" if nested else "toplevel-module-file", name, f)
        if os.path.exists(f + "i"):
            add("stub-sibling-file", name, f + "i")
    return out


def pick_file_requests(case: dict, candidates: list[dict], limit: int = MAX_FILE_REQUESTS) -> list[dict]:
    rng = random.Random(case.get("perm_seed", 0) ^ 0x5EED)
    by_cat: dict[str, list[dict]] = {}
    for c in candidates:
        by_cat.setdefault(c["cat"], []).append(c)
    cats = sorted(by_cat)
    rng.shuffle(cats)
    always = [c for c in cats if c == "file-next-to-same-named-link"]          # rare: never crowded out by the limit
    picked = []
    for cat in always + [c for c in cats if c not in always][:limit]:
        c = dict(rng.choice(by_cat[cat]))
        c["style"] = rng.choice(REQUEST_STYLES)
        picked.append(c)
    return picked


def spell_request(path: str, style: str):  # noqa: ANN201
    """The request object for ``path`` (relative styles: relative to the working directory, the parent of the tree)."""
    text = os.path.relpath(path, os.getcwd()) if style.startswith("relative") else path
    return Path(text) if style.endswith("Path") else text


def judge_file_request(case: dict, root: str, req: dict, rec, search: list[str] | None = None,  # noqa: ANN001
                       name_search: list[str] | None = None) -> Problem | None:
    """load(<path of the file of module N>) gives the object N and the same tree as load('N')."""
    where = os.path.relpath(req["path"], root)
    bp = observe(case, root, 0, spell_request(req["path"], req["style"]), search)
    rec.count("by_file_path_requests")
    rec.count("by_file_path_" + req["cat"].replace("-", "_"))
    rec.count("by_file_path_style_" + req["style"].replace("-", "_"))
    if req.get("in_namespace"):
        rec.count("by_file_path_in_namespace_package")
    pr = None
    if bp["outcome"] != "ok":
        pr = Problem("by-file-path", req["name"], f"load({req['style']} of {where!r}) raised {bp['outcome']}; it is the "
                     f"{req['cat']} of module {req['name']}", bp["outcome"], f"the module {req['name']}")
    elif bp["top"] != req["name"]:
        pr = Problem("by-file-path", req["name"], f"load({req['style']} of {where!r}) returned the object {bp['top']!r}",
                     bp["top"], req["name"])
    else:
        bn = observe(case, root, 0, req["name"], name_search or search)
        rec.count("by_file_path_trees_compared")
        if not same(bn, bp):
            pr = Problem("by-file-path", req["name"], f"load({req['style']} of {where!r}) differs from load({req['name']!r})",
                         describe_diff(bn, bp), "identical canonical JSON of the module and of its package")
    if pr is not None:
        pr.finding = classify_file_request(req, bp)
    return pr


def classify_file_request(req: dict, bp: dict) -> str | None:
    """Mechanisms of a failed by-file-path request, read from what the loader was handed (load attempts)."""
    name, path = req["name"], _rp(req["path"])
    last = name.rsplit(".", 1)[-1]
    loaded = {(n, _rp(f)) for n, f, o in bp.get("attempts", []) if o == "loaded"}
    # C14-by-path-module-named-after-sibling-link: the file x.py sits next to a symbolic link x, and the object that came back
    # (or the name that was not found) ends with the name of the link's TARGET instead of x
    sibling = os.path.join(os.path.dirname(path), os.path.basename(path).split(".", 1)[0])
    if os.path.isfile(path) and os.path.islink(sibling):
        target_name = os.path.basename(os.path.realpath(sibling))
        got = bp.get("top") if bp["outcome"] == "ok" else bp["outcome"].split("'")[1] if bp["outcome"].startswith("KeyError: '") else None
        if target_name != last and got is not None and got.rsplit(".", 1)[-1] == target_name:
            return "C14-by-path-module-named-after-sibling-link"
    if bp["outcome"] != f"KeyError: '{last}'":
        return None
    is_dir = os.path.isdir(path)
    if "." in name:
        # C14-by-path-object-path-is-bare-name: the package was loaded and holds the module at its dotted path, but the object
        # looked up afterwards is the bare last component of that path
        # (a directory may hold nothing loadable itself: then the sign is that its top-level package was handed to the loader)
        hit = any(n == name and (f == path or (is_dir and os.path.dirname(f) == path)) for n, f in loaded) or \
            (is_dir and any(n == top_of(name) or n.startswith(top_of(name) + ".") for n, _f, _o in bp.get("attempts", [])))
        return "C14-by-path-object-path-is-bare-name" if hit else None
    # C14-by-path-file-in-non-package-directory-named-after-it: the module's own file was loaded, as <directory name>.<module>
    if not is_dir and (os.path.basename(os.path.dirname(path)) + "." + name, path) in loaded:
        return "C14-by-path-file-in-non-package-directory-named-after-it"
    return None


# ------------------------------------------------------------------------------------------
def run_case(rec, case: dict) -> None:  # noqa: ANN001, C901, PLR0912, PLR0915
    root = os.path.realpath(tempfile.mkdtemp(prefix="vf14-"))
    nt = nontrivial(case)
    old_cwd = os.getcwd()
    try:
        with case_watchdog(300):
            write_tree(case, root)
            # as_json(full=True) needs a namespace package to lie below the working directory (relative_filepath raises
            # otherwise; a serialisation matter outside this property), so the tree's parent is the working directory.
            os.chdir(os.path.dirname(root))
            try:
                ref = reference(case, root)
            except ReferenceDied as exc:
                rec.inconclusive(case, str(exc))
                return
            K = int(case.get("perms", 6))
            problems: list[Problem] = []
            try:
                base = observe(case, root, 0, case["request"])
                rec.count("trees_judged")
                if case.get("links"):
                    rec.count("link_trees_judged")
                    for lk in case.get("link_kinds", {}).values():
                        rec.count("links_" + lk.replace("-", "_"))
                if has_pth(case):
                    rec.count("pth_trees_judged")
                problems += judge_against_cpython(case, root, ref, base, rec)
                classify(case, root, ref, base, problems)
                # ---- listing-order independence ---------------------------------------------------------------------------------
                by_k = {0: base}
                for k in range(1, K):
                    other = by_k[k] = observe(case, root, k, case["request"])
                    rec.count("permutations_compared")
                    if not same(base, other):
                        diff = describe_diff(base, other)
                        ids = classify_order_dependence(case, root, case["request"], base, other, k, None)
                        for fid in ids or [None]:
                            pr = Problem("order-dependence", None, f"listing order #{k} gives another tree than order #0",
                                         diff, "identical canonical JSON")
                            pr.finding = fid
                            problems.append(pr)
                        break
                rec.maximum("max_directory_entries", listing.ORDER.max_entries)
                # ---- by dotted name vs by path of the top-level directory (same listing order on both sides) ---------
                if base["outcome"] == "ok":
                    if not base.get("json_full", True):
                        rec.count("full_json_unavailable_base_json_used")
                    f = base["modules"][base["top"]]["file"]
                    targets = list(f) if isinstance(f, list) else [os.path.dirname(f) if os.path.basename(f).startswith("__init__.") else f]
                    for t_i, target in enumerate(targets):
                        if not os.path.isdir(target) or os.path.basename(target) != case["request"]:
                            continue        # the statement speaks of the package's top-level *directory* only
                        if os.path.realpath(target) != _rp(target):
                            rec.count("by_path_through_link_not_judged")    # which name a path reached through a link has: not judged
                            continue
                        for k in sorted({0, 1 + ((t_i + case.get("perm_seed", 0)) % max(1, K - 1))} & set(by_k)):
                            bp = observe(case, root, k, Path(target))
                            rec.count("by_path_compared")
                            if not same(by_k[k], bp):
                                pr = Problem("by-path", None, f"load(Path({os.path.relpath(target, root)!r})) differs from "
                                             f"load({case['request']!r}) (both under listing order #{k})",
                                             describe_diff(by_k[k], bp), "identical canonical JSON")
                                problems.append(pr)
                                break
                    # ---- a directory requested by path wins over same-named packages on the search paths --------------
                    regs = [s for s in case["search"] if f"{s}/{TOP}/__init__.py" in case["files"]]
                    if len(regs) >= 1 and len(case["search"]) >= 2 and not has_pth(case):
                        s = regs[-1]
                        others = [x for x in case["search"] if x != s]
                        bp = observe(case, root, 0, Path(os.path.join(root, s, TOP)), search=others)
                        ref_order = observe(case, root, 0, case["request"], search=[s] + others)
                        rec.count("by_path_outside_search_paths_compared")
                        if not same(bp, ref_order):
                            problems.append(Problem("by-path", None, f"load(Path('{s}/{TOP}'), search_paths={others}) differs from "
                                                    f"load('{TOP}', search_paths={[s] + others})", describe_diff(ref_order, bp),
                                                    "the requested directory is the package"))
                    # ---- requests by the path of a module's file / of a directory below the top level -------------------
                    for req in pick_file_requests(case, file_request_candidates(case, ref, base, problems)):
                        pr = judge_file_request(case, root, req, rec)
                        if pr is not None:
                            problems.append(pr)
                    # ---- ... of a file outside every search path: below a regular package (its topmost __init__ directory
                    # is the top-level package), or in a directory that is no package (the file is its own top-level module)
                    if len(case["search"]) >= 2 and not has_pth(case):
                        rng = random.Random(case.get("perm_seed", 0) ^ 0xF11E)
                        holders = [x for x in case["search"] if f"{x}/{TOP}/__init__.py" in case["files"] or f"{x}/{TOP}.py" in case["files"]]
                        if holders:
                            s = rng.choice(holders)
                            others = [x for x in case["search"] if x != s]
                            inside = observe(case, root, 0, case["request"], search=[s] + others)
                            ref_s = reference(case, root, [s] + others)
                            if inside["outcome"] == "ok" and _under(ref_s["specs"][TOP].get("origin"), os.path.join(root, s)) \
                                    and ref_kind(ref_s["specs"][TOP]) in ("package", "module") and not ref_s["specs"][TOP].get("extended"):
                                # (only below an unbroken chain of regular packages: a directory without __init__.py on the
                                # way ends the chain, and what lies above it cannot be known from the path alone)
                                cands = [c for c in file_request_candidates(case, ref_s, inside, [])
                                         if _under(c["path"], os.path.join(root, s))
                                         and all(ref_kind(ref_s["specs"].get(c["name"].rsplit(".", i)[0])) == "package"
                                                 for i in range(1, c["name"].count(".") + 1))]
                                for req in pick_file_requests(case, cands, 2):
                                    req["cat"] = "outside-" + req["cat"]
                                    pr = judge_file_request(case, root, req, rec, search=others, name_search=[s] + others)
                                    rec.count("by_file_path_outside_search_paths")
                                    if pr is not None:
                                        problems.append(pr)
                    # ---- a path that does not exist: the documented exceptions -----------------------------------------------
                    style = REQUEST_STYLES[case.get("perm_seed", 0) % len(REQUEST_STYLES)]
                    missing = observe(case, root, 0, spell_request(os.path.join(root, case["search"][0], "nowhere", "absent.py"), style))
                    rec.count("by_file_path_missing_checked")
                    want = "FileNotFoundError" if style.endswith("Path") else "ModuleNotFoundError"
                    if missing["outcome"] != want:
                        problems.append(Problem("by-file-path", None, f"load({style} of a file that does not exist) gave "
                                                f"{missing['outcome']}", missing["outcome"], want))
            except ReferenceDied as exc:
                rec.inconclusive(case, str(exc))
                return
            except Exception as exc:  # noqa: BLE001
                rec.fail_exc(case, "exception while loading / serialising a generated tree", exc, nontrivial=nt)
                return
    finally:
        rec.count("listings_permuted", listing.ORDER.permuted)
        listing.ORDER.permuted = 0
        os.chdir(old_cwd)
        shutil.rmtree(root, ignore_errors=True)
    report(rec, case, problems, nt, ref)


def report(rec, case: dict, problems: list[Problem], nt: bool, ref: dict) -> None:  # noqa: ANN001
    tags = ["top:" + ref_kind(ref["specs"].get(case["request"]))]
    if has_pth(case):
        tags.append("pth")
    if case.get("find_stubs_package"):
        tags.append("find_stubs_package")
    unknown = [p for p in problems if not p.finding]
    tried = FINDINGS
    if unknown:
        p = unknown[0]
        rec.fail(case, p.what, observed={"first": p.observed, "all_problems": [q.as_dict() for q in problems][:12]},
                 expected=p.expected, nontrivial=nt, tags=tags, tried=tried)
        return
    if problems:
        seen: set[str] = set()
        for p in problems:
            if p.finding in seen:
                continue
            first = not seen
            seen.add(p.finding)
            if first:
                rec.fail(case, p.what, observed=p.observed, expected=p.expected, finding=p.finding, nontrivial=nt, tags=tags,
                         tried=tried)
                if p.finding not in rec.known:       # the finding is not (or no longer) listed as known: reported as violation
                    return
            else:
                from vf.core.rec import known_findings

                entry = known_findings().get(p.finding)
                if entry is None or entry.get("status") != "known":
                    rec.fail(case, p.what, observed=p.observed, expected=p.expected, finding=p.finding, nontrivial=nt,
                             tried=tried)
                    return
                k = rec.known.setdefault(p.finding, {"count": 0, "first": None})
                k["count"] += 1
                if k["first"] is None:
                    k["first"] = {"input": case, "what": p.what, "observed": p.observed, "expected": p.expected}
        return
    rec.ok(case, nontrivial=nt, tags=tags)


# ------------------------------------------------------------------------------------------
def shards(tier: str, seed: int) -> list[dict]:
    if tier == "quick":
        return [{"count": 80, "perms": 6} for _ in range(16)]
    return [{"count": 313, "perms": 24} for _ in range(16)]


def run_shard(spec: dict, rec) -> None:  # noqa: ANN001
    listing.install()
    listing.install_low_level()
    rng = random.Random(spec["seed"])
    for _ in range(spec["count"]):
        run_case(rec, gen_case(rng, spec["perms"]))


def run_replay(inp: dict, rec) -> None:  # noqa: ANN001
    listing.install()
    listing.install_low_level()
    run_case(rec, inp)


def run_pinned(findings: list[dict], rec) -> dict:  # noqa: ANN001
    from vf.core.rec import Recorder

    listing.install()
    listing.install_low_level()
    out = {}
    for f in findings:
        sub = Recorder(PROP, {})
        run_case(sub, f["witness"])
        hit = f["id"] in sub.known
        detail = (sub.known[f["id"]]["first"]["what"] if hit else
                  sub.fails[0]["what"] + " (NOT classified as this finding)" if sub.fails else
                  "other finding(s): " + ", ".join(sub.known) if sub.known else "passes")
        out[f["id"]] = {"reproduced": hit or bool(sub.n_fail), "detail": detail}
        for k, v in sub.counters.items():
            rec.count("pinned_" + k, v)
    return out
