"""C05 — Imports, re-exports and wildcards resolve exactly as CPython imports them.

Workload: generated acyclic multi-module packages (vf.gen.packages): local definitions with
public/underscore names, absolute/relative/aliased/wildcard imports from earlier modules,
``__all__`` absent / list / tuple / concatenation / ``+=`` / built from another module's
``__all__``, statements in random order, deliberate name clashes, re-export chains.  Bound names
(definitions and import aliases) also come in every underscore *shape* (dunder ``__version__``-like
names, neutral module hooks ``__getattr__``/``__dir__``, class-private style, sunder, ``_``, trailing
underscore) and are spelled like the structural names of the package (the module itself, its
ancestors, other modules); sub-modules are also fetched as ``from a.b import c``.  From-import
statements carry several names, plain and renamed ones mixed, in every form (members, sub-modules by
``from . import`` / ``from .. import`` / ``from a.b import``, sub-modules and members together), on one
line, parenthesised, one name per line, or split into one statement per name.
`__all__` is composed in every direction of the package tree that is importable at that point: from a
descendant, a sibling, a module of another package and - in "late" modules nothing else imports - from
the parent / grandparent package (`from .. import __all__ as n`, `import pkg` + `pkg.__all__`,
`import m as n`), from several sources at once, in chains, with `+`, `+=` and star-unpacking; names an
`__all__` expression reads are never re-bound later in the module.  Module.exports is compared with
CPython's `__all__` list (first occurrences, in order; no unexpanded element may remain).
40% of the cases are *loading sessions*: the code is spread over 2-3 top-level packages (later ones
import from earlier ones, wildcards below same-named local definitions included), loaded one after
the other by ONE loader in random order, with resolve_aliases(implicit/external variants) between
loads sometimes and packages left for resolve_aliases(external=True) to pull in; the state after the
last step is judged against CPython's import of all packages.
20% of the cases are *partial sessions* (gen_partial): 2-4 top-level packages, ANY non-empty subset of them loaded
explicitly in any order (resolve_aliases() between loads sometimes), then the deciding call with implicit x external
True/None/False - `resolve_aliases(...)` or the `griffe.load(..., resolve_aliases=True, resolve_external=...)` shortcut; the
harness never loads the other packages.  CPython stays the oracle for every module the collection ends up holding; with
external=True the collection must hold every package the wildcard / alias chains of the loaded code lead through (model
from the sources, confirmed by CPython importing only the explicitly loaded packages) and nothing no import statement
leads to; with None/False it must hold nothing more than was loaded, and the names whose provenance passes a package
that is not held (reference model "last binding statement wins", followed through named imports and wildcards) are out
of the judged state, as are placeholders over such packages - everything else is judged as usual.
The loading-order mechanism (C05-wildcard-consumed-…) explains a missing name only when the importer's wildcard can have
been expanded by a pass that must not load packages (a `_post_load`, a resolve with external False/None) - decided from
the observed sequence of package loads and resolve calls.
Oracle (M-REF): a separate CPython child really imports the package and reports, per module, the
names and the *defining identity* of every value.  Griffe: static load + resolve_aliases(
implicit=True); names and final targets are compared; every resolved alias must present its
target (kind, docstring, labels, parameters, members rebased under the alias path).
"""
from __future__ import annotations

import random

from vf.core.util import case_watchdog, tmp_tree
from vf.gen import packages
from vf.ref.pyref import RefServer

PROP = "C05"
LEVEL = "exploration"
ANCHORS = ["loader.py", "agents/nodes/exports.py"]
RULE = ("generated acyclic packages of 3-8 modules (0-2 sub-packages, optional nested sub-package): 2-7 statements per "
        "module drawn from definitions (func/class/unique-string value, public and underscore names, 25% from a shared "
        "pool to force clashes), from-imports (absolute/relative, aliased), module imports (import a.b [as c], from . import "
        "m [as n], from a.b import m [as n]), wildcard imports, __all__ forms (list, tuple, concatenation, +=, other module's "
        "__all__ + list). 10% of bound names are underscore-shaped (dunder, module hooks, class-private style, sunder, "
        "'_', trailing '_'), 10% are spelled like the module itself / an ancestor package / another module. "
        "60% of first __all__ statements are compositions of other modules' __all__ (descendant, sibling, other package, and - "
        "from 'late' modules nothing imports - ancestor packages; 1-3 sources, chains, +, +=, star-unpacking; through import m [as n] "
        "+ n.__all__ or from m import __all__ as n). 40% loading sessions: 2-3 top-level packages importing from one another, one loader, random load order, "
        "resolve_aliases() between loads (implicit x external False/None/True), optionally a package only external=True pulls "
        "in; judged after the last step. 20% partial sessions: 2-4 packages, any non-empty subset loaded explicitly in any order, then "
        "resolve_aliases / griffe.load(resolve_aliases=True) with implicit x external True/None/False; the others are only ever loaded by Griffe on demand. "
        "Only packages CPython imports without error are judged. distinct = digest of files; non-trivial = >=1 wildcard, "
        ">=1 __all__ and a re-export chain of length >=2")
LEVEL_TEXT = ("Each generated package is really imported by a CPython child and statically loaded by Griffe with alias "
              "resolution; per module the visible names (minus the dunders the interpreter sets itself and implicitly bound sub-modules, "
              "dropped symmetrically) and the defining object every name finally refers to must be equal; resolved aliases "
              "are checked to present their target's kind/docstring/labels/signature/members with rebased paths.")
LEVEL_NOTE = ("trusted: CPython's import system in a child interpreter; values identify their definition through unique "
              "string literals / __module__.__qualname__; acyclic layering of the generator (cyclic graphs are C06's domain)")
TECHNIQUE = "runtime monitoring: differential oracle against a real CPython import of the same package + alias-presentation invariants"
REQUIRED_COUNTERS = ["packages_compared", "modules_compared", "names_compared", "final_targets_compared",
                     "alias_presentations_checked", "wildcard_expansions_observed",
                     "wildcards_over_underscore_names_without_all", "wildcards_over_dunder_names_without_all",
                     "wildcards_exporting_underscore_names_through_all", "dunder_names_compared",
                     "underscore_shaped_names_compared", "namespace_spelled_names_compared",
                     "sessions_compared", "session_loads_after_a_resolve", "session_wildcard_expansions_after_first_resolve",
                     "session_packages_pulled_in_by_external_resolve", "late_wildcards_over_another_package",
                     "late_wildcards_overriding_earlier_local_definition",
                     "exports_lists_compared", "composed_exports_lists_compared", "exports_composed_from_ancestor",
                     "exports_composed_from_ancestor_itself_composed", "exports_composed_from_descendant",
                     "exports_composed_from_sibling_or_cousin", "exports_composition_chains",
                     "exports_composed_from_several_sources", "exports_compositions_star", "exports_compositions_augassign",
                     "exports_compositions_imported_all_name", "exports_compositions_dotted_module",
                     "multi_name_import_statements", "multi_name_imports_mixing_plain_and_renamed", "multi_line_import_statements",
                     "multi_name_from_dots_imports", "multi_name_relative_imports", "multi_name_absolute_imports",
                     "init_from_dot_imports_mixing_plain_and_renamed",
                     "init_from_dot_imports_with_renamed_child_next_to_plain_names",
                     "multi_name_imports_mixing_sub_modules_and_members",
                     "partial_sessions_compared", "partial_sessions_external_true", "partial_sessions_external_none",
                     "partial_sessions_external_false", "partial_sessions_through_load_shortcut",
                     "partial_required_packages_checked", "partial_sessions_requiring_two_or_more_unloaded_packages",
                     "partial_chains_crossing_two_unloaded_packages_wildcard", "partial_chains_crossing_two_unloaded_packages_named",
                     "partial_chains_crossing_two_unloaded_packages_mixed",
                     "partial_external_true_sessions_with_wildcard_chain_over_two_unloaded_packages",
                     "partial_sessions_judged_with_packages_left_unloaded", "partial_names_out_of_reach_not_judged",
                     "partial_placeholders_over_unloaded_packages_left"]
EXHAUSTIVE = {"quick": False, "thorough": False}
ASSUMPTIONS = ["import graphs are acyclic by construction (across the packages of a session too)",
               "partial sessions: names whose provenance passes a package that is not in the collection are not judged (nothing is specified for them)",
               "a session never loads a package twice; when its last resolve_aliases() loaded packages itself, one more call settles the data (loader documentation); partial sessions: calls with the same flags are repeated until one loads no package", "implicitly bound sub-modules (not bound by a statement of that module) are dropped on both sides"]
_SERVER: RefServer | None = None
_WILD = [0]
_LOADED: list[str] = []     # packages in the order the loader finished loading them (on_package_loaded), whoever asked
_EVENTS: list[list] = []    # ["loaded", package, packages in the collection] / ["resolve", external, packages in the collection at its start]
_PENDING: list = []         # resolve event of a `griffe.load(..., resolve_aliases=True)` shortcut: logged right after that package's load event


def server() -> RefServer:
    global _SERVER
    if _SERVER is None:
        _SERVER = RefServer()
    return _SERVER


def shards(tier: str, seed: int) -> list[dict]:
    n = 150 if tier == "quick" else 2500
    return [{"count": n} for _ in range(16)]


def make_ext():  # noqa: ANN201
    import griffe

    class Counter(griffe.Extension):
        def on_wildcard_expansion(self, *, alias, loader, **kwargs):  # noqa: ANN001, ANN003, ARG002
            _WILD[0] += 1

        def on_package_loaded(self, *, pkg, loader, **kwargs):  # noqa: ANN001, ANN003, ARG002
            _LOADED.append(pkg.name)
            _EVENTS.append(["loaded", pkg.name, sorted(loader.modules_collection.members)])
            if _PENDING and _PENDING[0][0] == pkg.name:
                _EVENTS.append(["resolve", _PENDING.pop(0)[1], sorted(loader.modules_collection.members)])

    return Counter()


def default_session(tops: list[str]) -> list[list]:
    return [*(["load", t] for t in tops), ["resolve", {"implicit": True, "external": False}]]


def run_session(tops: list[str], session: list[list], root, rec=None, partial: bool = False) -> tuple[list, object, dict]:  # noqa: ANN001, C901
    """One loader, the session's steps in order: ["load", top] / ["resolve", {"implicit":…, "external":…}] /
    ["load", top, {"implicit":…, "external":…}] (the `griffe.load(top, resolve_aliases=True, resolve_implicit=…,
    resolve_external=…)` shortcut on the shared collection).  A package that an earlier resolve_aliases(external=True)
    already pulled in is not loaded a second time (re-loading replaces a tree other aliases already point into: C06's
    domain, not this one).  Default sessions: afterwards every top must be present; the final state is what gets judged.
    ``partial`` sessions load only a subset of the packages explicitly and never load the others themselves: what the
    collection holds after the last step is judged as it is."""
    import griffe

    exts = griffe.load_extensions(make_ext())
    loader = griffe.GriffeLoader(search_paths=[root], allow_inspection=False, extensions=exts)
    stats = {"loads_after_a_resolve": 0, "expansions_after_first_resolve": 0, "pulled_in_by_external": 0, "late_explicit_loads": 0}
    resolved_once = False
    pulled_in_now = False
    wild_at_first_resolve = None
    last_flags = None
    _LOADED.clear()
    _EVENTS.clear()
    _PENDING.clear()
    for op, arg, *more in session:
        if op == "load":
            if arg in loader.modules_collection:
                stats["pulled_in_by_external"] += 1
                if more:
                    # the package is there already: what is left of the shortcut is its resolve_aliases() call
                    n_loaded = len(_LOADED)
                    _EVENTS.append(["resolve", more[0].get("external", False), sorted(loader.modules_collection.members)])
                    loader.resolve_aliases(implicit=bool(more[0].get("implicit", True)), external=more[0].get("external", False))
                    pulled_in_now = len(_LOADED) > n_loaded
                    last_flags = more[0]
                    if not resolved_once:
                        resolved_once = True
                        wild_at_first_resolve = _WILD[0]
                continue
            if more:
                flags = more[0]
                n_loaded = len(_LOADED)
                _PENDING.append([arg, flags.get("external", False)])
                griffe.load(arg, search_paths=[root], allow_inspection=False, extensions=exts, try_relative_path=False,
                            modules_collection=loader.modules_collection, lines_collection=loader.lines_collection,
                            resolve_aliases=True, resolve_implicit=bool(flags.get("implicit", True)),
                            resolve_external=flags.get("external", False))
                _PENDING.clear()
                pulled_in_now = len(_LOADED) > n_loaded + 1
                last_flags = flags
                if not resolved_once:
                    resolved_once = True
                    wild_at_first_resolve = _WILD[0]
                continue
            loader.load(arg)
            if resolved_once:
                stats["loads_after_a_resolve"] += 1
        else:
            n_loaded = len(_LOADED)
            _EVENTS.append(["resolve", arg.get("external", False), sorted(loader.modules_collection.members)])
            loader.resolve_aliases(implicit=bool(arg.get("implicit", True)), external=arg.get("external", False))
            pulled_in_now = len(_LOADED) > n_loaded
            last_flags = arg
            if not resolved_once:
                resolved_once = True
                wild_at_first_resolve = _WILD[0]
    if session and (session[-1][0] == "resolve" or len(session[-1]) > 2) and pulled_in_now:
        # the last call loaded packages itself: data "requires subsequent calls" (loader docs) - settle once more
        settle = {"implicit": True, "external": False}
        if partial:
            settle = {"implicit": bool(last_flags.get("implicit", True)), "external": last_flags.get("external", False)}
        stats["settle_resolves"] = 0
        while pulled_in_now and stats["settle_resolves"] <= len(tops):
            # partial sessions: a settling call that loads packages itself needs a subsequent call just the same
            n_loaded = len(_LOADED)
            _EVENTS.append(["resolve", settle["external"], sorted(loader.modules_collection.members)])
            loader.resolve_aliases(**settle)
            stats["settle_resolves"] += 1
            pulled_in_now = partial and len(_LOADED) > n_loaded
    for t in tops if not partial else ():
        if t not in loader.modules_collection:
            # nothing the session resolved pointed into it: load it now (same loader) and settle once more
            loader.load(t)
            stats["late_explicit_loads"] += 1
            _EVENTS.append(["resolve", False, sorted(loader.modules_collection.members)])
            loader.resolve_aliases(implicit=True, external=False)
    if wild_at_first_resolve is not None:
        stats["expansions_after_first_resolve"] = _WILD[0] - wild_at_first_resolve
    stats["load_order"] = list(_LOADED)
    stats["events"] = [list(e) for e in _EVENTS]
    held = [t for t in tops if t in loader.modules_collection]
    return [loader.modules_collection.get_member(t) for t in held], loader, stats


def walk_modules(mod):  # noqa: ANN001
    yield mod
    for m in mod.members.values():
        if not m.is_alias and m.is_module:
            yield from walk_modules(m)


def judge(rec, case, files, tops, ref, pkgs, load_order=(), events=None, part: dict | None = None) -> list[tuple]:  # noqa: ANN001, C901, PLR0912
    """Returns every problem found as (what, observed, expected, finding, tried); judging goes on after a problem so that
    a refutation of a listed mechanism cannot hide an unlisted one in the same package.  ``part`` (partial sessions):
    {"held": packages in the collection, "tainted": per module the names whose provenance passes a package that is not
    held, "uncertain_exports": modules whose `__all__` is composed from such a package} - those names / lists are outside
    the judged state (nothing can be said about them while their source is not loaded), everything else is judged."""
    problems: list[tuple] = []
    from _griffe.exceptions import AliasResolutionError, CyclicAliasError

    implicit = implicit_submodule_names(files, ref)
    collection = pkgs[0].modules_collection
    late = session_effects(files, ref, list(load_order), events)
    held = set(part["held"]) if part else None
    compositions = all_references(files, set(ref["modules"]))
    for gmod in (m for pkg in pkgs for m in walk_modules(pkg)):
        rmod = ref["modules"].get(gmod.path)
        if rmod is None:
            problems.append((f"module {gmod.path} loaded by griffe but not importable by CPython", gmod.path, None, None, []))
            continue
        rec.count("modules_compared")
        rel = gmod.path.replace(".", "/")
        src = files.get(rel + "/__init__.py") if gmod.is_package or gmod.is_subpackage else files.get(rel + ".py")
        if src is None:
            src = files.get(rel + "/__init__.py", files.get(rel + ".py", ""))
        drop = set(implicit.get(gmod.path, set()))
        if part:
            out_of_reach = part["tainted"].get(gmod.path, set()) - drop
            rec.count("partial_names_out_of_reach_not_judged", len(out_of_reach))
            drop |= out_of_reach
        rnames = {n: v for n, v in rmod["names"].items() if n not in drop}
        gnames = {}
        for n, m in gmod.members.items():
            if n.endswith("/*"):
                if held is not None and (m.wildcard or "").split(".", 1)[0] not in held:
                    rec.count("partial_placeholders_over_unloaded_packages_left")
                    continue    # its source package is not loaded: the placeholder has to stay
                problems.append((f"unexpanded wildcard placeholder {gmod.path}.{n} left in an acyclic, fully loaded package", n, None, None, []))
                continue
            if n in drop:
                continue
            if not m.is_alias and m.is_module and n not in rmod["names"]:
                continue  # a sub-module CPython never bound on the parent because nothing imported it there
            gnames[n] = m
        if set(gnames) != set(rnames):
            missing = sorted(set(rnames) - set(gnames))
            extra = sorted(set(gnames) - set(rnames))
            fid, tried = classify_names(gmod.path, missing, extra, files, ref, late)
            problems.append((f"names visible in {gmod.path} differ", {"missing_in_griffe": missing, "extra_in_griffe": extra},
                             sorted(rnames), fid, tried))
            rnames = {n: v for n, v in rnames.items() if n in gnames}   # go on with the names both sides have
        rec.count("names_compared", len(rnames))
        structural = {part for m in ref["modules"] for part in m.split(".")}
        for n in rnames:
            if n == "__all__":
                continue
            if packages.is_dunder(n):
                rec.count("dunder_names_compared")
            elif n.startswith("_") or n.endswith("_"):
                rec.count("underscore_shaped_names_compared")
            if n in structural:
                rec.count("namespace_spelled_names_compared")
        # exports: Module.exports against the real `__all__` list (order and repetitions included)
        if rmod["all"] is None:
            if gmod.exports is not None:
                problems.append((f"{gmod.path} has exports although CPython's module has no __all__", [str(e) for e in gmod.exports], None, None, []))
                continue
        elif part and gmod.path in part["uncertain_exports"]:
            rec.count("partial_exports_composed_from_unloaded_package_not_judged")
        else:
            rec.count("exports_lists_compared")
            if gmod.path in compositions:
                rec.count("composed_exports_lists_compared")
            unexpanded = [str(e) for e in gmod.exports or () if not isinstance(e, str)]
            if unexpanded:
                fid = F_EXPORTS_STACK if gmod.path in late["groups"].get(F_EXPORTS_STACK, {}).get("raw", ()) else None
                problems.append((f"__all__ of {gmod.path} keeps unexpanded element(s) after loading and resolving", unexpanded,
                                 rmod["all"], fid, [F_EXPORTS_STACK]))
                continue
            gall = None if gmod.exports is None else [e if isinstance(e, str) else e.name for e in gmod.exports]
            # repetitions carry no meaning for `import *` (Griffe drops those coming from a spliced-in list, CPython's list
            # keeps them): compared by first occurrences, in order
            if gall is None or list(dict.fromkeys(gall)) != list(dict.fromkeys(rmod["all"])):
                fid, tried = classify_exports(gmod.path, gall, rmod["all"], late)
                problems.append((f"__all__ of {gmod.path} differs", gall, rmod["all"], fid, tried))
                continue
        for n, want in rnames.items():
            m = gnames[n]
            if n == "__all__":
                continue
            rec.count("final_targets_compared")
            try:
                final = m.final_target if m.is_alias else m
            except (AliasResolutionError, CyclicAliasError) as exc:
                fid, tried = classify_target(gmod.path, n, {}, want, files, ref, late, collection)
                problems.append((f"{gmod.path}.{n}: alias cannot be resolved in a fully loaded acyclic package", repr(exc)[:200], want, fid, tried))
                continue
            if want["k"] == "value":
                got = {"k": "value", "id": final.path if final.is_attribute else f"<{final.kind.value}> {final.path}"}
            elif want["k"] in ("class", "function", "module"):
                got = {"k": final.kind.value, "id": final.path}
            else:
                continue
            if got != want:
                fid, tried = classify_target(gmod.path, n, got, want, files, ref, late, collection)
                if fid is None and m.is_alias:
                    tried = [*tried, "C05-early-resolution-stale-target"]
                    fresh = relookup_by_path(collection, m)
                    hop = first_replaced_hop(collection, m)
                    # listed mechanism: the member that was replaced under the cached chain was itself an *alias*
                    # (set_member re-targets the aliases of a replaced non-alias member, not those of a replaced alias)
                    if fresh is not None and fresh.path == want["id"] and hop is not None and hop.is_alias:
                        fid = "C05-early-resolution-stale-target"
                    else:
                        # second form: re-targeted past an intermediate alias that was replaced afterwards
                        again = retargeted_past_replaced_alias(collection, files, gmod.path, n, m)
                        if again is not None and again.path == want["id"]:
                            fid = "C05-early-resolution-stale-target"
                problems.append((f"{gmod.path}.{n} refers to a different definition", got, want, fid, tried))
                continue
            if m.is_alias:
                rec.count("alias_presentations_checked")
                bad = check_presentation(m, final)
                if bad:
                    problems.append((f"alias {m.path} does not present its target: {bad[0]}", bad[1], bad[2], None, []))
                    continue
    for rname in ref["modules"]:
        if held is not None and rname.split(".", 1)[0] not in held:
            continue
        try:
            obj = collection.get_member(rname)
        except KeyError:
            problems.append((f"module {rname} imported by CPython but not loaded by griffe", None, rname, None, []))
            continue
        if obj.is_alias or not obj.is_module:
            # a member shadows the sub-module in Griffe's single namespace (documented limitation), only if names clash
            continue
    return problems


def statement_shadows_submodule(files: dict) -> bool:
    """Static side of the domain restriction "a member shadows a sub-module of its own package" (documented Griffe
    limitation): some package __init__ binds, by a top-level statement, the name of one of its direct children to
    something other than that child.  The runtime test alone is order-fragile: importing the child later re-binds the
    attribute on the package, after other modules (or class bodies) already captured the shadowing value."""
    import ast

    mods = {rel[:-3].replace("/", ".").removesuffix(".__init__") for rel in files}
    for rel, src in files.items():
        if not rel.endswith("/__init__.py"):
            continue
        pkgpath = rel[: -len("/__init__.py")].replace("/", ".")
        children = {m.rsplit(".", 1)[1] for m in mods if "." in m and m.rsplit(".", 1)[0] == pkgpath}
        for node in ast.parse(src).body:
            if isinstance(node, (ast.FunctionDef, ast.AsyncFunctionDef, ast.ClassDef)):
                bound = [(node.name, None)]
            elif isinstance(node, (ast.Assign, ast.AnnAssign, ast.AugAssign)):
                targets = node.targets if isinstance(node, ast.Assign) else [node.target]
                bound = [(t.id, None) for t in targets if isinstance(t, ast.Name)]
            elif isinstance(node, ast.Import):
                bound = [(a.asname or a.name.split(".")[0], a.name if a.asname else a.name.split(".")[0]) for a in node.names]
            elif isinstance(node, ast.ImportFrom):
                if node.level:
                    base = pkgpath.split(".")
                    base = base[: len(base) - (node.level - 1)]
                    srcmod = ".".join(base + ([node.module] if node.module else []))
                else:
                    srcmod = node.module
                bound = [(a.asname or a.name, f"{srcmod}.{a.name}") for a in node.names if a.name != "*"]
            else:
                continue
            if any(n in children and what != f"{pkgpath}.{n}" for n, what in bound):
                return True
    return False


def wildcard_shadows_submodule(files: dict, ref: dict) -> bool:
    """Same domain restriction, the wildcard way: a module wildcard-imports a source that hands over (CPython's view) a
    name equal to one of the importer's own direct sub-modules, bound to something else - typically the implicitly bound
    sub-module `s0` of another package.  The attribute is re-bound once the importer's own child is imported, so the
    final state hides it, but statements executed in between (`import pkg.s0.n0 as x`) saw the foreign object."""
    mods = ref["modules"]
    for mod, sources in wildcard_sources(files).items():
        children = {m.rsplit(".", 1)[1] for m in mods if "." in m and m.rsplit(".", 1)[0] == mod}
        if not children:
            continue
        for srcmod in sources:
            info = mods.get(srcmod)
            if info is None:
                continue
            handed = info["all"] if info["all"] is not None else [n for n in info["names"] if not n.startswith("_")]
            if any(n in children and info["names"].get(n) != {"k": "module", "id": f"{mod}.{n}"} for n in handed):
                return True
    return False


def wildcard_sources(files: dict) -> dict[str, list[str]]:
    """Per module: the absolute paths of the modules its top-level `from X import *` statements read (in source order)."""
    import ast

    out: dict[str, list[str]] = {}
    for rel, src in files.items():
        mod = rel[:-3].replace("/", ".").removesuffix(".__init__")
        is_pkg = rel.endswith("__init__.py")
        for node in ast.parse(src).body:
            if isinstance(node, ast.ImportFrom) and any(a.name == "*" for a in node.names):
                if node.level:
                    base = mod.split(".") if is_pkg else mod.split(".")[:-1]
                    base = base[: len(base) - (node.level - 1)]
                    srcmod = ".".join(base + ([node.module] if node.module else []))
                else:
                    srcmod = node.module
                out.setdefault(mod, []).append(srcmod)
    return out


def count_statement_shapes(rec, files: dict, ref: dict) -> None:  # noqa: ANN001
    """Evidence for the shapes of from-import statements (several names, plain and renamed ones mixed, per import form)."""
    import ast

    for rel, src in files.items():
        mod = rel[:-3].replace("/", ".").removesuffix(".__init__")
        is_init = rel.endswith("__init__.py")
        for node in ast.parse(src).body:
            if not isinstance(node, ast.ImportFrom) or len(node.names) < 2:
                continue
            rec.count("multi_name_import_statements")
            mixed = any(a.asname for a in node.names) and not all(a.asname for a in node.names)
            if mixed:
                rec.count("multi_name_imports_mixing_plain_and_renamed")
            if (node.end_lineno or node.lineno) > node.lineno:
                rec.count("multi_line_import_statements")
            if node.level and not node.module:
                rec.count("multi_name_from_dots_imports")
                if node.level == 1 and is_init and mixed:
                    rec.count("init_from_dot_imports_mixing_plain_and_renamed")
                    if any(a.asname and f"{mod}.{a.name}" in ref["modules"] for a in node.names):
                        rec.count("init_from_dot_imports_with_renamed_child_next_to_plain_names")
            elif node.level:
                rec.count("multi_name_relative_imports")
            else:
                rec.count("multi_name_absolute_imports")
            base = None
            if node.level:
                parts = mod.split(".") if is_init else mod.split(".")[:-1]
                parts = parts[: len(parts) - (node.level - 1)]
                base = ".".join(parts + ([node.module] if node.module else []))
            else:
                base = node.module
            kinds = {("sub-module" if f"{base}.{a.name}" in ref["modules"] else "member") for a in node.names}
            if len(kinds) == 2:
                rec.count("multi_name_imports_mixing_sub_modules_and_members")


def count_input_classes(rec, files: dict, ref: dict) -> None:  # noqa: ANN001
    """Evidence that the underscore-shape classes really reach the wildcard rule (counted from what CPython reports)."""
    count_statement_shapes(rec, files, ref)
    for mod, sources in wildcard_sources(files).items():
        for srcmod in sources:
            info = ref["modules"].get(srcmod)
            if info is None:
                continue
            under = [n for n in info["names"] if n.startswith("_") and n != "__all__"]
            if info["all"] is None:
                if under:
                    rec.count("wildcards_over_underscore_names_without_all")
                if any(packages.is_dunder(n) for n in under):
                    rec.count("wildcards_over_dunder_names_without_all")
            elif any(n.startswith("_") for n in info["all"]):
                rec.count("wildcards_exporting_underscore_names_through_all")


def implicit_submodule_names(files: dict, ref: dict) -> dict[str, set[str]]:
    """Per module: module-valued names that no statement of that module binds (CPython binds sub-modules on their parent
    as a side effect of importing them; such names can travel further through wildcard imports).  They are dropped on
    both sides (domain restriction of DESIGN C05)."""
    import ast

    info = {}
    for rel, src in files.items():
        mod = rel[:-3].replace("/", ".").removesuffix(".__init__")
        is_pkg = rel.endswith("__init__.py")
        wild = []
        explicit = []
        tree = ast.parse(src)
        top_level = set(map(id, tree.body))
        for node in ast.walk(tree):
            if isinstance(node, ast.ImportFrom):
                if node.level:
                    base = mod.split(".") if is_pkg else mod.split(".")[:-1]
                    base = base[: len(base) - (node.level - 1)]
                    srcmod = ".".join(base + ([node.module] if node.module else []))
                else:
                    srcmod = node.module
                for a in node.names:
                    if a.name == "*":
                        if id(node) in top_level:
                            wild.append(srcmod)
                    else:
                        explicit.append((srcmod, a.name, a.asname or a.name, id(node) not in top_level))
        info[mod] = (packages.statement_bound_names(src), wild, explicit)
    implicit: dict[str, set[str]] = {m: set() for m in info}
    changed = True
    while changed:
        changed = False
        for mod, (bound, wild, explicit) in info.items():
            names = ref["modules"].get(mod, {}).get("names", {})
            # (c) an explicit import of a name that is only implicitly bound in its source module: what it captures
            # depends on the order of import side effects
            for srcmod, name, asname, nested in explicit:
                if f"{srcmod}.{name}" in ref["modules"] and (
                        names.get(asname) == {"k": "module", "id": f"{srcmod}.{name}"} if not nested else
                        not any(name in ref["modules"].get(w, {}).get("names", {}) or name in implicit.get(w, ())
                                for w in info.get(srcmod, ((), (), ()))[1])):
                    # `from P import child` naming a real direct sub-module of P: when P has no such attribute yet, CPython's
                    # from-import imports the sub-module itself, so this binding does not depend on side-effect order - it
                    # is judged.  Module level: what was captured is visible (it is that sub-module); inside a class body
                    # it is not, so there no wildcard of P may be able to bring a same-named attribute into P first.
                    continue
                if name in implicit.get(srcmod, ()) and asname not in implicit[mod] and (
                        nested or names.get(asname, {}).get("k") == "module"):
                    implicit[mod].add(asname)
                    changed = True
            for n, v in names.items():
                if v["k"] != "module" or n in implicit[mod]:
                    continue
                # (a) a direct sub-module nobody binds by statement here; (b) a name that a wildcard source carries only
                # implicitly (it may override a statement-bound name of this module, so (b) ignores `bound`)
                if (n not in bound and v["id"] == f"{mod}.{n}") or any(n in implicit.get(w, ()) for w in wild):
                    implicit[mod].add(n)
                    changed = True
    return implicit


def declared_import_path(files: dict, mod_path: str, name: str, classes: tuple = (), lineno: int | None = None) -> str | None:
    """The absolute path that the import statement binding ``name`` in that scope (module, or nested class bodies) names -
    the statement on line ``lineno`` (the alias member's own line: a wildcard-created member has none), else the last
    one - read from the source, independent of what the loader made of it."""
    import ast

    rel = mod_path.replace(".", "/")
    is_pkg = rel + "/__init__.py" in files
    src = files.get(rel + "/__init__.py") if is_pkg else files.get(rel + ".py")
    if src is None:
        return None
    body = ast.parse(src).body
    for cname in classes:
        body = next((n.body for n in body if isinstance(n, ast.ClassDef) and n.name == cname), [])
    found = None
    for node in body:
        if isinstance(node, ast.ImportFrom):
            if node.level:
                base = mod_path.split(".") if is_pkg else mod_path.split(".")[:-1]
                base = base[: len(base) - (node.level - 1)]
                srcmod = ".".join(base + ([node.module] if node.module else []))
            else:
                srcmod = node.module or ""
            for a in node.names:
                if a.name != "*" and (a.asname or a.name) == name and lineno in (None, node.lineno):
                    found = f"{srcmod}.{a.name}"
                elif a.name == "*" and lineno == node.lineno:
                    found = f"{srcmod}.{name}"      # a member created by this wildcard statement stands for `srcmod.name`
        elif isinstance(node, ast.Import):
            for a in node.names:
                if (a.asname or a.name.split(".")[0]) == name and lineno in (None, node.lineno):
                    found = a.name if a.asname else a.name.split(".")[0]
    return found


def retargeted_past_replaced_alias(collection, files: dict, mod_path: str, name: str, member, classes: tuple = ()):  # noqa: ANN001, ANN201
    """Second form of the early-resolution mechanism: an alias on the chain was resolved during loading and then
    *re-targeted* (set_member re-targets every alias registered with a replaced non-alias member, the indirect ones too,
    straight to the new member), so its target path is no longer the one its import statement names and the intermediate
    module's later re-binding of the imported name (an alias replaced by a wildcard import) is bypassed.  Follows the
    chain by path through the collection from ``member``, taking at every statement-bound alias the path its import
    statement *names*; returns the object reached if at least one hop had been re-targeted, else None."""
    if not member.is_alias:
        return None
    retargeted = False
    obj, scope_path, scope_classes = member, mod_path, classes
    seen: set[str] = set()
    for _ in range(50):
        declared = declared_import_path(files, scope_path, obj.name, scope_classes, obj.alias_lineno or -1)
        if declared is not None and obj.resolved and obj.target_path != declared:
            retargeted = True
        path = declared if declared is not None else obj.target_path
        if path in seen:
            return None
        seen.add(path)
        try:
            obj = collection.get_member(path)
        except Exception:  # noqa: BLE001
            return None
        if not obj.is_alias:
            return obj if retargeted else None
        if obj.parent is None or not obj.parent.is_module:
            return None
        scope_path, scope_classes = obj.parent.path, ()
    return None


def relookup_by_path(collection, alias, start: str | None = None):  # noqa: ANN001, ANN201
    """Follow an alias chain by *paths*, asking the collection again at every hop (ignores the cached `_target`s)."""
    seen = set()
    path = start if start is not None else alias.target_path
    for _ in range(50):
        if path in seen:
            return None
        seen.add(path)
        try:
            obj = collection.get_member(path)
        except Exception:  # noqa: BLE001
            return None
        if not obj.is_alias:
            return obj
        path = obj.target_path
    return None


def first_replaced_hop(collection, alias):  # noqa: ANN001, ANN201
    """Walk the *cached* target chain of a resolved alias; return the first cached object that is no longer the member
    the collection holds under its path (it was replaced after the alias had been resolved), else None."""
    cur = alias
    for _ in range(50):
        if not cur.is_alias or not cur.resolved:
            return None
        tgt = cur.target
        try:
            live = collection.get_member(tgt.path)
        except Exception:  # noqa: BLE001
            return tgt
        if live is not tgt:
            return tgt
        cur = tgt
    return None


def check_presentation(alias, final):  # noqa: ANN001, ANN201
    if alias.kind is not final.kind:
        return ("kind", alias.kind.value, final.kind.value)
    if (alias.docstring.value if alias.docstring else None) != (final.docstring.value if final.docstring else None):
        return ("docstring", repr(alias.docstring), repr(final.docstring))
    if alias.labels != final.labels:
        return ("labels", sorted(alias.labels), sorted(final.labels))
    if final.is_function:
        if [(p.name, p.kind, str(p.default)) for p in alias.parameters] != [(p.name, p.kind, str(p.default)) for p in final.parameters]:
            return ("parameters", str(alias.parameters), str(final.parameters))
    if final.is_class or final.is_module:
        if set(alias.members) != set(final.members):
            return ("member names", sorted(alias.members), sorted(final.members))
        for name, sub in alias.members.items():
            if sub.path != alias.path + "." + name:
                return ("member path not rebased under the alias", sub.path, alias.path + "." + name)
            if not sub.is_alias and sub is not final.members[name]:
                pass
    if alias.canonical_path != final.path:
        return ("canonical_path", alias.canonical_path, final.path)
    return None


def from_dot_imported_submodules(files: dict) -> set[str]:
    """Paths P.n such that P/__init__.py contains `from . import n` (no `as`): the visitor skips these without
    recording the import (an existing repository test pins that behaviour), so `n` is not wildcard-exposed by P."""
    import ast

    out = set()
    for rel, src in files.items():
        if not rel.endswith("/__init__.py"):
            continue
        pkgpath = rel[: -len("/__init__.py")].replace("/", ".")
        for node in ast.walk(ast.parse(src)):
            if isinstance(node, ast.ImportFrom) and node.level == 1 and not node.module:
                for a in node.names:
                    if not a.asname and a.name != "*":
                        out.add(f"{pkgpath}.{a.name}")
    return out


def classify_names(mod_path: str, missing: list, extra: list, files: dict, ref: dict, late: dict | None = None) -> tuple[str | None, list[str]]:
    """Every missing name must be explained by a listed mechanism (several of them may meet in one module); none extra."""
    groups = late["groups"] if late else {}
    tried = ["C05-init-from-dot-import-not-recorded", *groups]
    if not missing or extra:
        return None, tried
    dotted = from_dot_imported_submodules(files)
    names = ref["modules"][mod_path]["names"]

    def why(n: str) -> str | None:
        for fid, g in groups.items():
            if n in g["missed"].get(mod_path, ()):
                return fid
        return "C05-init-from-dot-import-not-recorded" if names[n]["k"] == "module" and names[n]["id"] in dotted else None

    by = {n: why(n) for n in missing}
    if all(by.values()):
        return sorted(set(by.values()))[-1], tried
    return None, tried


def module_references(files: dict, known: set[str]) -> dict[str, dict[str, str]]:
    """Per module: names bound at top level by an import statement to a *module* of the generated code (name -> path)."""
    import ast

    out: dict[str, dict[str, str]] = {}
    for rel, src in files.items():
        mod = rel[:-3].replace("/", ".").removesuffix(".__init__")
        is_pkg = rel.endswith("__init__.py")
        table = out.setdefault(mod, {})
        for node in ast.parse(src).body:
            if isinstance(node, ast.Import):
                for a in node.names:
                    target = a.name if a.asname else a.name.split(".")[0]
                    if target in known:
                        table[a.asname or target] = target
            elif isinstance(node, ast.ImportFrom):
                if node.level:
                    base = mod.split(".") if is_pkg else mod.split(".")[:-1]
                    base = base[: len(base) - (node.level - 1)]
                    srcmod = ".".join(base + ([node.module] if node.module else []))
                else:
                    srcmod = node.module or ""
                for a in node.names:
                    if a.name != "*" and f"{srcmod}.{a.name}" in known:
                        table[a.asname or a.name] = f"{srcmod}.{a.name}"
    return out


def all_references(files: dict, known: set[str], details: dict | None = None) -> dict[str, list[str]]:
    """Per module: the modules X whose `__all__` its own `__all__` statements are built from, whatever the spelling:
    `n.__all__` with n bound by `import X as n` / `from P import X [as n]`, `a.b.c.__all__` after `import a.b.c`, or a
    bare name n bound by `from X import __all__ as n`.  ``details`` (optional) receives per module the syntactic
    features of its compositions."""
    import ast

    refs = module_references(files, known)
    out: dict[str, list[str]] = {}
    for rel, src in files.items():
        mod = rel[:-3].replace("/", ".").removesuffix(".__init__")
        is_pkg = rel.endswith("__init__.py")
        tree = ast.parse(src)
        all_names: dict[str, str] = {}     # name -> module, for `from X import __all__ as name`
        for node in tree.body:
            if isinstance(node, ast.ImportFrom):
                if node.level:
                    base = mod.split(".") if is_pkg else mod.split(".")[:-1]
                    base = base[: len(base) - (node.level - 1)]
                    srcmod = ".".join(base + ([node.module] if node.module else []))
                else:
                    srcmod = node.module or ""
                for a in node.names:
                    if a.name == "__all__" and srcmod in known:
                        all_names[a.asname or a.name] = srcmod
        for node in tree.body:
            if isinstance(node, (ast.Assign, ast.AugAssign, ast.AnnAssign)) and node.value is not None:
                targets = node.targets if isinstance(node, ast.Assign) else [node.target]
                if not any(isinstance(t, ast.Name) and t.id == "__all__" for t in targets):
                    continue
                found: list[str] = []
                inside_attr: set[int] = set()
                for sub in ast.walk(node.value):
                    if isinstance(sub, ast.Attribute) and sub.attr == "__all__":
                        parts: list[str] = []
                        cur = sub.value
                        while isinstance(cur, ast.Attribute):
                            parts.append(cur.attr)
                            inside_attr.add(id(cur))
                            cur = cur.value
                        if isinstance(cur, ast.Name):
                            inside_attr.add(id(cur))
                            parts.append(cur.id)
                            dotted = ".".join(reversed(parts))
                            if len(parts) == 1 and cur.id in refs.get(mod, {}):
                                found.append(refs[mod][cur.id])
                                details is not None and details.setdefault(mod, set()).add("module-name")
                            elif dotted in known and parts[-1] in refs.get(mod, {}):
                                found.append(dotted)
                                details is not None and details.setdefault(mod, set()).add("dotted-module")
                for sub in ast.walk(node.value):
                    if isinstance(sub, ast.Name) and id(sub) not in inside_attr and sub.id in all_names:
                        found.append(all_names[sub.id])
                        details is not None and details.setdefault(mod, set()).add("imported-all-name")
                if found:
                    out.setdefault(mod, []).extend(found)
                    if details is not None:
                        feats = details.setdefault(mod, set())
                        if isinstance(node, ast.AugAssign):
                            feats.add("augassign")
                        if any(isinstance(sub, ast.Starred) for sub in ast.walk(node.value)):
                            feats.add("star")
                        if any(isinstance(sub, ast.BinOp) for sub in ast.walk(node.value)):
                            feats.add("plus")
    return out


def count_composition_classes(rec, files: dict, ref: dict) -> None:  # noqa: ANN001
    """Evidence for the directions of `__all__` compositions across the package tree (from the sources + CPython's view)."""
    details: dict[str, set] = {}
    comp = all_references(files, set(ref["modules"]), details)
    for mod, sources in comp.items():
        if ref["modules"].get(mod, {}).get("all") is None:
            continue
        rec.count("exports_compositions")
        if len(set(sources)) > 1:
            rec.count("exports_composed_from_several_sources")
        for feat in details.get(mod, ()):
            rec.count("exports_compositions_" + feat.replace("-", "_"))
        for x in set(sources):
            chained = x in comp
            if mod.startswith(x + "."):
                rec.count("exports_composed_from_ancestor")
                if chained:
                    rec.count("exports_composed_from_ancestor_itself_composed")
            elif x.startswith(mod + "."):
                rec.count("exports_composed_from_descendant")
            elif x.split(".")[0] != mod.split(".")[0]:
                rec.count("exports_composed_from_another_package")
            else:
                rec.count("exports_composed_from_sibling_or_cousin")
            if chained:
                rec.count("exports_composition_chains")


def static_bindings(files: dict, ref: dict) -> dict[str, dict[str, tuple]]:
    """Reference model of "later statements override earlier ones": per module, for every name the LAST top-level
    statement binding it: ("def",) | ("mod", module path) | ("imp", source module, name) | ("wild", source module).  What
    a wildcard statement binds is taken from CPython's view of its source (`__all__`, else the non-underscore names)."""
    import ast

    mods = ref["modules"]
    out: dict[str, dict[str, tuple]] = {}
    by_statement = {rel[:-3].replace("/", ".").removesuffix(".__init__"): packages.statement_bound_names(src) for rel, src in files.items()}

    def side_effect(srcmod: str, n: str) -> bool:
        # a sub-module bound on its package by the import system only: whether a wildcard hands it over depends on the
        # order of imports (outside the domain, see implicit_submodule_names) - never taken as a binding here
        return mods[srcmod]["names"].get(n) == {"k": "module", "id": f"{srcmod}.{n}"} and n not in by_statement.get(srcmod, ())

    for rel, src in files.items():
        mod = rel[:-3].replace("/", ".").removesuffix(".__init__")
        is_pkg = rel.endswith("__init__.py")
        table: dict[str, tuple] = {}
        for node in ast.parse(src).body:
            if isinstance(node, (ast.FunctionDef, ast.AsyncFunctionDef, ast.ClassDef)):
                table[node.name] = ("def",)
            elif isinstance(node, (ast.Assign, ast.AnnAssign, ast.AugAssign)):
                for t in (node.targets if isinstance(node, ast.Assign) else [node.target]):
                    if isinstance(t, ast.Name):
                        table[t.id] = ("def",)
            elif isinstance(node, ast.Import):
                for a in node.names:
                    if a.asname:
                        table[a.asname] = ("mod", a.name)
                    else:
                        table[a.name.split(".")[0]] = ("mod", a.name.split(".")[0])
            elif isinstance(node, ast.ImportFrom):
                if node.level:
                    base = mod.split(".") if is_pkg else mod.split(".")[:-1]
                    base = base[: len(base) - (node.level - 1)]
                    srcmod = ".".join(base + ([node.module] if node.module else []))
                else:
                    srcmod = node.module or ""
                for a in node.names:
                    if a.name == "*":
                        info = mods.get(srcmod)
                        if info is not None:
                            handed = info["all"] if info["all"] is not None else [n for n in info["names"] if not n.startswith("_")]
                            for n in handed:
                                if not side_effect(srcmod, n):
                                    table[n] = ("wild", srcmod)
                    else:
                        table[a.asname or a.name] = ("imp", srcmod, a.name)
        out[mod] = table
    return out


def provenance(files: dict, ref: dict, held: set[str]) -> dict:
    """What can be judged while some packages are NOT in the collection (partial sessions) - from the sources and CPython's
    view only.  ``tainted[M]``: names of M whose provenance (last binding statement, followed through named imports and
    wildcards) passes a package that is not held: absent / unresolvable / still showing an earlier binding - by design.
    ``uncertain_exports``: modules whose `__all__` is composed, directly or in a chain, from a module of such a package (a
    wildcard over them hands over an undetermined set, so whatever it binds is tainted as well)."""
    mods = ref["modules"]
    binds = static_bindings(files, ref)
    top = lambda m: m.split(".", 1)[0]  # noqa: E731
    allrefs = all_references(files, set(mods))
    uncertain: set[str] = set()
    changed = True
    while changed:
        changed = False
        for m, xs in allrefs.items():
            if m not in uncertain and any(top(x) not in held or x in uncertain for x in xs):
                uncertain.add(m)
                changed = True
    memo: dict[tuple[str, str], bool] = {}

    def t(m: str, n: str) -> bool:
        key = (m, n)
        if key in memo:
            return memo[key]
        memo[key] = True    # a cycle cannot happen in the generated code; undetermined if it did
        if top(m) not in held:
            r = True
        else:
            b = binds.get(m, {}).get(n)
            if b is None or b[0] == "def":
                r = False       # defined here / a sub-module bound by the import system (same package)
            elif b[0] == "mod":
                r = top(b[1]) not in held
            elif b[0] == "imp":
                r = top(b[1]) not in held or (binds.get(b[1], {}).get(b[2]) is not None and t(b[1], b[2]))
            else:
                r = top(b[1]) not in held or (b[1] in uncertain and mods[b[1]]["all"] is not None) or t(b[1], n)
        memo[key] = r
        return r

    tainted = {m: {n for n in info["names"] if n != "__all__" and t(m, n)} for m, info in mods.items() if top(m) in held}
    return {"tainted": tainted, "uncertain_exports": uncertain, "bindings": binds}


def package_closure(files: dict, ref: dict, explicit: list[str], tops: list[str], *, implicit: bool, every_statement: bool = False) -> set[str]:
    """Packages a `resolve_aliases(external=True, implicit=…)` has to end up holding when ``explicit`` were loaded: closure
    over (a) every wildcard import of a held module (expanded whatever `implicit` says) and (b) every name whose last
    binding statement is an import - all of them with implicit=True, only those listed in a literal (not composed)
    `__all__` otherwise.  ``every_statement``: the upper bound instead - closure over every import statement at all."""
    import ast

    mods = ref["modules"]
    binds = static_bindings(files, ref)
    wild = wildcard_sources(files)
    composed = all_references(files, set(mods))
    top = lambda m: m.split(".", 1)[0]  # noqa: E731
    every: dict[str, set[str]] = {}
    if every_statement:
        for rel, src in files.items():
            mod = rel[:-3].replace("/", ".").removesuffix(".__init__")
            for node in ast.walk(ast.parse(src)):
                if isinstance(node, ast.Import):
                    every.setdefault(top(mod), set()).update(top(a.name) for a in node.names)
                elif isinstance(node, ast.ImportFrom) and not node.level and node.module:
                    every.setdefault(top(mod), set()).add(top(node.module))
    held = set(explicit)
    changed = True
    while changed:
        changed = False
        for m in mods:
            if top(m) not in held:
                continue
            need = {top(x) for x in wild.get(m, ())} | every.get(top(m), set())
            for n, b in binds.get(m, {}).items():
                if b[0] in ("mod", "imp") and (implicit or (n in (mods[m]["all"] or ()) and m not in composed)):
                    need.add(top(b[1]))
            need = (need & set(tops)) - held
            if need:
                held |= need
                changed = True
    return held


def cross_package_chains(files: dict, ref: dict, explicit: list[str], binds: dict) -> set[str]:
    """Evidence: the kinds of re-export chains that start in an explicitly loaded module and cross >= 2 different packages
    that are not loaded explicitly: "wildcard" (only `import *` hops), "named" (only named imports), "mixed"."""
    top = lambda m: m.split(".", 1)[0]  # noqa: E731
    out: set[str] = set()
    for m, table in binds.items():
        if top(m) not in explicit:
            continue
        for n in table:
            kinds: list[str] = []
            crossed: list[str] = []
            cur_m, cur_n = m, n
            for _ in range(30):
                b = binds.get(cur_m, {}).get(cur_n)
                if b is None or b[0] in ("def", "mod"):
                    break
                kinds.append(b[0])
                if top(b[1]) not in explicit and top(b[1]) not in crossed:
                    crossed.append(top(b[1]))
                cur_m, cur_n = b[1], (b[2] if b[0] == "imp" else cur_n)
            if len(crossed) >= 2:
                out.add("wildcard" if set(kinds) == {"wild"} else "named" if set(kinds) == {"imp"} else "mixed")
                out.add(f"{min(len(crossed), 3)}_packages")
    return out


def explains(fid: str) -> bool:
    """Only findings listed with status "known" may explain a discrepancy: the classifier of a repaired ("fixed")
    mechanism is never offered (it could shadow a listed explanation of the same witness; the mechanism coming back is
    a violation)."""
    from vf.core.rec import known_findings

    return known_findings().get(fid, {}).get("status") == "known"


F_SESSION = "C05-wildcard-consumed-before-its-source-is-complete"
F_WILD_STACK = "C05-wildcard-over-module-still-being-expanded"
F_EXPORTS_STACK = "C05-exports-spliced-from-module-still-being-expanded"


def session_effects(files: dict, ref: dict, load_order: list[str], events: list | None = None) -> dict:
    """What the *order of expansion* can cost a module, derived from the sources, CPython's view and the order in which
    the loader finished loading the packages (on_package_loaded) - never from Griffe's answer.  Three listed mechanisms,
    each with its own sets (``groups``: finding id -> {"late", "missed", "dropped"}):

    * loading order (sessions).  ``dropped[M]``: elements of M's `__all__` that come from `X.__all__` with X's package
      loaded after M's (expand_exports drops such an element for good), or from `S.__all__` with the element in
      ``dropped[S]``.  ``late[S]``: names CPython binds in S through a top-level `from X import *` crossing into a package
      loaded after S's package (only a later call can expand it), or with the name in ``late[X]`` / ``dropped[X]``.
      ``missed[M]``: names M gets through `from S import *` with the name in ``late[S]`` (M's placeholder is expanded and
      removed as soon as S is loaded), or with the name in ``dropped[S]``.
    * a wildcard over a module that is still being expanded: D does `from M import *` while M reaches D by going down to
      sub-modules and along wildcard imports (M is an ancestor of D, or wildcard-imports something above D): the names M
      itself receives through wildcards are collected but not applied yet when D is expanded -> ``missed[D]``.
    * `__all__` spliced from a module that is still being expanded: D's `__all__` references M's while M's own `__all__`
      references a module from which D is reached by references / going down to sub-modules: D copies M's unexpanded
      elements -> ``dropped[D]`` (names M's list takes from other lists); whoever splices D's list inherits them.

    The top-level keys "late" / "missed" / "dropped" are those of the loading-order group."""
    rank = {t: i for i, t in enumerate(load_order)}
    wild = wildcard_sources(files)
    mods = ref["modules"]

    def before(a: str, b: str) -> bool:
        return rank.get(a.split(".")[0], -1) < rank.get(b.split(".")[0], -1)

    def exposed(x: str) -> list[str]:
        info = mods.get(x)
        if info is None:
            return []
        return list(info["all"]) if info["all"] is not None else [n for n in info["names"] if not n.startswith("_")]

    def same(a: str, b: str, n: str) -> bool:
        return n in mods[a]["names"] and mods[a]["names"][n] == mods[b]["names"].get(n)

    children: dict[str, list[str]] = {}
    for m in mods:
        if "." in m:
            children.setdefault(m.rsplit(".", 1)[0], []).append(m)
    allrefs = {m: [x for x in xs if x in mods] for m, xs in all_references(files, set(mods)).items() if m in mods}
    wild = {m: [x for x in xs if x in mods] for m, xs in wild.items() if m in mods}

    def reach(starts: list[str], edges: list[dict]) -> set[str]:
        out: set[str] = set()
        todo = list(starts)
        while todo:
            m = todo.pop()
            if m in out:
                continue
            out.add(m)
            for e in edges:
                todo.extend(e.get(m, ()))
        return out

    wreach = {t: reach([m for m in mods if m.split(".", 1)[0] == t], [wild]) for t in {m.split(".", 1)[0] for m in mods}}

    def outside_external_pass(m_mod: str, s_mod: str) -> bool:
        """Loading order only: can M's `from S import *` have been expanded by a pass that must not load packages - the
        `_post_load` of a package (its own, or one whose wildcards lead to M), a resolve_aliases(external=False|None) - at
        a moment S's package was in the collection?  Only such a pass can find S incomplete: an external=True pass expands
        (and loads for) S before M collects from it, so when that is M's first chance the mechanism cannot cost M anything.
        Decided from the observed sequence of package loads and resolve calls (never from the names Griffe shows);
        undetermined situations count as "can"."""
        if not events:
            return True
        mt, st = m_mod.split(".", 1)[0], s_mod.split(".", 1)[0]
        for i, ev in enumerate(events):
            if ev[0] == "loaded":
                if st in ev[2] and (mt == ev[1] or m_mod in wreach.get(ev[1], ())):
                    return True
            elif ev[1] is True:
                if mt not in ev[2]:
                    return True     # M's package arrives during this pass: its own _post_load may come first
                for nxt in events[i + 1:]:
                    if nxt[0] != "loaded":
                        break
                    if m_mod in wreach.get(nxt[1], ()):
                        return True     # a package loaded on demand during the pass re-enters M from its _post_load
                return False
            elif mt in ev[2] and st in ev[2]:
                return True
        return True

    def propagate(dropped: dict, late_cross, miss_cross, guard=lambda m, s: True) -> dict:  # noqa: ANN001
        late: dict[str, set[str]] = {m: set() for m in mods}
        missed: dict[str, set[str]] = {m: set() for m in mods}
        changed = True
        while changed:
            changed = False
            for s_mod, sources in wild.items():
                for x in sources:
                    for n in exposed(x):
                        if not same(s_mod, x, n):
                            continue
                        miss = n in missed[x] or (n in late[x] and guard(s_mod, x)) or n in dropped[x] or miss_cross(s_mod, x, n)
                        if n not in late[s_mod] and (miss or late_cross(s_mod, x)):
                            late[s_mod].add(n)
                            changed = True
                        if n not in missed[s_mod] and miss:
                            missed[s_mod].add(n)
                            changed = True
        return {"late": late, "missed": missed, "dropped": dropped}

    def close_over_refs(dropped: dict) -> None:
        changed = True
        while changed:
            changed = False
            for m_mod, sources in allrefs.items():
                for x in sources:
                    if not dropped[x] <= dropped[m_mod]:
                        dropped[m_mod] |= dropped[x]
                        changed = True

    never = lambda *a: False  # noqa: E731
    # 1. loading order
    d1: dict[str, set[str]] = {m: set() for m in mods}
    for m_mod, sources in allrefs.items():
        for x in sources:
            if before(m_mod, x):
                d1[m_mod] |= set(mods[x]["all"] or ())
    close_over_refs(d1)
    g1 = propagate(d1, before, never, outside_external_pass)
    # 2. wildcard over a module still being expanded
    received = {m: {n for x in wild.get(m, ()) for n in exposed(x) if same(m, x, n)} for m in mods}
    below = {m: reach([*children.get(m, ()), *wild.get(m, ())], [children, wild]) for m in mods if m in wild or m in children}
    g2 = propagate({m: set() for m in mods}, never, lambda s_mod, x, n: s_mod in below.get(x, ()) and n in received[x])
    # 3. __all__ spliced from a module still being expanded
    d3: dict[str, set[str]] = {m: set() for m in mods}
    raw: set[str] = set()       # modules that copy unexpanded elements (even ones that would expand to nothing)
    for d_mod, sources in allrefs.items():
        for m_mod in sources:
            if m_mod in allrefs and d_mod in reach(list(allrefs[m_mod]), [children, allrefs]):
                d3[d_mod] |= {n for x in allrefs[m_mod] for n in (mods[x]["all"] or ())}
                raw.add(d_mod)
    close_over_refs(d3)
    changed = True
    while changed:
        changed = False
        for m_mod, sources in allrefs.items():
            if m_mod not in raw and any(x in raw for x in sources):
                raw.add(m_mod)
                changed = True
    g3 = {**propagate(d3, never, never), "raw": raw}
    groups = {F_SESSION: g1, F_WILD_STACK: g2, F_EXPORTS_STACK: g3}
    return {**g1, "groups": {fid: g for fid, g in groups.items() if explains(fid)}}


def passes_through_missed(collection, mod_path: str, name: str, missed: dict) -> bool:  # noqa: ANN001
    """Follow the target paths from the member (mod_path, name) through the collection: does the chain reach, or dead-end
    at, a module-level name that the loading order can cost its module (``missed``)?"""
    path = f"{mod_path}.{name}"
    seen: set[str] = set()
    for _ in range(50):
        if path in seen or "." not in path:
            return False
        seen.add(path)
        owner, nm = path.rsplit(".", 1)
        if nm in missed.get(owner, ()):
            return True
        try:
            obj = collection.get_member(path)
        except Exception:  # noqa: BLE001
            return False
        if not obj.is_alias:
            return False
        path = obj.target_path
    return False


def classify_exports(mod_path: str, gall: list | None, rall: list, late: dict) -> tuple[str | None, list[str]]:
    """C05-unloaded-exports-element-dropped: Griffe's list is CPython's list with elements removed, each of them one that
    reaches the module through `X.__all__` of a package loaded later (session_effects: dropped)."""
    tried = ["C05-unloaded-exports-element-dropped"]
    dropped = late["dropped"].get(mod_path, set())
    if gall is None or not dropped:
        return None, tried
    # first occurrences, as compared; a dropped element may come back later in the list as a literal, so the elements at
    # risk are taken out of both sequences before comparing the order of the others
    gall, rall = list(dict.fromkeys(gall)), list(dict.fromkeys(rall))
    if set(gall) <= set(rall) and set(rall) - set(gall) <= dropped and (
            [e for e in gall if e not in dropped] == [e for e in rall if e not in dropped]):
        return "C05-unloaded-exports-element-dropped", tried
    return None, tried


def classify_target(mod_path: str, name: str, got: dict, want: dict, files: dict, ref: dict | None = None,
                    late: dict | None = None, collection=None) -> tuple[str | None, list[str]]:  # noqa: ANN001
    tried = ["C05-init-from-dot-import-not-recorded"]
    if want["k"] == "module" and want["id"] in from_dot_imported_submodules(files):
        return "C05-init-from-dot-import-not-recorded", tried
    for fid, g in (late["groups"].items() if late and collection is not None else ()):
        tried.append(fid)
        if passes_through_missed(collection, mod_path, name, g["missed"]):
            return fid, tried
    tried.append("C05-repeated-wildcard-skip-keeps-older-line")
    if ref is not None and got and explains("C05-repeated-wildcard-skip-keeps-older-line") and repeated_wildcard_keeps_older_line(
            mod_path, name, got, want, files, ref):
        return "C05-repeated-wildcard-skip-keeps-older-line", tried
    return None, tried


def repeated_wildcard_keeps_older_line(mod_path: str, name: str, got: dict, want: dict, files: dict, ref: dict) -> bool:
    """The module wildcard-imports the same source S twice (lines c1 < c2) with a wildcard import of another module T in
    between (line b); `name` is bound to a *module* M by an import statement above b; S exposes `name` as that same
    module M (so CPython's last word, at c2, is M) and Griffe answers what T binds under `name`.  Mechanism: the two
    statements over S share one placeholder member that keeps the first position and the last line number, so S is
    expanded before T; its `name` is skipped by the "alias named after the module it targets" special case without
    taking over the line number c2, and T's older wildcard (b) then overrides the import statement."""
    import ast

    if want.get("k") != "module":
        return False
    rel = mod_path.replace(".", "/")
    is_pkg = rel + "/__init__.py" in files
    src = files.get(rel + "/__init__.py") if is_pkg else files.get(rel + ".py")
    if src is None:
        return False

    def absolute(node: ast.ImportFrom) -> str:
        if node.level:
            base = mod_path.split(".") if is_pkg else mod_path.split(".")[:-1]
            base = base[: len(base) - (node.level - 1)]
            return ".".join(base + ([node.module] if node.module else []))
        return node.module or ""

    wild: list[tuple[int, str]] = []
    import_lines: list[int] = []
    for node in ast.parse(src).body:
        if isinstance(node, ast.ImportFrom):
            for a in node.names:
                if a.name == "*":
                    wild.append((node.lineno, absolute(node)))
                elif (a.asname or a.name) == name and f"{absolute(node)}.{a.name}" == want["id"]:
                    import_lines.append(node.lineno)
        elif isinstance(node, ast.Import):
            for a in node.names:
                if a.asname == name and a.name == want["id"]:
                    import_lines.append(node.lineno)
    names_of = lambda m: ref["modules"].get(m, {}).get("names", {})  # noqa: E731
    for b, t in wild:
        if names_of(t).get(name, {}).get("id") != got.get("id"):
            continue
        for s_mod in {w for _, w in wild if w != t}:
            lines = [ln for ln, w in wild if w == s_mod]
            if (len(lines) >= 2 and min(lines) < b < max(lines) and names_of(s_mod).get(name) == want
                    and any(a < b for a in import_lines)):
                return True
    return False


def run_case(rec, files: dict, top, nontrivial: bool, tags=(), session: list | None = None, partial: bool = False) -> None:  # noqa: ANN001, C901, PLR0912, PLR0915
    """``top``: one package name or the list of top-level packages the files are spread over; ``session``: the loading
    session (see run_session), default: load every top, then resolve_aliases(implicit=True, external=False);
    ``partial``: the session loads only some of the packages and the others are never loaded by the harness."""
    tops = [top] if isinstance(top, str) else list(top)
    case = {"files": files, "top": top}
    if session is not None:
        case["session"] = session
    if partial:
        case["partial"] = True
    try:
        with case_watchdog(120), tmp_tree(files) as root:
            rep = server().import_package(str(root), tops)
            if not rep.get("ok"):
                rec.inconclusive(case, "reference child failed: " + str(rep.get("error"))[:300])
                return
            ref = rep["result"]
            if ref["errors"]:
                rec.skip("cpython-rejects-package")
                rec.count("rejected_by_cpython")
                return
            if statement_shadows_submodule(files):
                rec.skip("member-shadows-submodule")
                return
            for mname, minfo in ref["modules"].items():
                for n, v in minfo["names"].items():
                    if f"{mname}.{n}" in ref["modules"] and v["id"] != f"{mname}.{n}":
                        # documented limitation ("avoid member-submodule name shadowing"): outside the domain
                        rec.skip("member-shadows-submodule")
                        return
            if wildcard_shadows_submodule(files, ref):
                rec.skip("member-shadows-submodule")
                return
            _WILD[0] = 0
            pkgs, _loader, stats = run_session(tops, session or default_session(tops), root, partial=partial)
            rec.count("packages_compared")
            rec.count("wildcard_expansions_observed", _WILD[0])
            part = None
            extra: list[tuple] = []
            if partial:
                rec.maximum("partial_settling_calls_max", stats.get("settle_resolves", 0))
                if stats.get("settle_resolves", 0) > 1:
                    rec.count("partial_sessions_settled_by_more_than_one_call")
                part, extra = partial_expectations(rec, files, tops, ref, session, pkgs, str(root))
                if part is None:
                    return
            elif session is not None:
                rec.count("sessions_compared")
                rec.count("session_loads_after_a_resolve", stats["loads_after_a_resolve"])
                rec.count("session_wildcard_expansions_after_first_resolve", stats["expansions_after_first_resolve"])
                rec.count("session_packages_pulled_in_by_external_resolve", stats["pulled_in_by_external"])
                rec.count("session_packages_loaded_late_explicitly", stats["late_explicit_loads"])
                count_session_classes(rec, files, ref, tops, session)
            count_input_classes(rec, files, ref)
            count_composition_classes(rec, files, ref)
            res = extra + judge(rec, case, files, tops, ref, pkgs, stats["load_order"], stats["events"], part)
    except Exception as exc:  # noqa: BLE001
        rec.fail_exc(case, f"{type(exc).__name__} while loading / resolving an acyclic package", exc, nontrivial=nontrivial, tags=tags)
        return
    if res:
        # an unlisted refutation wins over listed ones found in the same package
        first = next((p for p in res if p[3] is None), res[0])
        rec.fail(case, first[0], observed=first[1], expected=first[2], finding=first[3], tried=first[4], nontrivial=nontrivial, tags=tags)
    else:
        rec.ok(case, nontrivial=nontrivial, tags=tags)


def count_session_classes(rec, files: dict, ref: dict, tops: list[str], session: list) -> None:  # noqa: ANN001
    """Evidence for the stateful class: a wildcard over a module of *another* top-level package that is loaded only after
    a resolve_aliases() call that followed the importer's own load ("late" wildcard), sitting below a local definition of
    a name it rebinds (CPython: the wildcard wins) - and whether some other module imports that name explicitly."""
    import ast

    load_at = {arg: i for i, (op, arg) in enumerate(session) if op == "load"}
    resolves = [i for i, (op, _arg) in enumerate(session) if op == "resolve"]
    explicit: set[tuple[str, str]] = set()
    trees = {}
    for rel, src in files.items():
        mod = rel[:-3].replace("/", ".").removesuffix(".__init__")
        trees[mod] = tree = ast.parse(src)
        for node in tree.body:
            if isinstance(node, ast.ImportFrom) and not node.level and node.module:
                explicit.update((node.module, a.name) for a in node.names if a.name != "*")
    for mod, tree in trees.items():
        own_top = mod.split(".")[0]
        defined: dict[str, int] = {}
        for node in tree.body:
            if isinstance(node, (ast.FunctionDef, ast.ClassDef)):
                defined[node.name] = node.lineno
            elif isinstance(node, ast.Assign):
                defined.update({t.id: node.lineno for t in node.targets if isinstance(t, ast.Name)})
            elif isinstance(node, ast.ImportFrom) and not node.level and node.module and any(a.name == "*" for a in node.names):
                src_top = node.module.split(".")[0]
                if src_top == own_top or src_top not in tops or own_top not in load_at:
                    continue
                late = any(load_at[own_top] < r < load_at.get(src_top, len(session)) for r in resolves)
                if not late:
                    continue
                rec.count("late_wildcards_over_another_package")
                mine = ref["modules"].get(mod, {}).get("names", {})
                theirs = ref["modules"].get(node.module, {}).get("names", {})
                rebound = [n for n, ln in defined.items() if ln < node.lineno and n in theirs and mine.get(n) == theirs[n]]
                if rebound:
                    rec.count("late_wildcards_overriding_earlier_local_definition")
                    if any((mod, n) in explicit for n in rebound):
                        rec.count("late_wildcard_overrides_imported_explicitly_elsewhere")


def partial_expectations(rec, files: dict, tops: list[str], ref: dict, session: list, pkgs: list, root: str) -> tuple[dict | None, list[tuple]]:  # noqa: ANN001
    """Partial session: which packages the collection must / may hold afterwards (problems returned), what is out of reach
    of the judgement (``part`` for judge), evidence counters.  CPython importing only the explicitly loaded packages (which
    pulls in the others) confirms the model of the required packages."""
    problems: list[tuple] = []
    explicit = [op[1] for op in session if op[0] == "load"]
    flags = [op[2] if op[0] == "load" else op[1] for op in session if op[0] == "resolve" or len(op) > 2]
    last = flags[-1]
    ext_true = [f for f in flags if f.get("external", False) is True]
    held = {p.path for p in pkgs}
    entry = sorted(m for m in ref["modules"] if m.split(".", 1)[0] in explicit)
    rep = server().import_package(root, tops, entry=entry)
    if not rep.get("ok") or rep["result"]["errors"]:
        rec.inconclusive({"files": files, "top": tops, "session": session, "partial": True}, "reference child failed on the explicitly loaded packages")
        return None, []
    pulled = {m.split(".", 1)[0] for m in rep["result"]["modules"]}
    rec.count("partial_sessions_compared")
    rec.count("partial_packages_loaded_explicitly", len(explicit))
    rec.count("partial_packages_cpython_pulls_in", len(pulled - set(explicit)))
    rec.count("partial_packages_griffe_pulled_in", len(held - set(explicit)))
    if any(len(op) > 2 for op in session):
        rec.count("partial_sessions_through_load_shortcut")
    upper = package_closure(files, ref, explicit, tops, implicit=True, every_statement=True)
    if not ext_true:
        upper = set(explicit)
    if not held <= upper:
        problems.append(("packages loaded that no import statement of the loaded code leads to" if ext_true else
                         "packages loaded on demand although no call allowed it (external False/None)", sorted(held - upper), sorted(upper), None, []))
    if last.get("external", False) is True:
        rec.count("partial_sessions_external_true")
        required = package_closure(files, ref, explicit, tops, implicit=bool(last.get("implicit", True)))
        if not required <= pulled:
            rec.count("partial_required_model_not_confirmed_by_cpython")   # stays 0: CPython imports at least what the model requires
            required &= pulled
        rec.count("partial_required_packages_checked", len(required - set(explicit)))
        if len(required - set(explicit)) >= 2:
            rec.count("partial_sessions_requiring_two_or_more_unloaded_packages")
        if not required <= held:
            problems.append(("resolve_aliases(external=True) left a package unloaded that wildcard / alias chains of the loaded code lead through",
                             sorted(held), sorted(required), None, []))
    else:
        rec.count("partial_sessions_external_none" if last.get("external", False) is None else "partial_sessions_external_false")
    if set(tops) - held:
        rec.count("partial_sessions_judged_with_packages_left_unloaded")
    part = {"held": sorted(held), **provenance(files, ref, held)}
    kinds = cross_package_chains(files, ref, explicit, part["bindings"])
    for kind in kinds:
        rec.count(f"partial_chains_crossing_two_unloaded_packages_{kind}")
    if last.get("external", False) is True and kinds & {"wildcard", "mixed"}:
        rec.count("partial_external_true_sessions_with_wildcard_chain_over_two_unloaded_packages")
    del part["bindings"]
    return part, problems


def package_import_graph(files: dict) -> dict[str, set[str]]:
    import ast

    graph: dict[str, set[str]] = {}
    for rel, src in files.items():
        own = rel.split("/", 1)[0]
        for node in ast.walk(ast.parse(src)):
            if isinstance(node, ast.Import):
                graph.setdefault(own, set()).update(a.name.split(".")[0] for a in node.names)
            elif isinstance(node, ast.ImportFrom) and not node.level and node.module:
                graph.setdefault(own, set()).add(node.module.split(".")[0])
    return {k: v - {k} for k, v in graph.items()}


def gen_partial(rng: random.Random) -> tuple[dict, list[str], list[list]]:
    """Partial loading session: 2-4 top-level packages (later ones import from earlier ones, often: wildcards, named
    re-exports, module imports, `__all__` compositions - chains can cross every package); ANY non-empty subset of them is
    loaded explicitly, in any order (subsets from which the import statements lead into several other packages are
    preferred), resolve_aliases() between the loads sometimes, then the deciding call: resolve_aliases(implicit=…,
    external=True | None | False) or the `griffe.load(last, resolve_aliases=True, resolve_implicit=…, resolve_external=…)`
    shortcut.  The packages left out are never loaded by the harness."""
    import itertools

    names = ["pa", "pb", "pc", "pd"][: rng.choice([2, 3, 3, 3, 4])]
    pkgs: list[packages.Pkg] = []
    files: dict[str, str] = {}
    for nm in names:
        pkg = packages.gen_package(rng, nm, with_docs=True, nmods=(2, 4), foreign=list(pkgs), foreign_prob=rng.choice([0.4, 0.6, 0.8]),
                                   late=0.3, compose_prob=0.4)
        pkgs.append(pkg)
        files.update(pkg.files())
    graph = package_import_graph(files)

    def reach(subset: tuple) -> int:
        seen, todo = set(subset), list(subset)
        while todo:
            for q in graph.get(todo.pop(), ()):
                if q in names and q not in seen:
                    seen.add(q)
                    todo.append(q)
        return len(seen) - len(subset)

    subsets = [c for k in range(1, len(names) + 1) for c in itertools.combinations(names, k)]
    explicit = list(rng.choices(subsets, weights=[1 + 3 * reach(c) ** 2 for c in subsets])[0])
    rng.shuffle(explicit)
    final = {"implicit": rng.random() < 0.7, "external": rng.choice([True, True, True, True, None, False])}
    shortcut = rng.random() < 0.3
    session: list[list] = []
    for i, t in enumerate(explicit):
        if i == len(explicit) - 1 and shortcut:
            session.append(["load", t, final])
            break
        session.append(["load", t])
        if i < len(explicit) - 1 and rng.random() < 0.35:
            session.append(["resolve", {"implicit": rng.random() < 0.7, "external": rng.choice([False, None, True])}])
    if not shortcut:
        session.append(["resolve", final])
    return files, names, session


def gen_session(rng: random.Random) -> tuple[dict, list[str], list[list]]:
    """2-3 top-level packages (later ones import from earlier ones: acyclic), one loader, the packages loaded one after the
    other in random order, resolve_aliases() between loads sometimes (implicit / external variants), a last resolve."""
    names = ["pa", "pb", "pc"][: rng.choice([2, 2, 3])]
    pkgs: list[packages.Pkg] = []
    files: dict[str, str] = {}
    for nm in names:
        pkg = packages.gen_package(rng, nm, with_docs=True, nmods=(2, 5), foreign=list(pkgs), late=0.5, compose_prob=0.6)
        pkgs.append(pkg)
        files.update(pkg.files())
    order = list(names)
    rng.shuffle(order)
    if rng.random() < 0.2:
        # one package is never loaded explicitly: a resolve_aliases(external=True) has to pull it in
        order.remove(rng.choice(names[:-1]))
        last_external: bool | None = True
    else:
        last_external = rng.choice([False, None, True])
    session: list[list] = []
    for i, t in enumerate(order):
        session.append(["load", t])
        if i < len(order) - 1 and rng.random() < 0.65:
            session.append(["resolve", {"implicit": rng.random() < 0.7, "external": rng.choice([False, False, None, True])}])
    if rng.random() < 0.3:
        session.append(["resolve", {"implicit": rng.random() < 0.5, "external": False}])   # settle in two rounds
    session.append(["resolve", {"implicit": True, "external": last_external}])
    return files, names, session


def features(files: dict) -> tuple[bool, tuple]:
    text = "\n".join(files.values())
    wild = "import *" in text
    has_all = "__all__" in text
    # re-export chain >= 2: some module imports a name from a module that itself imported it
    chain = False
    imported_in: dict[str, set[str]] = {}
    import ast

    for rel, src in files.items():
        mod = rel[:-3].replace("/", ".").removesuffix(".__init__")
        tree = ast.parse(src)
        top_level = set(map(id, tree.body))
        for node in ast.walk(tree):
            if isinstance(node, ast.ImportFrom):
                for a in node.names:
                    imported_in.setdefault(mod, set()).add(a.asname or a.name)
    for rel, src in files.items():
        for node in ast.parse(src).body:
            if isinstance(node, ast.ImportFrom) and node.module and not node.level:
                for a in node.names:
                    if a.name in imported_in.get(node.module, ()) or (a.name == "*" and "*" in imported_in.get(node.module, ())):
                        chain = True
    tags = tuple(t for t, f in (("wildcard", wild), ("__all__", has_all), ("chain", chain)) if f)
    return wild and has_all and chain, tags


def run_shard(spec: dict, rec) -> None:  # noqa: ANN001
    rng = random.Random(spec["seed"])
    try:
        for _ in range(spec["count"]):
            q = rng.random()
            if q >= 0.8:
                files, tops, session = gen_partial(rng)
                nontrivial, tags = features(files)
                run_case(rec, files, tops, nontrivial, (*tags, "partial-session"), session, partial=True)
                continue
            if q < 0.4:
                files, tops, session = gen_session(rng)
                nontrivial, tags = features(files)
                run_case(rec, files, tops, nontrivial, (*tags, "session"), session)
                continue
            pkg = packages.gen_package(rng, "pk", with_docs=True, late=0.5, compose_prob=0.6)
            files = pkg.files()
            nontrivial, tags = features(files)
            run_case(rec, files, "pk", nontrivial, tags)
    finally:
        rec.count("reference_child_requests", server().requests)
        server().close()


def run_replay(inp: dict, rec) -> None:  # noqa: ANN001
    try:
        run_case(rec, inp["files"], inp.get("top", "pk"), True, (), inp.get("session"), partial=bool(inp.get("partial")))
    finally:
        server().close()


def run_pinned(findings: list[dict], rec) -> dict:  # noqa: ANN001
    from vf.core.rec import Recorder, pinned_result

    out = {}
    try:
        for f in findings:
            sub = Recorder(PROP, {})
            run_case(sub, f["witness"]["files"], f["witness"].get("top", "pk"), True, (), f["witness"].get("session"),
                     partial=bool(f["witness"].get("partial")))
            out[f["id"]] = pinned_result(sub, f)
    finally:
        server().close()
    return out
