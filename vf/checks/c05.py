"""C05 — Imports, re-exports and wildcards resolve exactly as CPython imports them.

Workload: generated acyclic multi-module packages (vf.gen.packages): local definitions with
public/underscore names, absolute/relative/aliased/wildcard imports from earlier modules,
``__all__`` absent / list / tuple / concatenation / ``+=`` / built from another module's
``__all__``, statements in random order, deliberate name clashes, re-export chains.  Bound names
(definitions and import aliases) also come in every underscore *shape* (dunder ``__version__``-like
names, neutral module hooks ``__getattr__``/``__dir__``, class-private style, sunder, ``_``, trailing
underscore) and are spelled like the structural names of the package (the module itself, its
ancestors, other modules); sub-modules are also fetched as ``from a.b import c``.
Oracle (M-REF): a separate CPython child really imports the package and reports, per module, the
names and the *defining identity* of every value.  Griffe: static load + resolve_aliases(
implicit=True); names and final targets are compared; every resolved alias must present its
target (kind, docstring, labels, parameters, members rebased under the alias path).
"""
from __future__ import annotations

import random

from vf.core.util import case_watchdog, tmp_tree
from vf.gen import packages
from vf.ref.pyref import RefServer

PROP = "C05"
LEVEL = "exploration"
ANCHORS = ["loader.py", "agents/nodes/exports.py"]
RULE = ("generated acyclic packages of 3-8 modules (0-2 sub-packages, optional nested sub-package): 2-7 statements per "
        "module drawn from definitions (func/class/unique-string value, public and underscore names, 25% from a shared "
        "pool to force clashes), from-imports (absolute/relative, aliased), module imports (import a.b [as c], from . import "
        "m [as n], from a.b import m [as n]), wildcard imports, __all__ forms (list, tuple, concatenation, +=, other module's "
        "__all__ + list). 10% of bound names are underscore-shaped (dunder, module hooks, class-private style, sunder, "
        "'_', trailing '_'), 10% are spelled like the module itself / an ancestor package / another module. "
        "Only packages CPython imports without error are judged. distinct = digest of files; non-trivial = >=1 wildcard, "
        ">=1 __all__ and a re-export chain of length >=2")
LEVEL_TEXT = ("Each generated package is really imported by a CPython child and statically loaded by Griffe with alias "
              "resolution; per module the visible names (minus the dunders the interpreter sets itself and implicitly bound sub-modules, "
              "dropped symmetrically) and the defining object every name finally refers to must be equal; resolved aliases "
              "are checked to present their target's kind/docstring/labels/signature/members with rebased paths.")
LEVEL_NOTE = ("trusted: CPython's import system in a child interpreter; values identify their definition through unique "
              "string literals / __module__.__qualname__; acyclic layering of the generator (cyclic graphs are C06's domain)")
TECHNIQUE = "runtime monitoring: differential oracle against a real CPython import of the same package + alias-presentation invariants"
REQUIRED_COUNTERS = ["packages_compared", "modules_compared", "names_compared", "final_targets_compared",
                     "alias_presentations_checked", "wildcard_expansions_observed",
                     "wildcards_over_underscore_names_without_all", "wildcards_over_dunder_names_without_all",
                     "wildcards_exporting_underscore_names_through_all", "dunder_names_compared",
                     "underscore_shaped_names_compared", "namespace_spelled_names_compared"]
EXHAUSTIVE = {"quick": False, "thorough": False}
ASSUMPTIONS = ["import graphs are acyclic by construction", "implicitly bound sub-modules (not bound by a statement of that module) are dropped on both sides"]
_SERVER: RefServer | None = None
_WILD = [0]


def server() -> RefServer:
    global _SERVER
    if _SERVER is None:
        _SERVER = RefServer()
    return _SERVER


def shards(tier: str, seed: int) -> list[dict]:
    n = 150 if tier == "quick" else 2500
    return [{"count": n} for _ in range(16)]


def make_ext():  # noqa: ANN201
    import griffe

    class Counter(griffe.Extension):
        def on_wildcard_expansion(self, *, alias, loader, **kwargs):  # noqa: ANN001, ANN003, ARG002
            _WILD[0] += 1

    return Counter()


def griffe_view(files: dict, top: str, root) -> tuple[dict, object]:  # noqa: ANN001
    import griffe

    loader = griffe.GriffeLoader(search_paths=[root], allow_inspection=False, extensions=griffe.load_extensions(make_ext()))
    pkg = loader.load(top)
    loader.resolve_aliases(implicit=True, external=False)
    return pkg, loader


def walk_modules(mod):  # noqa: ANN001
    yield mod
    for m in mod.members.values():
        if not m.is_alias and m.is_module:
            yield from walk_modules(m)


def judge(rec, case, files, top, ref, pkg) -> list[tuple]:  # noqa: ANN001, C901, PLR0912
    """Returns every problem found as (what, observed, expected, finding, tried); judging goes on after a problem so that
    a refutation of a listed mechanism cannot hide an unlisted one in the same package."""
    problems: list[tuple] = []
    from _griffe.exceptions import AliasResolutionError, CyclicAliasError

    implicit = implicit_submodule_names(files, ref)
    for gmod in walk_modules(pkg):
        rmod = ref["modules"].get(gmod.path)
        if rmod is None:
            problems.append((f"module {gmod.path} loaded by griffe but not importable by CPython", gmod.path, None, None, []))
            continue
        rec.count("modules_compared")
        rel = gmod.path.replace(".", "/")
        src = files.get(rel + "/__init__.py") if gmod.is_package or gmod.is_subpackage else files.get(rel + ".py")
        if src is None:
            src = files.get(rel + "/__init__.py", files.get(rel + ".py", ""))
        drop = set(implicit.get(gmod.path, set()))
        rnames = {n: v for n, v in rmod["names"].items() if n not in drop}
        gnames = {}
        for n, m in gmod.members.items():
            if n.endswith("/*"):
                problems.append((f"unexpanded wildcard placeholder {gmod.path}.{n} left in an acyclic, fully loaded package", n, None, None, []))
                continue
            if n in drop:
                continue
            if not m.is_alias and m.is_module and n not in rmod["names"]:
                continue  # a sub-module CPython never bound on the parent because nothing imported it there
            gnames[n] = m
        if set(gnames) != set(rnames):
            missing = sorted(set(rnames) - set(gnames))
            extra = sorted(set(gnames) - set(rnames))
            fid, tried = classify_names(gmod.path, missing, extra, files, ref)
            problems.append((f"names visible in {gmod.path} differ", {"missing_in_griffe": missing, "extra_in_griffe": extra},
                             sorted(rnames), fid, tried))
            rnames = {n: v for n, v in rnames.items() if n in gnames}   # go on with the names both sides have
        rec.count("names_compared", len(rnames))
        structural = {part for m in ref["modules"] for part in m.split(".")}
        for n in rnames:
            if n == "__all__":
                continue
            if packages.is_dunder(n):
                rec.count("dunder_names_compared")
            elif n.startswith("_") or n.endswith("_"):
                rec.count("underscore_shaped_names_compared")
            if n in structural:
                rec.count("namespace_spelled_names_compared")
        # exports
        if rmod["all"] is not None:
            gall = None if gmod.exports is None else [e if isinstance(e, str) else e.name for e in gmod.exports]
            if gall is None or list(gall) != list(rmod["all"]):
                problems.append((f"__all__ of {gmod.path} differs", gall, rmod["all"], None, []))
                continue
        for n, want in rnames.items():
            m = gnames[n]
            if n == "__all__":
                continue
            rec.count("final_targets_compared")
            try:
                final = m.final_target if m.is_alias else m
            except (AliasResolutionError, CyclicAliasError) as exc:
                fid, tried = classify_target(gmod.path, n, {}, want, files, ref)
                problems.append((f"{gmod.path}.{n}: alias cannot be resolved in a fully loaded acyclic package", repr(exc)[:200], want, fid, tried))
                continue
            if want["k"] == "value":
                got = {"k": "value", "id": final.path if final.is_attribute else f"<{final.kind.value}> {final.path}"}
            elif want["k"] in ("class", "function", "module"):
                got = {"k": final.kind.value, "id": final.path}
            else:
                continue
            if got != want:
                fid, tried = classify_target(gmod.path, n, got, want, files, ref)
                if fid is None and m.is_alias:
                    tried = [*tried, "C05-early-resolution-stale-target"]
                    fresh = relookup_by_path(pkg.modules_collection, m)
                    if fresh is not None and fresh.path == want["id"]:
                        fid = "C05-early-resolution-stale-target"
                problems.append((f"{gmod.path}.{n} refers to a different definition", got, want, fid, tried))
                continue
            if m.is_alias:
                rec.count("alias_presentations_checked")
                bad = check_presentation(m, final)
                if bad:
                    problems.append((f"alias {m.path} does not present its target: {bad[0]}", bad[1], bad[2], None, []))
                    continue
    for rname in ref["modules"]:
        try:
            obj = pkg.modules_collection.get_member(rname)
        except KeyError:
            problems.append((f"module {rname} imported by CPython but not loaded by griffe", None, rname, None, []))
            continue
        if obj.is_alias or not obj.is_module:
            # a member shadows the sub-module in Griffe's single namespace (documented limitation), only if names clash
            continue
    return problems


def statement_shadows_submodule(files: dict) -> bool:
    """Static side of the domain restriction "a member shadows a sub-module of its own package" (documented Griffe
    limitation): some package __init__ binds, by a top-level statement, the name of one of its direct children to
    something other than that child.  The runtime test alone is order-fragile: importing the child later re-binds the
    attribute on the package, after other modules (or class bodies) already captured the shadowing value."""
    import ast

    mods = {rel[:-3].replace("/", ".").removesuffix(".__init__") for rel in files}
    for rel, src in files.items():
        if not rel.endswith("/__init__.py"):
            continue
        pkgpath = rel[: -len("/__init__.py")].replace("/", ".")
        children = {m.rsplit(".", 1)[1] for m in mods if "." in m and m.rsplit(".", 1)[0] == pkgpath}
        for node in ast.parse(src).body:
            if isinstance(node, (ast.FunctionDef, ast.AsyncFunctionDef, ast.ClassDef)):
                bound = [(node.name, None)]
            elif isinstance(node, (ast.Assign, ast.AnnAssign, ast.AugAssign)):
                targets = node.targets if isinstance(node, ast.Assign) else [node.target]
                bound = [(t.id, None) for t in targets if isinstance(t, ast.Name)]
            elif isinstance(node, ast.Import):
                bound = [(a.asname or a.name.split(".")[0], a.name if a.asname else a.name.split(".")[0]) for a in node.names]
            elif isinstance(node, ast.ImportFrom):
                if node.level:
                    base = pkgpath.split(".")
                    base = base[: len(base) - (node.level - 1)]
                    srcmod = ".".join(base + ([node.module] if node.module else []))
                else:
                    srcmod = node.module
                bound = [(a.asname or a.name, f"{srcmod}.{a.name}") for a in node.names if a.name != "*"]
            else:
                continue
            if any(n in children and what != f"{pkgpath}.{n}" for n, what in bound):
                return True
    return False


def wildcard_sources(files: dict) -> dict[str, list[str]]:
    """Per module: the absolute paths of the modules its top-level `from X import *` statements read (in source order)."""
    import ast

    out: dict[str, list[str]] = {}
    for rel, src in files.items():
        mod = rel[:-3].replace("/", ".").removesuffix(".__init__")
        is_pkg = rel.endswith("__init__.py")
        for node in ast.parse(src).body:
            if isinstance(node, ast.ImportFrom) and any(a.name == "*" for a in node.names):
                if node.level:
                    base = mod.split(".") if is_pkg else mod.split(".")[:-1]
                    base = base[: len(base) - (node.level - 1)]
                    srcmod = ".".join(base + ([node.module] if node.module else []))
                else:
                    srcmod = node.module
                out.setdefault(mod, []).append(srcmod)
    return out


def count_input_classes(rec, files: dict, ref: dict) -> None:  # noqa: ANN001
    """Evidence that the underscore-shape classes really reach the wildcard rule (counted from what CPython reports)."""
    for mod, sources in wildcard_sources(files).items():
        for srcmod in sources:
            info = ref["modules"].get(srcmod)
            if info is None:
                continue
            under = [n for n in info["names"] if n.startswith("_") and n != "__all__"]
            if info["all"] is None:
                if under:
                    rec.count("wildcards_over_underscore_names_without_all")
                if any(packages.is_dunder(n) for n in under):
                    rec.count("wildcards_over_dunder_names_without_all")
            elif any(n.startswith("_") for n in info["all"]):
                rec.count("wildcards_exporting_underscore_names_through_all")


def implicit_submodule_names(files: dict, ref: dict) -> dict[str, set[str]]:
    """Per module: module-valued names that no statement of that module binds (CPython binds sub-modules on their parent
    as a side effect of importing them; such names can travel further through wildcard imports).  They are dropped on
    both sides (domain restriction of DESIGN C05)."""
    import ast

    info = {}
    for rel, src in files.items():
        mod = rel[:-3].replace("/", ".").removesuffix(".__init__")
        is_pkg = rel.endswith("__init__.py")
        wild = []
        explicit = []
        tree = ast.parse(src)
        top_level = set(map(id, tree.body))
        for node in ast.walk(tree):
            if isinstance(node, ast.ImportFrom):
                if node.level:
                    base = mod.split(".") if is_pkg else mod.split(".")[:-1]
                    base = base[: len(base) - (node.level - 1)]
                    srcmod = ".".join(base + ([node.module] if node.module else []))
                else:
                    srcmod = node.module
                for a in node.names:
                    if a.name == "*":
                        if id(node) in top_level:
                            wild.append(srcmod)
                    else:
                        explicit.append((srcmod, a.name, a.asname or a.name, id(node) not in top_level))
        info[mod] = (packages.statement_bound_names(src), wild, explicit)
    implicit: dict[str, set[str]] = {m: set() for m in info}
    changed = True
    while changed:
        changed = False
        for mod, (bound, wild, explicit) in info.items():
            names = ref["modules"].get(mod, {}).get("names", {})
            # (c) an explicit import of a name that is only implicitly bound in its source module: what it captures
            # depends on the order of import side effects
            for srcmod, name, asname, nested in explicit:
                if f"{srcmod}.{name}" in ref["modules"] and (
                        names.get(asname) == {"k": "module", "id": f"{srcmod}.{name}"} if not nested else
                        not any(name in ref["modules"].get(w, {}).get("names", {}) or name in implicit.get(w, ())
                                for w in info.get(srcmod, ((), (), ()))[1])):
                    # `from P import child` naming a real direct sub-module of P: when P has no such attribute yet, CPython's
                    # from-import imports the sub-module itself, so this binding does not depend on side-effect order - it
                    # is judged.  Module level: what was captured is visible (it is that sub-module); inside a class body
                    # it is not, so there no wildcard of P may be able to bring a same-named attribute into P first.
                    continue
                if name in implicit.get(srcmod, ()) and asname not in implicit[mod] and (
                        nested or names.get(asname, {}).get("k") == "module"):
                    implicit[mod].add(asname)
                    changed = True
            for n, v in names.items():
                if v["k"] != "module" or n in implicit[mod]:
                    continue
                # (a) a direct sub-module nobody binds by statement here; (b) a name that a wildcard source carries only
                # implicitly (it may override a statement-bound name of this module, so (b) ignores `bound`)
                if (n not in bound and v["id"] == f"{mod}.{n}") or any(n in implicit.get(w, ()) for w in wild):
                    implicit[mod].add(n)
                    changed = True
    return implicit


def relookup_by_path(collection, alias):  # noqa: ANN001, ANN201
    """Follow an alias chain by *paths*, asking the collection again at every hop (ignores the cached `_target`s)."""
    seen = set()
    path = alias.target_path
    for _ in range(50):
        if path in seen:
            return None
        seen.add(path)
        try:
            obj = collection.get_member(path)
        except Exception:  # noqa: BLE001
            return None
        if not obj.is_alias:
            return obj
        path = obj.target_path
    return None


def check_presentation(alias, final):  # noqa: ANN001, ANN201
    if alias.kind is not final.kind:
        return ("kind", alias.kind.value, final.kind.value)
    if (alias.docstring.value if alias.docstring else None) != (final.docstring.value if final.docstring else None):
        return ("docstring", repr(alias.docstring), repr(final.docstring))
    if alias.labels != final.labels:
        return ("labels", sorted(alias.labels), sorted(final.labels))
    if final.is_function:
        if [(p.name, p.kind, str(p.default)) for p in alias.parameters] != [(p.name, p.kind, str(p.default)) for p in final.parameters]:
            return ("parameters", str(alias.parameters), str(final.parameters))
    if final.is_class or final.is_module:
        if set(alias.members) != set(final.members):
            return ("member names", sorted(alias.members), sorted(final.members))
        for name, sub in alias.members.items():
            if sub.path != alias.path + "." + name:
                return ("member path not rebased under the alias", sub.path, alias.path + "." + name)
            if not sub.is_alias and sub is not final.members[name]:
                pass
    if alias.canonical_path != final.path:
        return ("canonical_path", alias.canonical_path, final.path)
    return None


def from_dot_imported_submodules(files: dict) -> set[str]:
    """Paths P.n such that P/__init__.py contains `from . import n` (no `as`): the visitor skips these without
    recording the import (an existing repository test pins that behaviour), so `n` is not wildcard-exposed by P."""
    import ast

    out = set()
    for rel, src in files.items():
        if not rel.endswith("/__init__.py"):
            continue
        pkgpath = rel[: -len("/__init__.py")].replace("/", ".")
        for node in ast.walk(ast.parse(src)):
            if isinstance(node, ast.ImportFrom) and node.level == 1 and not node.module:
                for a in node.names:
                    if not a.asname and a.name != "*":
                        out.add(f"{pkgpath}.{a.name}")
    return out


def classify_names(mod_path: str, missing: list, extra: list, files: dict, ref: dict) -> tuple[str | None, list[str]]:
    tried = ["C05-init-from-dot-import-not-recorded"]
    dotted = from_dot_imported_submodules(files)
    names = ref["modules"][mod_path]["names"]
    if missing and not extra and all(names[n]["k"] == "module" and names[n]["id"] in dotted for n in missing):
        return "C05-init-from-dot-import-not-recorded", tried
    return None, tried


def classify_target(mod_path: str, name: str, got: dict, want: dict, files: dict, ref: dict | None = None) -> tuple[str | None, list[str]]:
    tried = ["C05-init-from-dot-import-not-recorded"]
    if want["k"] == "module" and want["id"] in from_dot_imported_submodules(files):
        return "C05-init-from-dot-import-not-recorded", tried
    tried.append("C05-repeated-wildcard-skip-keeps-older-line")
    if ref is not None and got and repeated_wildcard_keeps_older_line(mod_path, name, got, want, files, ref):
        return "C05-repeated-wildcard-skip-keeps-older-line", tried
    return None, tried


def repeated_wildcard_keeps_older_line(mod_path: str, name: str, got: dict, want: dict, files: dict, ref: dict) -> bool:
    """The module wildcard-imports the same source S twice (lines c1 < c2) with a wildcard import of another module T in
    between (line b); `name` is bound to a *module* M by an import statement above b; S exposes `name` as that same
    module M (so CPython's last word, at c2, is M) and Griffe answers what T binds under `name`.  Mechanism: the two
    statements over S share one placeholder member that keeps the first position and the last line number, so S is
    expanded before T; its `name` is skipped by the "alias named after the module it targets" special case without
    taking over the line number c2, and T's older wildcard (b) then overrides the import statement."""
    import ast

    if want.get("k") != "module":
        return False
    rel = mod_path.replace(".", "/")
    is_pkg = rel + "/__init__.py" in files
    src = files.get(rel + "/__init__.py") if is_pkg else files.get(rel + ".py")
    if src is None:
        return False

    def absolute(node: ast.ImportFrom) -> str:
        if node.level:
            base = mod_path.split(".") if is_pkg else mod_path.split(".")[:-1]
            base = base[: len(base) - (node.level - 1)]
            return ".".join(base + ([node.module] if node.module else []))
        return node.module or ""

    wild: list[tuple[int, str]] = []
    import_lines: list[int] = []
    for node in ast.parse(src).body:
        if isinstance(node, ast.ImportFrom):
            for a in node.names:
                if a.name == "*":
                    wild.append((node.lineno, absolute(node)))
                elif (a.asname or a.name) == name and f"{absolute(node)}.{a.name}" == want["id"]:
                    import_lines.append(node.lineno)
        elif isinstance(node, ast.Import):
            for a in node.names:
                if a.asname == name and a.name == want["id"]:
                    import_lines.append(node.lineno)
    names_of = lambda m: ref["modules"].get(m, {}).get("names", {})  # noqa: E731
    for b, t in wild:
        if names_of(t).get(name, {}).get("id") != got.get("id"):
            continue
        for s_mod in {w for _, w in wild if w != t}:
            lines = [ln for ln, w in wild if w == s_mod]
            if (len(lines) >= 2 and min(lines) < b < max(lines) and names_of(s_mod).get(name) == want
                    and any(a < b for a in import_lines)):
                return True
    return False


def run_case(rec, files: dict, top: str, nontrivial: bool, tags=()) -> None:  # noqa: ANN001
    case = {"files": files, "top": top}
    try:
        with case_watchdog(120), tmp_tree(files) as root:
            rep = server().import_package(str(root), [top])
            if not rep.get("ok"):
                rec.inconclusive(case, "reference child failed: " + str(rep.get("error"))[:300])
                return
            ref = rep["result"]
            if ref["errors"]:
                rec.skip("cpython-rejects-package")
                rec.count("rejected_by_cpython")
                return
            if statement_shadows_submodule(files):
                rec.skip("member-shadows-submodule")
                return
            for mname, minfo in ref["modules"].items():
                for n, v in minfo["names"].items():
                    if f"{mname}.{n}" in ref["modules"] and v["id"] != f"{mname}.{n}":
                        # documented limitation ("avoid member-submodule name shadowing"): outside the domain
                        rec.skip("member-shadows-submodule")
                        return
            _WILD[0] = 0
            pkg, _loader = griffe_view(files, top, root)
            rec.count("packages_compared")
            rec.count("wildcard_expansions_observed", _WILD[0])
            count_input_classes(rec, files, ref)
            res = judge(rec, case, files, top, ref, pkg)
    except Exception as exc:  # noqa: BLE001
        rec.fail_exc(case, f"{type(exc).__name__} while loading / resolving an acyclic package", exc, nontrivial=nontrivial, tags=tags)
        return
    if res:
        # an unlisted refutation wins over listed ones found in the same package
        first = next((p for p in res if p[3] is None), res[0])
        rec.fail(case, first[0], observed=first[1], expected=first[2], finding=first[3], tried=first[4], nontrivial=nontrivial, tags=tags)
    else:
        rec.ok(case, nontrivial=nontrivial, tags=tags)


def features(files: dict) -> tuple[bool, tuple]:
    text = "\n".join(files.values())
    wild = "import *" in text
    has_all = "__all__" in text
    # re-export chain >= 2: some module imports a name from a module that itself imported it
    chain = False
    imported_in: dict[str, set[str]] = {}
    import ast

    for rel, src in files.items():
        mod = rel[:-3].replace("/", ".").removesuffix(".__init__")
        tree = ast.parse(src)
        top_level = set(map(id, tree.body))
        for node in ast.walk(tree):
            if isinstance(node, ast.ImportFrom):
                for a in node.names:
                    imported_in.setdefault(mod, set()).add(a.asname or a.name)
    for rel, src in files.items():
        for node in ast.parse(src).body:
            if isinstance(node, ast.ImportFrom) and node.module and not node.level:
                for a in node.names:
                    if a.name in imported_in.get(node.module, ()) or (a.name == "*" and "*" in imported_in.get(node.module, ())):
                        chain = True
    tags = tuple(t for t, f in (("wildcard", wild), ("__all__", has_all), ("chain", chain)) if f)
    return wild and has_all and chain, tags


def run_shard(spec: dict, rec) -> None:  # noqa: ANN001
    rng = random.Random(spec["seed"])
    try:
        for _ in range(spec["count"]):
            pkg = packages.gen_package(rng, "pk", with_docs=True)
            files = pkg.files()
            nontrivial, tags = features(files)
            run_case(rec, files, "pk", nontrivial, tags)
    finally:
        rec.count("reference_child_requests", server().requests)
        server().close()


def run_replay(inp: dict, rec) -> None:  # noqa: ANN001
    try:
        run_case(rec, inp["files"], inp.get("top", "pk"), True)
    finally:
        server().close()


def run_pinned(findings: list[dict], rec) -> dict:  # noqa: ANN001
    from vf.core.rec import Recorder, pinned_result

    out = {}
    try:
        for f in findings:
            sub = Recorder(PROP, {})
            run_case(sub, f["witness"]["files"], f["witness"].get("top", "pk"), True)
            out[f["id"]] = pinned_result(sub, f)
    finally:
        server().close()
    return out
