"""C02 — Function signatures equal CPython's view of the same definition.

Workload: every legal parameter list with <= 4 parameters (kinds x default x annotation,
exhaustive), sampled lists up to 9 parameters, each placed as module function, method, async
function, nested-class method, lambda attribute value and lambda parameter default; overload
groups; property getter/setter/deleter groups.
Oracle: the same source is executed by CPython in this child; ``inspect.signature``,
``typing.get_overloads`` and ``property.fget/fset/fdel`` give the expected view.  Default and
annotation expressions are compared by *value*: ``eval(str(griffe_expr))`` against the object
CPython stored.  M-CON (icontract) post-condition on every ``get_parameters`` call.
"""
from __future__ import annotations

import ast
import inspect
import itertools
import random
import typing

from vf.core.util import case_watchdog, visit_source

PROP = "C02"
LEVEL = "exploration"
ANCHORS = ["agents/nodes/parameters.py", "agents/visitor.py"]
RULE = ("all legal parameter lists of <=4 parameters over kinds {pos-only, normal, *var, kw-only, **var} x default "
        "present/absent (Python's default-ordering rule) x annotated or not, enumerated exhaustively, each rendered in 6 "
        "contexts (function, method, async def, nested-class method, lambda value, lambda default), with and without "
        "'from __future__ import annotations'; seeded samples up to 9 parameters; overload groups (k overloads, "
        "interleaved, in classes, under TYPE_CHECKING) and property getter/setter/deleter groups in every order. "
        "distinct = digest of the source; non-trivial = >=2 parameters of >=2 kinds (or an overload/property group)")
LEVEL_TEXT = ("Each generated definition is executed by CPython and statically visited by Griffe; names, order, kinds, "
              "has-default, required-ness, default values, annotations and return annotations are compared parameter by "
              "parameter, overload lists against typing.get_overloads in order, property setters/deleters against "
              "fset/fdel. Exhaustive for <=4 parameters; sampled above. A contract on get_parameters is evaluated on "
              "every call.")
LEVEL_NOTE = ("trusted: CPython inspect.signature(eval_str=True), typing.get_overloads, property objects; default/annotation "
              "expressions drawn from simple atoms so rendering defects (C03) cannot surface here")
TECHNIQUE = "runtime monitoring: differential oracle against CPython introspection + icontract post-condition on get_parameters"
REQUIRED_COUNTERS = ["signatures_compared", "get_parameters_contract_evals", "overload_groups_compared",
                     "property_groups_compared", "lambda_signatures_compared", "defaults_compared_by_value",
                     "annotations_compared_by_value"]
EXHAUSTIVE = {"quick": True, "thorough": True}
ASSUMPTIONS = ["exhaustive over parameter lists of <=4 parameters only; larger lists, overload and property groups are sampled/catalogued"]

PO, PK, VP, KO, VK = 0, 1, 2, 3, 4
KIND_NAMES = {PO: "positional-only", PK: "positional or keyword", VP: "variadic positional", KO: "keyword-only", VK: "variadic keyword"}
INSPECT_KIND = {inspect.Parameter.POSITIONAL_ONLY: PO, inspect.Parameter.POSITIONAL_OR_KEYWORD: PK,
                inspect.Parameter.VAR_POSITIONAL: VP, inspect.Parameter.KEYWORD_ONLY: KO, inspect.Parameter.VAR_KEYWORD: VK}
DEFAULTS = ["0", "'s'", "None", "(1, 2)", "D1", "-1", "[1]", "{'k': 1}", "D1.attr", "True", "1.5", "b'x'", "..."]
ANNOTS = ["int", "str", "T1", "list[int]", "T1 | None", "'T1'", "dict[str, T1]", "mod.T2", "None"]
PRELUDE = ("class T1: ...\nclass _D:\n    attr = 7\n    def __eq__(self, o): return isinstance(o, _D)\n    __hash__ = None\n"
           "D1 = _D()\nclass mod:\n    class T2: ...\n")


class ContractBroken(Exception):
    pass


def param_lists(n: int):
    for kinds in itertools.product(range(5), repeat=n):
        if list(kinds) != sorted(kinds) or kinds.count(VP) > 1 or kinds.count(VK) > 1:
            continue
        slots = [[0] if k in (VP, VK) else [0, 1] for k in kinds]
        for d in itertools.product(*slots):
            seen = False
            legal = True
            for k, x in zip(kinds, d):
                if k in (PO, PK):
                    if x:
                        seen = True
                    elif seen:
                        legal = False
                        break
            if not legal:
                continue
            for ann in itertools.product([0, 1], repeat=n):
                yield kinds, d, ann


def render_params(kinds, dfl, ann, rng, lambda_form=False, first=None) -> tuple[str, list[dict]]:  # noqa: ANN001
    parts, spec = [], []
    if first:
        parts.append(first)
    n = len(kinds)
    for i, k in enumerate(kinds):
        name = f"p{i}"
        if k == KO and VP not in kinds and (i == 0 or kinds[i - 1] != KO):
            parts.append("*")
        txt = {VP: "*" + name, VK: "**" + name}.get(k, name)
        a = d = None
        if ann[i] and not lambda_form:
            a = rng.choice(ANNOTS)
            txt += ": " + a
        if dfl[i]:
            d = rng.choice(DEFAULTS)
            txt += (" = " if a else "=") + d
        parts.append(txt)
        spec.append({"name": name, "kind": k, "default": d, "annotation": a})
        if k == PO and (i + 1 == n or kinds[i + 1] != PO):
            parts.append("/")
    if first and kinds and kinds[0] == PO:
        # `self` must be positional-only too when followed by positional-only parameters: put it before the slash
        pass
    return ", ".join(parts), spec


def shards(tier: str, seed: int) -> list[dict]:
    nsh = 12
    out = [{"kind": "exhaustive", "maxn": 4, "part": p, "parts": nsh} for p in range(nsh)]
    out += [{"kind": "sampled", "count": 60 if tier == "quick" else 6000} for _ in range(2 if tier == "quick" else 8)]
    out += [{"kind": "overloads", "count": 500 if tier == "quick" else 8000}, {"kind": "properties", "count": 400 if tier == "quick" else 8000}]
    # one interpreter, all workloads interleaved: what an earlier definition (an awaitable property, a decorated async def,
    # an overload group) leaves behind in the agent must not change how a later one is read
    out += [{"kind": "mixed", "count": 150 if tier == "quick" else 4000} for _ in range(2 if tier == "quick" else 4)]
    if tier == "thorough":
        out += [{"kind": "exhaustive5", "part": p, "parts": 8} for p in range(8)]
    return out


# -- M-CON -----------------------------------------------------------------------------------
def install_contract(rec) -> None:  # noqa: ANN001
    import _griffe.agents.visitor as visitor
    import _griffe.expressions as expressions
    from _griffe.agents.nodes import parameters as pmod
    from _griffe.enumerations import ParameterKind as K

    if getattr(visitor.get_parameters, "_vf", False):
        return
    order = [K.positional_only, K.positional_or_keyword, K.var_positional, K.keyword_only, K.var_keyword]

    def parameters_align(node, result) -> bool:  # noqa: ANN001
        rec.count("get_parameters_contract_evals")
        nargs = len(node.posonlyargs) + len(node.args) + len(node.kwonlyargs) + bool(node.vararg) + bool(node.kwarg)
        if len(result) != nargs:
            return False
        idx = [order.index(k) for _n, _a, k, _d in result]
        if idx != sorted(idx):
            return False
        pos = [r for r in result if r[2] in (K.positional_only, K.positional_or_keyword)]
        npos, nd = len(pos), len(node.defaults)
        for i, r in enumerate(pos):
            want = node.defaults[i - (npos - nd)] if i >= npos - nd else None
            if r[3] is not want:
                return False
        if [r[0] for r in pos] != [a.arg for a in node.posonlyargs + node.args]:
            return False
        kws = [r for r in result if r[2] is K.keyword_only]
        for r, arg, d in zip(kws, node.kwonlyargs, node.kw_defaults):
            if r[0] != arg.arg or r[3] is not d or r[1] is not arg.annotation:
                return False
        for r in result:
            if r[2] is K.var_positional and (r[0] != node.vararg.arg or r[3] != "()"):
                return False
            if r[2] is K.var_keyword and (r[0] != node.kwarg.arg or r[3] != "{}"):
                return False
        return True

    try:
        import icontract

        wrapped = icontract.ensure(parameters_align, error=lambda node, result: ContractBroken(
            f"get_parameters post-condition broken for ({ast.unparse(node)}): {[(r[0], r[2].value, r[3] if isinstance(r[3], str) else (r[3] and ast.unparse(r[3]))) for r in result]}"))(pmod.get_parameters)
        rec.note("M-CON via icontract.ensure")
    except ImportError:
        orig = pmod.get_parameters

        def wrapped(node):  # noqa: ANN001
            result = orig(node)
            if not parameters_align(node, result):
                raise ContractBroken(f"get_parameters post-condition broken for ({ast.unparse(node)})")
            return result

        rec.note("M-CON via built-in fallback wrapper (icontract not importable)")
    wrapped._vf = True  # type: ignore[attr-defined]
    visitor.get_parameters = wrapped
    expressions.get_parameters = wrapped


# -- comparison ------------------------------------------------------------------------------
def same_value(a, b) -> bool:  # noqa: ANN001
    try:
        return type(a) is type(b) and bool(a == b)
    except Exception:  # noqa: BLE001
        return False


def compare_signature(rec, gfunc, pyfunc, ns, label, future, skip_first=False):  # noqa: ANN001, C901, PLR0912
    """Return a problem tuple or None. gfunc: griffe Function; pyfunc: the executed function."""
    sig = inspect.signature(pyfunc, eval_str=True, globals=ns, locals=ns)
    gparams = list(gfunc.parameters)
    cparams = list(sig.parameters.values())
    rec.count("signatures_compared")
    if [p.name for p in gparams] != [p.name for p in cparams]:
        return (f"{label}: parameter names/order differ", [p.name for p in gparams], [p.name for p in cparams])
    for gp, cp in zip(gparams, cparams):
        want_kind = KIND_NAMES[INSPECT_KIND[cp.kind]]
        if gp.kind is None or gp.kind.value != want_kind:
            return (f"{label}: kind of {cp.name} differs", gp.kind and gp.kind.value, want_kind)
        variadic = cp.kind in (cp.VAR_POSITIONAL, cp.VAR_KEYWORD)
        has_default = cp.default is not cp.empty
        if not variadic and (gp.default is not None) != has_default:
            return (f"{label}: has-default of {cp.name} differs", repr(gp.default), has_default)
        if variadic and str(gp.default) != ("()" if cp.kind is cp.VAR_POSITIONAL else "{}"):
            return (f"{label}: variadic default of {cp.name}", repr(gp.default), "()/{}")
        cp_required = not has_default and not variadic
        if gp.required != cp_required:
            return (f"{label}: required-ness of {cp.name} differs", gp.required, cp_required)
        if has_default:
            rec.count("defaults_compared_by_value")
            try:
                val = eval(str(gp.default), ns)  # noqa: S307
            except Exception as exc:  # noqa: BLE001
                return (f"{label}: default of {cp.name} does not evaluate", f"{gp.default!s}: {exc!r}", repr(cp.default))
            if not same_value(val, cp.default):
                return (f"{label}: default value of {cp.name} differs", str(gp.default), repr(cp.default))
        if (gp.annotation is not None) != (cp.annotation is not cp.empty):
            return (f"{label}: annotation presence of {cp.name} differs", repr(gp.annotation), repr(cp.annotation))
        if gp.annotation is not None:
            rec.count("annotations_compared_by_value")
            try:
                val = eval(str(gp.annotation), ns)  # noqa: S307
                if isinstance(val, str):
                    val = eval(val, ns)  # noqa: S307
            except Exception as exc:  # noqa: BLE001
                return (f"{label}: annotation of {cp.name} does not evaluate", f"{gp.annotation!s}: {exc!r}", repr(cp.annotation))
            want = eval(cp.annotation, ns) if isinstance(cp.annotation, str) else cp.annotation  # noqa: S307
            if val != want:
                return (f"{label}: annotation of {cp.name} differs", str(gp.annotation), repr(cp.annotation))
    # return annotation
    if (gfunc.returns is not None) != (sig.return_annotation is not sig.empty):
        return (f"{label}: return annotation presence differs", repr(gfunc.returns), repr(sig.return_annotation))
    if gfunc.returns is not None:
        val = eval(str(gfunc.returns), ns)  # noqa: S307
        if isinstance(val, str):
            val = eval(val, ns)  # noqa: S307
        want = eval(sig.return_annotation, ns) if isinstance(sig.return_annotation, str) else sig.return_annotation  # noqa: S307
        if val != want:
            return (f"{label}: return annotation differs", str(gfunc.returns), repr(sig.return_annotation))
    # Parameters container
    ps = gfunc.parameters
    if len(ps) != len(cparams):
        return (f"{label}: len(parameters)", len(ps), len(cparams))
    for i, cp in enumerate(cparams):
        stars = {cp.VAR_POSITIONAL: "*", cp.VAR_KEYWORD: "**"}.get(cp.kind, "")
        if ps[i] is not ps[cp.name] or ps[stars + cp.name] is not ps[i] or cp.name not in ps or (stars + cp.name) not in ps:
            return (f"{label}: Parameters container lookup inconsistent for {cp.name}", None, None)
    if "zz_absent" in ps:
        return (f"{label}: Parameters container claims an absent name", None, None)
    return None


def compare_lambda(rec, expr, pyfunc, ns, label):  # noqa: ANN001
    sig = inspect.signature(pyfunc)
    rec.count("lambda_signatures_compared")
    from _griffe.expressions import ExprLambda

    if not isinstance(expr, ExprLambda):
        return (f"{label}: lambda not stored as ExprLambda", repr(expr), "ExprLambda")
    gp = list(expr.parameters)
    cp = list(sig.parameters.values())
    if [p.name for p in gp] != [p.name for p in cp]:
        return (f"{label}: lambda parameter names differ", [p.name for p in gp], [p.name for p in cp])
    for g, c in zip(gp, cp):
        if g.kind.value != KIND_NAMES[INSPECT_KIND[c.kind]]:
            return (f"{label}: lambda kind of {c.name} differs", g.kind.value, KIND_NAMES[INSPECT_KIND[c.kind]])
        variadic = c.kind in (c.VAR_POSITIONAL, c.VAR_KEYWORD)
        if not variadic:
            if (g.default is not None) != (c.default is not c.empty):
                return (f"{label}: lambda has-default of {c.name} differs", repr(g.default), repr(c.default))
            if g.default is not None and not same_value(eval(str(g.default), ns), c.default):  # noqa: S307
                return (f"{label}: lambda default of {c.name} differs", str(g.default), repr(c.default))
    return None


def run_signature_case(rec, rng, kinds, dfl, ann, future) -> None:  # noqa: ANN001
    st = rng.getstate()
    plain, _ = render_params(kinds, dfl, ann, rng)
    rng.setstate(st)
    lam, _ = render_params(kinds, dfl, ann, rng, lambda_form=True)
    ret = rng.choice(["", "", " -> int", " -> T1", " -> 'T1'", " -> list[T1]", " -> None"])
    # methods: `self` first; if the list starts positional-only, self is positional-only too (before the slash)
    meth = ("self, " + plain) if plain else "self"
    src = ("from __future__ import annotations\n" if future else "") + PRELUDE
    src += f"def f({plain}){ret}: ...\n"
    src += f"async def af({plain}){ret}: ...\n"
    src += f"class C:\n    def m({meth}){ret}: ...\n    class N:\n        async def nm({meth}){ret}: ...\n"
    src += f"lam = lambda {lam}: 0\n" if lam else "lam = lambda: 0\n"
    src += f"def host(cb=lambda {lam}: 0): ...\n" if lam else "def host(cb=lambda: 0): ...\n"
    case = {"source": src}
    nontrivial = len(kinds) >= 2 and len(set(kinds)) >= 2
    try:
        with case_watchdog(30):
            ns: dict = {"__name__": "vfcase"}
            exec(compile(src, "<c02>", "exec"), ns)  # noqa: S102
            mod = visit_source(src, "m")
            checks = [
                (mod["f"], ns["f"], "function"), (mod["af"], ns["af"], "async function"),
                (mod["C.m"], ns["C"].m, "method"), (mod["C.N.nm"], ns["C"].N.nm, "nested-class async method"),
            ]
            res = None
            for g, c, label in checks:
                if not g.is_function:
                    res = (f"{label}: not a function", g.kind.value, "function")
                    break
                res = compare_signature(rec, g, c, ns, label, future)
                if res:
                    break
            if not res and "async" not in mod["af"].labels:
                res = ("async function lacks the 'async' label", sorted(mod["af"].labels), ["async"])
            if not res:
                res = compare_lambda(rec, mod["lam"].value, ns["lam"], ns, "lambda as attribute value")
            if not res:
                res = compare_lambda(rec, mod["host"].parameters["cb"].default, ns["host"].__defaults__[0], ns, "lambda as default")
    except Exception as exc:  # noqa: BLE001
        rec.fail_exc(case, "exception while extracting / comparing signature", exc, nontrivial=nontrivial)
        return
    if res:
        rec.fail(case, res[0], observed=res[1], expected=res[2], nontrivial=nontrivial)
    else:
        rec.ok(case, nontrivial=nontrivial, tags=(f"n={len(kinds)}",))


# -- overloads -------------------------------------------------------------------------------
def gen_overload_case(rng: random.Random) -> tuple[str, list[tuple[str, str]]]:
    """Returns (source, [(container, funcname)])."""
    names = ["f", "g"] if rng.random() < 0.5 else ["f"]
    in_class = rng.random() < 0.4
    guard = rng.random() < 0.25
    events = []
    for n in names:
        k = rng.randint(0, 3)
        events.append([(n, "ov", j) for j in range(k)] + [(n, "impl", None)])
    # interleave preserving per-function order
    seq = []
    pools = [list(e) for e in events]
    while any(pools):
        p = rng.choice([p for p in pools if p])
        seq.append(p.pop(0))
    ind = "    " if in_class else ""
    selfp = "self, " if in_class else ""
    lines = ["import typing", "from typing import overload", "TYPE_CHECKING = True",
             "def ident(f): return f", "def ident_call(*a, **k): return lambda f: f"]
    # decorators that leave the function as it is, stacked below (or above) @overload: PEP 702 / PEP 698 style stubs
    # (`@overload @deprecated(...)`, `@overload @final`, `@overload @override`) and project-local decorators
    extras = ["", "", "", "@typing.final", "@ident", "@ident_call(1, k='v')", "@ident\n@typing.final"]
    if in_class:
        lines.append("class K:")
    deco = rng.choice(["@overload", "@typing.overload"])
    # typeshed spelling for overloaded static/class methods: @overload stacked above another decorator
    stacked = {n: rng.choice(["", "", "@staticmethod", "@classmethod"]) if in_class else "" for n in names}
    body = []
    for n, what, j in seq:
        first = {"@staticmethod": "", "@classmethod": "cls, "}.get(stacked[n], selfp)
        if what == "ov":
            ann = ["int", "str", "bytes", "float"][j]
            extra = rng.choice(["", ", b=0", ", *a", ", **k"])
            below = [e for e in rng.choice(extras).split("\n") if e]
            above = ["@ident"] if rng.random() < 0.1 else []
            blk = above + [f"{deco}"] + ([stacked[n]] if stacked[n] else []) + below + [f"def {n}({first}x: {ann}{extra}) -> {ann}: ..."]
            if guard and not in_class:
                blk = ["if TYPE_CHECKING:"] + ["    " + b for b in blk]
            body.extend(blk)
        else:
            if stacked[n]:
                body.append(stacked[n])
            body.extend(e for e in rng.choice(extras).split("\n") if e)
            body.append(f"def {n}({first}x, *a, b=0, **k): ...")
    lines.extend(ind + b for b in body)
    return "\n".join(lines) + "\n", [("K" if in_class else "", n) for n in names]


def run_overload_case(rec, rng) -> None:  # noqa: ANN001
    src, targets = gen_overload_case(rng)
    case = {"source": src}
    modname = f"vfov{rng.getrandbits(40)}"
    try:
        with case_watchdog(30):
            ns: dict = {"__name__": modname}
            exec(compile(src, "<c02ov>", "exec"), ns)  # noqa: S102
            mod = visit_source(src, "m")
            res = None
            for container, name in targets:
                pyf = inspect.getattr_static(ns[container], name) if container else ns[name]
                pyf = getattr(pyf, "__func__", pyf)
                gf = mod[f"{container}.{name}" if container else name]
                rec.count("overload_groups_compared")
                pyovs = typing.get_overloads(pyf)
                govs = gf.overloads or []
                if len(govs) != len(pyovs):
                    res = (f"{name}: number of overloads differs", len(govs), len(pyovs))
                    break
                for i, (g, c) in enumerate(zip(govs, pyovs)):
                    res = compare_signature(rec, g, getattr(c, "__func__", c), ns, f"{name} overload #{i}", False)
                    if res:
                        break
                if res:
                    break
                res = compare_signature(rec, gf, pyf, ns, f"{name} implementation", False)
                if res:
                    break
                holder = mod[container] if container else mod
                if holder.overloads.get(name):
                    res = (f"{name}: overloads left dangling on the parent after the implementation", len(holder.overloads[name]), 0)
                    break
    except Exception as exc:  # noqa: BLE001
        rec.fail_exc(case, "exception in overload workload", exc)
        return
    finally:
        typing.clear_overloads()
    if res:
        rec.fail(case, res[0], observed=res[1], expected=res[2])
    else:
        rec.ok(case, nontrivial=True, tags=("overloads",))


# -- properties ------------------------------------------------------------------------------
def run_property_case(rec, rng) -> None:  # noqa: ANN001
    order = rng.choice([[], ["setter"], ["deleter"], ["setter", "deleter"], ["deleter", "setter"], ["setter", "setter"]])
    prefix = rng.choice(["", "    x = 0\n", "    def x(self, q): ...\n"])
    suffix = rng.choice(["", "    def y(self): ...\n", "    z = 1\n"])
    deco = rng.choice(["@property", "@property", "@functools.cached_property"]) if not order else "@property"
    adef = rng.choice(["def", "def", "async def"])  # awaitable properties are properties too
    src = "import functools\nclass C:\n" + prefix + f"    {deco}\n    {adef} x(self) -> int:\n        'doc'\n"
    for i, what in enumerate(order):
        sig = "self, value: int" if what == "setter" else "self"
        sig += rng.choice(["", ", /"]) if i == 0 else ""
        src += f"    @x.{what}\n    def x({sig}): ...\n"
    src += suffix
    case = {"source": src}
    try:
        with case_watchdog(30):
            ns: dict = {"__name__": "vfprop"}
            exec(compile(src, "<c02prop>", "exec"), ns)  # noqa: S102
            mod = visit_source(src, "m")
            rec.count("property_groups_compared")
            prop = vars(ns["C"])["x"]
            g = mod["C"].members["x"]
            res = None
            if not g.is_attribute or "property" not in g.labels:
                res = ("property replaced or not stored as a property attribute", f"{g.kind.value} {sorted(g.labels)}", "attribute labelled property")
            elif isinstance(prop, property):
                for what, pyfn in (("setter", prop.fset), ("deleter", prop.fdel)):
                    gfn = getattr(g, what)
                    if (gfn is None) != (pyfn is None):
                        res = (f"{what} presence differs", repr(gfn), repr(pyfn))
                        break
                    if gfn is not None:
                        res = compare_signature(rec, gfn, pyfn, ns, f"property {what}", False)
                        if res:
                            break
                        label = "writable" if what == "setter" else "deletable"
                        if label not in g.labels:
                            res = (f"label {label} missing", sorted(g.labels), label)
                            break
                if not res and str(g.annotation) != "int":
                    res = ("property annotation is not the getter's return annotation", str(g.annotation), "int")
                if not res and (g.docstring is None or g.docstring.value != "doc"):
                    res = ("property docstring lost", repr(g.docstring), "doc")
    except Exception as exc:  # noqa: BLE001
        rec.fail_exc(case, "exception in property workload", exc)
        return
    if res:
        rec.fail(case, res[0], observed=res[1], expected=res[2])
    else:
        rec.ok(case, nontrivial=True, tags=("property",))


# -- shards ----------------------------------------------------------------------------------
def run_shard(spec: dict, rec) -> None:  # noqa: ANN001
    install_contract(rec)
    rng = random.Random(spec["seed"])
    kind = spec["kind"]
    if kind in ("exhaustive", "exhaustive5"):
        idx = 0
        sizes = range(spec["maxn"] + 1) if kind == "exhaustive" else [5]
        for n in sizes:
            for kinds, dfl, ann in param_lists(n):
                idx += 1
                if idx % spec["parts"] != spec["part"]:
                    continue
                crng = random.Random(idx * 31 + spec["seed"] // 100003)
                run_signature_case(rec, crng, kinds, dfl, ann, future=bool(idx % 2))
    elif kind == "sampled":
        for _ in range(spec["count"]):
            n = rng.randint(5, 9)
            for _try in range(200):
                kinds = tuple(sorted(rng.choice([PO, PK, PK, KO, KO, VP, VK]) for _ in range(n)))
                if kinds.count(VP) <= 1 and kinds.count(VK) <= 1:
                    break
            else:
                continue
            npos = sum(1 for k in kinds if k in (PO, PK))
            first_default = rng.randint(0, npos)
            dfl, seenpos = [], 0
            for k in kinds:
                if k in (PO, PK):
                    dfl.append(1 if seenpos >= first_default else 0)
                    seenpos += 1
                elif k == KO:
                    dfl.append(rng.randint(0, 1))
                else:
                    dfl.append(0)
            ann = [rng.randint(0, 1) for _ in kinds]
            run_signature_case(rec, rng, kinds, tuple(dfl), tuple(ann), future=rng.random() < 0.5)
    elif kind == "overloads":
        for _ in range(spec["count"]):
            run_overload_case(rec, rng)
    elif kind == "properties":
        for _ in range(spec["count"]):
            run_property_case(rec, rng)
    elif kind == "mixed":
        small = [pl for n in range(4) for pl in param_lists(n)]
        for _ in range(spec["count"]):
            r = rng.random()
            if r < 0.3:
                run_property_case(rec, rng)
            elif r < 0.5:
                run_overload_case(rec, rng)
            else:
                kinds, dfl, ann = rng.choice(small)
                run_signature_case(rec, rng, kinds, dfl, ann, future=rng.random() < 0.5)
            rec.count("interleaved_workloads_in_one_interpreter")


def run_replay(inp: dict, rec) -> None:  # noqa: ANN001
    """Replay a literal source: every function CPython defines at module/class level is compared."""
    install_contract(rec)
    src = inp["source"]
    ns: dict = {"__name__": "vfreplay"}
    exec(compile(src, "<c02replay>", "exec"), ns)  # noqa: S102
    mod = visit_source(src, "m")
    problems = []

    def walk(gobj, pyobj, prefix):  # noqa: ANN001
        for name, g in gobj.members.items():
            if g.is_alias:
                continue
            py = vars(pyobj).get(name) if not isinstance(pyobj, dict) else pyobj.get(name)
            if g.is_function and callable(py):
                if getattr(py, "__name__", "") == "<lambda>":
                    continue
                r = compare_signature(rec, g, py, ns, prefix + name, False)
                if r:
                    problems.append(r)
                for i, (go, co) in enumerate(zip(g.overloads or [], typing.get_overloads(py))):
                    r = compare_signature(rec, go, co, ns, f"{prefix}{name} overload #{i}", False)
                    if r:
                        problems.append(r)
                if len(g.overloads or []) != len(typing.get_overloads(py)):
                    problems.append((f"{prefix}{name}: number of overloads differs", len(g.overloads or []), len(typing.get_overloads(py))))
            elif g.is_class and isinstance(py, type):
                walk(g, py, prefix + name + ".")
            elif g.is_attribute and isinstance(py, property):
                for what, fn in (("setter", py.fset), ("deleter", py.fdel)):
                    gf = getattr(g, what)
                    if (gf is None) != (fn is None):
                        problems.append((f"{prefix}{name}: {what} presence differs", repr(gf), repr(fn)))
                    elif gf is not None:
                        r = compare_signature(rec, gf, fn, ns, f"{prefix}{name}.{what}", False)
                        if r:
                            problems.append(r)
            elif g.is_attribute and getattr(py, "__name__", "") == "<lambda>":
                r = compare_lambda(rec, g.value, py, ns, prefix + name)
                if r:
                    problems.append(r)

    walk(mod, ns, "")
    typing.clear_overloads()
    if problems:
        rec.fail(inp, problems[0][0], observed=problems[0][1], expected=problems[0][2])
    else:
        rec.ok(inp, nontrivial=True)
