"""C02 — Function signatures equal CPython's view of the same definition.

Workload: every legal parameter list with <= 4 parameters (kinds x default x annotation,
exhaustive), sampled lists up to 9 parameters, each placed as module function, method, async
function, nested-class method, lambda attribute value and lambda parameter default; overload
groups; property getter/setter/deleter groups.
Oracle: the same source is executed by CPython in this child; ``inspect.signature``,
``typing.get_overloads`` and ``property.fget/fset/fdel`` give the expected view.  Default and
annotation expressions are compared by *value*: ``eval(str(griffe_expr))`` against the object
CPython stored.  M-CON (icontract) post-condition on every ``get_parameters`` call.

``rich`` workload (widened after seeding round 9): parameter defaults, parameter annotations, return annotations and lambda
values are drawn from the *full* expression grammar of ``vf.gen.exprs`` (C03's generator: ``D_clean`` and ``D_hostile``), from
typing-shaped annotations with quoted parts, and from 3.12 signature syntax (PEP 695 type parameters on functions and classes,
PEP 646 ``*args: *Ts`` / ``tuple[*Ts]``, displays made of unpackings, walrus, lambdas with their own defaults, PEP 701
f-strings).  Reference: the node CPython's parser produced for the definition (tree equality up to parentheses and literal
spelling, as in C03) and ``inspect.signature`` of the executed definition (names, order, kinds, has-default, required-ness) with
every free name bound to an object that accepts every operation.
"""
from __future__ import annotations

import ast
import inspect
import itertools
import random
import typing

from vf.core.rec import known_findings
from vf.core.util import case_watchdog, visit_source

PROP = "C02"
LEVEL = "exploration"
ANCHORS = ["agents/nodes/parameters.py", "agents/visitor.py"]
RULE = ("all legal parameter lists of <=4 parameters over kinds {pos-only, normal, *var, kw-only, **var} x default "
        "present/absent (Python's default-ordering rule) x annotated or not, enumerated exhaustively, each rendered in 6 "
        "contexts (function, method, async def, nested-class method, lambda value, lambda default), with and without "
        "'from __future__ import annotations'; seeded samples up to 9 parameters; overload groups (k overloads, "
        "interleaved, in classes, under TYPE_CHECKING) and property getter/setter/deleter groups in every order; 'rich' signatures "
        "(0-7 parameters, multi-line) whose defaults / annotations / return annotations / lambda values are random trees of the "
        "full expression grammar (D_clean and D_hostile of vf.gen.exprs), typing-shaped annotations with quoted parts, PEP 646 "
        "star forms, displays of unpackings, walrus, lambdas with own defaults, PEP 701 f-strings, on functions / async functions "
        "/ methods of (generic, PEP 695) classes / nested-class methods / lambda values. "
        "distinct = digest of the source; non-trivial = >=2 parameters of >=2 kinds (or an overload/property group)")
LEVEL_TEXT = ("Each generated definition is executed by CPython and statically visited by Griffe; names, order, kinds, "
              "has-default, required-ness, default values, annotations and return annotations are compared parameter by "
              "parameter, overload lists against typing.get_overloads in order, property setters/deleters against "
              "fset/fdel. Exhaustive for <=4 parameters; sampled above. A contract on get_parameters is evaluated on "
              "every call. In the rich workload every reported default / annotation / return expression must be valid Python and "
              "parse to the tree CPython parsed from the definition; names, kinds, has-default and required-ness must equal "
              "inspect.signature of the executed definition (CPython's ast.arguments when the definition cannot be executed).")
LEVEL_NOTE = ("trusted: CPython inspect.signature(eval_str=True), typing.get_overloads, property objects; default/annotation "
              "expressions of the enumerated workloads drawn from simple atoms; rich workload: CPython's parser (ast.parse) is the "
              "reference for expressions; in its hostile leg an expression whose mis-rendering is explained *entirely* by "
              "mechanisms listed with status 'known' under C03 (located and repaired by C03's own classifier) is counted and not "
              "judged here - in the clean leg nothing is excused")
TECHNIQUE = "runtime monitoring: differential oracle against CPython introspection + icontract post-condition on get_parameters"
REQUIRED_COUNTERS = ["signatures_compared", "get_parameters_contract_evals", "overload_groups_compared",
                     "property_groups_compared", "lambda_signatures_compared", "defaults_compared_by_value",
                     "annotations_compared_by_value",
                     "rich_signatures_compared", "rich_signatures_confirmed_by_inspect", "rich_defaults_parse_back_equal",
                     "rich_annotations_parse_back_equal", "rich_returns_parse_back_equal", "rich_lambda_structures_compared",
                     "rich_star_only_display_judged", "rich_pep646_star_annotation_judged", "rich_type_param_signatures_compared",
                     "rich_walrus_judged", "rich_lambda_with_own_defaults_judged", "rich_clean_domain_cases",
                     "rich_hostile_domain_cases"]
EXHAUSTIVE = {"quick": True, "thorough": True}
ASSUMPTIONS = ["exhaustive over parameter lists of <=4 parameters only; larger lists, overload and property groups are sampled/catalogued",
               "rich workload: string annotations follow C03's rule (parsed when postponed evaluation is off, outside Literal[...]); "
               "strings in positions the statement is silent about (nested quoting, lambda defaults, f-string fields, left of '[') "
               "are only judged with the future import on",
               "rich workload, hostile leg: a mis-rendered expression explained entirely by C03 findings of status 'known' is not "
               "judged by C02 (has-default / required-ness / names / kinds still are)",
               "rich workload: a definition CPython cannot execute with universal dummy operands (TypeError in a default built from "
               "constants only, unbounded integer power) is judged against CPython's ast.arguments instead of inspect.signature"]

PO, PK, VP, KO, VK = 0, 1, 2, 3, 4
KIND_NAMES = {PO: "positional-only", PK: "positional or keyword", VP: "variadic positional", KO: "keyword-only", VK: "variadic keyword"}
INSPECT_KIND = {inspect.Parameter.POSITIONAL_ONLY: PO, inspect.Parameter.POSITIONAL_OR_KEYWORD: PK,
                inspect.Parameter.VAR_POSITIONAL: VP, inspect.Parameter.KEYWORD_ONLY: KO, inspect.Parameter.VAR_KEYWORD: VK}
DEFAULTS = ["0", "'s'", "None", "(1, 2)", "D1", "-1", "[1]", "{'k': 1}", "D1.attr", "True", "1.5", "b'x'", "..."]
ANNOTS = ["int", "str", "T1", "list[int]", "T1 | None", "'T1'", "dict[str, T1]", "mod.T2", "None"]
PRELUDE = ("class T1: ...\nclass _D:\n    attr = 7\n    def __eq__(self, o): return isinstance(o, _D)\n    __hash__ = None\n"
           "D1 = _D()\nclass mod:\n    class T2: ...\n")


class ContractBroken(Exception):
    pass


def param_lists(n: int):
    for kinds in itertools.product(range(5), repeat=n):
        if list(kinds) != sorted(kinds) or kinds.count(VP) > 1 or kinds.count(VK) > 1:
            continue
        slots = [[0] if k in (VP, VK) else [0, 1] for k in kinds]
        for d in itertools.product(*slots):
            seen = False
            legal = True
            for k, x in zip(kinds, d):
                if k in (PO, PK):
                    if x:
                        seen = True
                    elif seen:
                        legal = False
                        break
            if not legal:
                continue
            for ann in itertools.product([0, 1], repeat=n):
                yield kinds, d, ann


def render_params(kinds, dfl, ann, rng, lambda_form=False, first=None) -> tuple[str, list[dict]]:  # noqa: ANN001
    parts, spec = [], []
    if first:
        parts.append(first)
    n = len(kinds)
    for i, k in enumerate(kinds):
        name = f"p{i}"
        if k == KO and VP not in kinds and (i == 0 or kinds[i - 1] != KO):
            parts.append("*")
        txt = {VP: "*" + name, VK: "**" + name}.get(k, name)
        a = d = None
        if ann[i] and not lambda_form:
            a = rng.choice(ANNOTS)
            txt += ": " + a
        if dfl[i]:
            d = rng.choice(DEFAULTS)
            txt += (" = " if a else "=") + d
        parts.append(txt)
        spec.append({"name": name, "kind": k, "default": d, "annotation": a})
        if k == PO and (i + 1 == n or kinds[i + 1] != PO):
            parts.append("/")
    if first and kinds and kinds[0] == PO:
        # `self` must be positional-only too when followed by positional-only parameters: put it before the slash
        pass
    return ", ".join(parts), spec


def shards(tier: str, seed: int) -> list[dict]:
    nsh = 12
    out = [{"kind": "exhaustive", "maxn": 4, "part": p, "parts": nsh} for p in range(nsh)]
    out += [{"kind": "sampled", "count": 60 if tier == "quick" else 6000} for _ in range(2 if tier == "quick" else 8)]
    out += [{"kind": "overloads", "count": 500 if tier == "quick" else 8000}, {"kind": "properties", "count": 400 if tier == "quick" else 8000}]
    # one interpreter, all workloads interleaved: what an earlier definition (an awaitable property, a decorated async def,
    # an overload group) leaves behind in the agent must not change how a later one is read
    out += [{"kind": "mixed", "count": 150 if tier == "quick" else 4000} for _ in range(2 if tier == "quick" else 4)]
    # defaults / annotations / returns from the full expression grammar and 3.12 signature syntax; clean and hostile legs
    for i in range(6 if tier == "quick" else 12):
        out.append({"kind": "rich", "domain": "clean" if i % 2 == 0 else "hostile", "count": 150 if tier == "quick" else 3500,
                    "depth": 3 if tier == "quick" else 4})
    if tier == "thorough":
        out += [{"kind": "exhaustive5", "part": p, "parts": 8} for p in range(8)]
    return out


# -- M-CON -----------------------------------------------------------------------------------
def install_contract(rec) -> None:  # noqa: ANN001
    import _griffe.agents.visitor as visitor
    import _griffe.expressions as expressions
    from _griffe.agents.nodes import parameters as pmod
    from _griffe.enumerations import ParameterKind as K

    if getattr(visitor.get_parameters, "_vf", False):
        return
    order = [K.positional_only, K.positional_or_keyword, K.var_positional, K.keyword_only, K.var_keyword]

    def parameters_align(node, result) -> bool:  # noqa: ANN001
        rec.count("get_parameters_contract_evals")
        nargs = len(node.posonlyargs) + len(node.args) + len(node.kwonlyargs) + bool(node.vararg) + bool(node.kwarg)
        if len(result) != nargs:
            return False
        idx = [order.index(k) for _n, _a, k, _d in result]
        if idx != sorted(idx):
            return False
        pos = [r for r in result if r[2] in (K.positional_only, K.positional_or_keyword)]
        npos, nd = len(pos), len(node.defaults)
        for i, r in enumerate(pos):
            want = node.defaults[i - (npos - nd)] if i >= npos - nd else None
            if r[3] is not want:
                return False
        if [r[0] for r in pos] != [a.arg for a in node.posonlyargs + node.args]:
            return False
        kws = [r for r in result if r[2] is K.keyword_only]
        for r, arg, d in zip(kws, node.kwonlyargs, node.kw_defaults):
            if r[0] != arg.arg or r[3] is not d or r[1] is not arg.annotation:
                return False
        for r in result:
            if r[2] is K.var_positional and (r[0] != node.vararg.arg or r[3] != "()"):
                return False
            if r[2] is K.var_keyword and (r[0] != node.kwarg.arg or r[3] != "{}"):
                return False
        return True

    try:
        import icontract

        wrapped = icontract.ensure(parameters_align, error=lambda node, result: ContractBroken(
            f"get_parameters post-condition broken for ({ast.unparse(node)}): {[(r[0], r[2].value, r[3] if isinstance(r[3], str) else (r[3] and ast.unparse(r[3]))) for r in result]}"))(pmod.get_parameters)
        rec.note("M-CON via icontract.ensure")
    except ImportError:
        orig = pmod.get_parameters

        def wrapped(node):  # noqa: ANN001
            result = orig(node)
            if not parameters_align(node, result):
                raise ContractBroken(f"get_parameters post-condition broken for ({ast.unparse(node)})")
            return result

        rec.note("M-CON via built-in fallback wrapper (icontract not importable)")
    wrapped._vf = True  # type: ignore[attr-defined]
    visitor.get_parameters = wrapped
    expressions.get_parameters = wrapped


# -- comparison ------------------------------------------------------------------------------
def same_value(a, b) -> bool:  # noqa: ANN001
    try:
        return type(a) is type(b) and bool(a == b)
    except Exception:  # noqa: BLE001
        return False


def compare_signature(rec, gfunc, pyfunc, ns, label, future, skip_first=False):  # noqa: ANN001, C901, PLR0912
    """Return a problem tuple or None. gfunc: griffe Function; pyfunc: the executed function."""
    sig = inspect.signature(pyfunc, eval_str=True, globals=ns, locals=ns)
    gparams = list(gfunc.parameters)
    cparams = list(sig.parameters.values())
    rec.count("signatures_compared")
    if [p.name for p in gparams] != [p.name for p in cparams]:
        return (f"{label}: parameter names/order differ", [p.name for p in gparams], [p.name for p in cparams])
    for gp, cp in zip(gparams, cparams):
        want_kind = KIND_NAMES[INSPECT_KIND[cp.kind]]
        if gp.kind is None or gp.kind.value != want_kind:
            return (f"{label}: kind of {cp.name} differs", gp.kind and gp.kind.value, want_kind)
        variadic = cp.kind in (cp.VAR_POSITIONAL, cp.VAR_KEYWORD)
        has_default = cp.default is not cp.empty
        if not variadic and (gp.default is not None) != has_default:
            return (f"{label}: has-default of {cp.name} differs", repr(gp.default), has_default)
        if variadic and str(gp.default) != ("()" if cp.kind is cp.VAR_POSITIONAL else "{}"):
            return (f"{label}: variadic default of {cp.name}", repr(gp.default), "()/{}")
        cp_required = not has_default and not variadic
        if gp.required != cp_required:
            return (f"{label}: required-ness of {cp.name} differs", gp.required, cp_required)
        if has_default:
            rec.count("defaults_compared_by_value")
            try:
                val = eval(str(gp.default), ns)  # noqa: S307
            except Exception as exc:  # noqa: BLE001
                return (f"{label}: default of {cp.name} does not evaluate", f"{gp.default!s}: {exc!r}", repr(cp.default))
            if not same_value(val, cp.default):
                return (f"{label}: default value of {cp.name} differs", str(gp.default), repr(cp.default))
        if (gp.annotation is not None) != (cp.annotation is not cp.empty):
            return (f"{label}: annotation presence of {cp.name} differs", repr(gp.annotation), repr(cp.annotation))
        if gp.annotation is not None:
            rec.count("annotations_compared_by_value")
            try:
                val = eval(str(gp.annotation), ns)  # noqa: S307
                if isinstance(val, str):
                    val = eval(val, ns)  # noqa: S307
            except Exception as exc:  # noqa: BLE001
                return (f"{label}: annotation of {cp.name} does not evaluate", f"{gp.annotation!s}: {exc!r}", repr(cp.annotation))
            want = eval(cp.annotation, ns) if isinstance(cp.annotation, str) else cp.annotation  # noqa: S307
            if val != want:
                return (f"{label}: annotation of {cp.name} differs", str(gp.annotation), repr(cp.annotation))
    # return annotation
    if (gfunc.returns is not None) != (sig.return_annotation is not sig.empty):
        return (f"{label}: return annotation presence differs", repr(gfunc.returns), repr(sig.return_annotation))
    if gfunc.returns is not None:
        val = eval(str(gfunc.returns), ns)  # noqa: S307
        if isinstance(val, str):
            val = eval(val, ns)  # noqa: S307
        want = eval(sig.return_annotation, ns) if isinstance(sig.return_annotation, str) else sig.return_annotation  # noqa: S307
        if val != want:
            return (f"{label}: return annotation differs", str(gfunc.returns), repr(sig.return_annotation))
    # Parameters container
    ps = gfunc.parameters
    if len(ps) != len(cparams):
        return (f"{label}: len(parameters)", len(ps), len(cparams))
    for i, cp in enumerate(cparams):
        stars = {cp.VAR_POSITIONAL: "*", cp.VAR_KEYWORD: "**"}.get(cp.kind, "")
        if ps[i] is not ps[cp.name] or ps[stars + cp.name] is not ps[i] or cp.name not in ps or (stars + cp.name) not in ps:
            return (f"{label}: Parameters container lookup inconsistent for {cp.name}", None, None)
    if "zz_absent" in ps:
        return (f"{label}: Parameters container claims an absent name", None, None)
    return None


def compare_lambda(rec, expr, pyfunc, ns, label):  # noqa: ANN001
    sig = inspect.signature(pyfunc)
    rec.count("lambda_signatures_compared")
    from _griffe.expressions import ExprLambda

    if not isinstance(expr, ExprLambda):
        return (f"{label}: lambda not stored as ExprLambda", repr(expr), "ExprLambda")
    gp = list(expr.parameters)
    cp = list(sig.parameters.values())
    if [p.name for p in gp] != [p.name for p in cp]:
        return (f"{label}: lambda parameter names differ", [p.name for p in gp], [p.name for p in cp])
    for g, c in zip(gp, cp):
        if g.kind.value != KIND_NAMES[INSPECT_KIND[c.kind]]:
            return (f"{label}: lambda kind of {c.name} differs", g.kind.value, KIND_NAMES[INSPECT_KIND[c.kind]])
        variadic = c.kind in (c.VAR_POSITIONAL, c.VAR_KEYWORD)
        if not variadic:
            if (g.default is not None) != (c.default is not c.empty):
                return (f"{label}: lambda has-default of {c.name} differs", repr(g.default), repr(c.default))
            if g.default is not None and not same_value(eval(str(g.default), ns), c.default):  # noqa: S307
                return (f"{label}: lambda default of {c.name} differs", str(g.default), repr(c.default))
    return None


def run_signature_case(rec, rng, kinds, dfl, ann, future) -> None:  # noqa: ANN001
    st = rng.getstate()
    plain, _ = render_params(kinds, dfl, ann, rng)
    rng.setstate(st)
    lam, _ = render_params(kinds, dfl, ann, rng, lambda_form=True)
    ret = rng.choice(["", "", " -> int", " -> T1", " -> 'T1'", " -> list[T1]", " -> None"])
    # methods: `self` first; if the list starts positional-only, self is positional-only too (before the slash)
    meth = ("self, " + plain) if plain else "self"
    src = ("from __future__ import annotations\n" if future else "") + PRELUDE
    src += f"def f({plain}){ret}: ...\n"
    src += f"async def af({plain}){ret}: ...\n"
    src += f"class C:\n    def m({meth}){ret}: ...\n    class N:\n        async def nm({meth}){ret}: ...\n"
    src += f"lam = lambda {lam}: 0\n" if lam else "lam = lambda: 0\n"
    src += f"def host(cb=lambda {lam}: 0): ...\n" if lam else "def host(cb=lambda: 0): ...\n"
    case = {"source": src}
    nontrivial = len(kinds) >= 2 and len(set(kinds)) >= 2
    try:
        with case_watchdog(30):
            ns: dict = {"__name__": "vfcase"}
            exec(compile(src, "<c02>", "exec"), ns)  # noqa: S102
            mod = visit_source(src, "m")
            checks = [
                (mod["f"], ns["f"], "function"), (mod["af"], ns["af"], "async function"),
                (mod["C.m"], ns["C"].m, "method"), (mod["C.N.nm"], ns["C"].N.nm, "nested-class async method"),
            ]
            res = None
            for g, c, label in checks:
                if not g.is_function:
                    res = (f"{label}: not a function", g.kind.value, "function")
                    break
                res = compare_signature(rec, g, c, ns, label, future)
                if res:
                    break
            if not res and "async" not in mod["af"].labels:
                res = ("async function lacks the 'async' label", sorted(mod["af"].labels), ["async"])
            if not res:
                res = compare_lambda(rec, mod["lam"].value, ns["lam"], ns, "lambda as attribute value")
            if not res:
                res = compare_lambda(rec, mod["host"].parameters["cb"].default, ns["host"].__defaults__[0], ns, "lambda as default")
    except Exception as exc:  # noqa: BLE001
        rec.fail_exc(case, "exception while extracting / comparing signature", exc, nontrivial=nontrivial)
        return
    if res:
        rec.fail(case, res[0], observed=res[1], expected=res[2], nontrivial=nontrivial)
    else:
        rec.ok(case, nontrivial=nontrivial, tags=(f"n={len(kinds)}",))


# -- overloads -------------------------------------------------------------------------------
def gen_overload_case(rng: random.Random) -> tuple[str, list[tuple[str, str]]]:
    """Returns (source, [(container, funcname)])."""
    names = ["f", "g"] if rng.random() < 0.5 else ["f"]
    in_class = rng.random() < 0.4
    guard = rng.random() < 0.25
    events = []
    for n in names:
        k = rng.randint(0, 3)
        events.append([(n, "ov", j) for j in range(k)] + [(n, "impl", None)])
    # interleave preserving per-function order
    seq = []
    pools = [list(e) for e in events]
    while any(pools):
        p = rng.choice([p for p in pools if p])
        seq.append(p.pop(0))
    ind = "    " if in_class else ""
    selfp = "self, " if in_class else ""
    lines = ["import typing", "from typing import overload", "TYPE_CHECKING = True",
             "def ident(f): return f", "def ident_call(*a, **k): return lambda f: f"]
    # decorators that leave the function as it is, stacked below (or above) @overload: PEP 702 / PEP 698 style stubs
    # (`@overload @deprecated(...)`, `@overload @final`, `@overload @override`) and project-local decorators
    extras = ["", "", "", "@typing.final", "@ident", "@ident_call(1, k='v')", "@ident\n@typing.final"]
    if in_class:
        lines.append("class K:")
    deco = rng.choice(["@overload", "@typing.overload"])
    # typeshed spelling for overloaded static/class methods: @overload stacked above another decorator
    stacked = {n: rng.choice(["", "", "@staticmethod", "@classmethod"]) if in_class else "" for n in names}
    body = []
    for n, what, j in seq:
        first = {"@staticmethod": "", "@classmethod": "cls, "}.get(stacked[n], selfp)
        if what == "ov":
            ann = ["int", "str", "bytes", "float"][j]
            extra = rng.choice(["", ", b=0", ", *a", ", **k"])
            below = [e for e in rng.choice(extras).split("\n") if e]
            above = ["@ident"] if rng.random() < 0.1 else []
            blk = above + [f"{deco}"] + ([stacked[n]] if stacked[n] else []) + below + [f"def {n}({first}x: {ann}{extra}) -> {ann}: ..."]
            if guard and not in_class:
                blk = ["if TYPE_CHECKING:"] + ["    " + b for b in blk]
            body.extend(blk)
        else:
            if stacked[n]:
                body.append(stacked[n])
            body.extend(e for e in rng.choice(extras).split("\n") if e)
            body.append(f"def {n}({first}x, *a, b=0, **k): ...")
    lines.extend(ind + b for b in body)
    return "\n".join(lines) + "\n", [("K" if in_class else "", n) for n in names]


def run_overload_case(rec, rng) -> None:  # noqa: ANN001
    src, targets = gen_overload_case(rng)
    case = {"source": src}
    modname = f"vfov{rng.getrandbits(40)}"
    try:
        with case_watchdog(30):
            ns: dict = {"__name__": modname}
            exec(compile(src, "<c02ov>", "exec"), ns)  # noqa: S102
            mod = visit_source(src, "m")
            res = None
            for container, name in targets:
                pyf = inspect.getattr_static(ns[container], name) if container else ns[name]
                pyf = getattr(pyf, "__func__", pyf)
                gf = mod[f"{container}.{name}" if container else name]
                rec.count("overload_groups_compared")
                pyovs = typing.get_overloads(pyf)
                govs = gf.overloads or []
                if len(govs) != len(pyovs):
                    res = (f"{name}: number of overloads differs", len(govs), len(pyovs))
                    break
                for i, (g, c) in enumerate(zip(govs, pyovs)):
                    res = compare_signature(rec, g, getattr(c, "__func__", c), ns, f"{name} overload #{i}", False)
                    if res:
                        break
                if res:
                    break
                res = compare_signature(rec, gf, pyf, ns, f"{name} implementation", False)
                if res:
                    break
                holder = mod[container] if container else mod
                if holder.overloads.get(name):
                    res = (f"{name}: overloads left dangling on the parent after the implementation", len(holder.overloads[name]), 0)
                    break
    except Exception as exc:  # noqa: BLE001
        rec.fail_exc(case, "exception in overload workload", exc)
        return
    finally:
        typing.clear_overloads()
    if res:
        rec.fail(case, res[0], observed=res[1], expected=res[2])
    else:
        rec.ok(case, nontrivial=True, tags=("overloads",))


# -- properties ------------------------------------------------------------------------------
def run_property_case(rec, rng) -> None:  # noqa: ANN001
    order = rng.choice([[], ["setter"], ["deleter"], ["setter", "deleter"], ["deleter", "setter"], ["setter", "setter"]])
    prefix = rng.choice(["", "    x = 0\n", "    def x(self, q): ...\n"])
    suffix = rng.choice(["", "    def y(self): ...\n", "    z = 1\n"])
    deco = rng.choice(["@property", "@property", "@functools.cached_property"]) if not order else "@property"
    adef = rng.choice(["def", "def", "async def"])  # awaitable properties are properties too
    src = "import functools\nclass C:\n" + prefix + f"    {deco}\n    {adef} x(self) -> int:\n        'doc'\n"
    for i, what in enumerate(order):
        sig = "self, value: int" if what == "setter" else "self"
        sig += rng.choice(["", ", /"]) if i == 0 else ""
        src += f"    @x.{what}\n    def x({sig}): ...\n"
    src += suffix
    case = {"source": src}
    try:
        with case_watchdog(30):
            ns: dict = {"__name__": "vfprop"}
            exec(compile(src, "<c02prop>", "exec"), ns)  # noqa: S102
            mod = visit_source(src, "m")
            rec.count("property_groups_compared")
            prop = vars(ns["C"])["x"]
            g = mod["C"].members["x"]
            res = None
            if not g.is_attribute or "property" not in g.labels:
                res = ("property replaced or not stored as a property attribute", f"{g.kind.value} {sorted(g.labels)}", "attribute labelled property")
            elif isinstance(prop, property):
                for what, pyfn in (("setter", prop.fset), ("deleter", prop.fdel)):
                    gfn = getattr(g, what)
                    if (gfn is None) != (pyfn is None):
                        res = (f"{what} presence differs", repr(gfn), repr(pyfn))
                        break
                    if gfn is not None:
                        res = compare_signature(rec, gfn, pyfn, ns, f"property {what}", False)
                        if res:
                            break
                        label = "writable" if what == "setter" else "deletable"
                        if label not in g.labels:
                            res = (f"label {label} missing", sorted(g.labels), label)
                            break
                if not res and str(g.annotation) != "int":
                    res = ("property annotation is not the getter's return annotation", str(g.annotation), "int")
                if not res and (g.docstring is None or g.docstring.value != "doc"):
                    res = ("property docstring lost", repr(g.docstring), "doc")
    except Exception as exc:  # noqa: BLE001
        rec.fail_exc(case, "exception in property workload", exc)
        return
    if res:
        rec.fail(case, res[0], observed=res[1], expected=res[2])
    else:
        rec.ok(case, nontrivial=True, tags=("property",))


# -- rich workload: expressions of the full grammar and 3.12 syntax in signatures ---------------------------------
class _Universal:
    """Operand that accepts every operation: lets CPython execute a definition whose defaults use arbitrary free names."""

    def __getattr__(self, name):  # noqa: ANN001, ANN204
        if name.startswith("__") and name.endswith("__"):
            raise AttributeError(name)
        return self

    def _same(self, *a, **k):  # noqa: ANN002, ANN003, ANN202
        return self

    __call__ = __getitem__ = __neg__ = __pos__ = __invert__ = _same
    __lt__ = __le__ = __gt__ = __ge__ = __eq__ = __ne__ = _same

    def __iter__(self):  # noqa: ANN204
        return iter(())

    def keys(self):  # noqa: ANN201
        return ()

    def __bool__(self) -> bool:
        return True

    def __hash__(self) -> int:
        return 1

    def __index__(self) -> int:
        return 0

    def __format__(self, spec: str) -> str:
        return "U"

    def __contains__(self, item) -> bool:  # noqa: ANN001
        return False


for _op in ("add", "sub", "mul", "matmul", "truediv", "floordiv", "mod", "pow", "lshift", "rshift", "and", "or", "xor"):
    setattr(_Universal, f"__{_op}__", _Universal._same)
    setattr(_Universal, f"__r{_op}__", _Universal._same)

TYPE_ATOMS = ["int", "str", "T", "U", "m.T", "None", "float"]


def _c3():  # noqa: ANN202
    import vf.checks.c03 as c3  # C03's reference side (canon / parse_back / string rule) and its mechanism classifier

    return c3


class RichGen:
    """Source text of signatures whose expressions come from vf.gen.exprs and from 3.12 signature syntax."""

    def __init__(self, rng: random.Random, domain: str, depth: int) -> None:
        from vf.gen.exprs import ExprGen, StringAnnGen

        self.rng = rng
        self.clean = domain == "clean"
        self.depth = depth
        # triggers of C03 findings whose status became `fixed` re-enter the clean domain (as in C03 itself)
        fixed = frozenset(fid for fid, f in known_findings().items()
                          if f.get("property") == "C03" and str(f.get("status", "")).startswith("fixed"))
        self.gen = ExprGen(rng, clean=self.clean, fixed=fixed)
        self.sgen = StringAnnGen(rng, clean=self.clean)

    # .. building blocks (trees; the text always comes from ast.unparse or is re-read by CPython) ..................
    def atom(self) -> ast.expr:
        return self.gen.sub(1, 2, False)

    def star_display(self) -> ast.expr:
        """Display made (mostly) of unpackings: ``(*a,)``, ``(*a, *b)``, ``[*a]``, ``{*a, 1}``, ``(0, *a)``."""
        r = self.rng
        n = r.choice([1, 1, 1, 2, 2, 3])
        elts: list[ast.expr] = [ast.Starred(self.atom(), ast.Load()) if r.random() < 0.7 else self.gen.leaf() for _ in range(n)]
        cls = r.choice([ast.Tuple, ast.Tuple, ast.Tuple, ast.List, ast.Set])
        return cls(elts) if cls is ast.Set else cls(elts, ast.Load())

    def lambda_with_defaults(self) -> ast.expr:
        for _ in range(8):
            lam = self.gen.g_Lambda(2, False)
            if lam.args.defaults or any(d is not None for d in lam.args.kw_defaults):  # type: ignore[attr-defined]
                return lam
        return lam

    def type_atom(self) -> ast.expr:
        from vf.gen.exprs import _dotted

        return _dotted(self.rng.choice(TYPE_ATOMS))

    def unpacked(self) -> ast.Starred:
        """``*Ts`` / ``*tuple[int, ...]`` / ``*tuple[int, *Ts]``."""
        r = self.rng
        if r.random() < 0.55:
            return ast.Starred(ast.Name(r.choice(["Ts", "Ts", "Shape", "T"]), ast.Load()), ast.Load())
        inner: list[ast.expr] = [self.type_atom() for _ in range(r.randint(1, 2))]
        inner.append(ast.Constant(...) if r.random() < 0.5 else ast.Starred(ast.Name("Ts", ast.Load()), ast.Load()))
        return ast.Starred(ast.Subscript(ast.Name("tuple", ast.Load()), ast.Tuple(inner, ast.Load()), ast.Load()), ast.Load())

    def pep646(self, vararg: bool) -> ast.expr:
        """``tuple[*Ts]``, ``tuple[int, *Ts]``, ``Callable[[*Ts], T]``, ``Array[*Shape, int]``; for ``*args`` also a bare ``*Ts``."""
        r = self.rng
        if vararg and r.random() < 0.6:
            return self.unpacked()
        n = r.choice([1, 1, 2, 3])
        elts: list[ast.expr] = [self.unpacked() if r.random() < 0.6 else self.type_atom() for _ in range(n)]
        if not any(isinstance(e, ast.Starred) for e in elts):
            elts[r.randrange(n)] = self.unpacked()
        head = r.choice(["tuple", "tuple", "Generic", "Array", "t.Callable"])
        if head == "t.Callable":
            sl: ast.expr = ast.Tuple([ast.List(elts, ast.Load()), self.type_atom()], ast.Load())
        else:
            sl = ast.Tuple(elts, ast.Load())
        from vf.gen.exprs import _dotted

        node: ast.expr = ast.Subscript(_dotted(head), sl, ast.Load())
        if r.random() < 0.2:
            node = ast.BinOp(node, ast.BitOr(), ast.Constant(None))
        return node

    PEP701 = ['f"{%s["k"]}"', 'f"{f"{%s}"}"', "f'{%s!r:>{n}}'", "f'{%s:{'>'}{10}}'", 'f"{"\\n".join(%s)}"', 'f"{%s + "x"!s}"',
              "f'''{%s['k']} {f'{f\"{x}\"}'}'''", 'f"{%s=}"']

    def pep701(self) -> str:
        """f-strings only 3.12 accepts (reused quotes, backslashes and nesting in replacement fields)."""
        return self.rng.choice(self.PEP701) % ast.unparse(self.gen.name())

    def text(self, node: ast.expr) -> str | None:
        try:
            txt = ast.unparse(node)
        except Exception:  # noqa: BLE001
            return None
        if self.rng.random() < 0.25 and not isinstance(node, ast.Starred):
            txt = "(" + txt + ")"  # redundant parentheses are not part of the expression
        return txt

    # .. draws ....................................................................................................
    def default(self) -> str | None:
        r = self.rng
        k = r.random()
        if k < 0.12:
            return self.text(self.star_display())
        if k < 0.17:
            return self.text(self.lambda_with_defaults())
        if k < 0.21:
            return self.text(self.gen.g_NamedExpr(r.randint(1, 2), False))
        if k < 0.25 and not self.clean:
            return self.pep701()
        return self.text(self.gen.expr(r.randint(1, self.depth), 0, False))

    def annotation(self, vararg: bool = False) -> str | None:
        r = self.rng
        k = r.random()
        if k < 0.25 or (vararg and k < 0.5):
            return self.text(self.pep646(vararg))
        if k < 0.55:
            return self.text(self.sgen.typ(r.randint(1, 3)))
        if k < 0.62:
            return self.text(self.star_display())
        return self.text(self.gen.expr(r.randint(1, self.depth), 0, False))

    def type_params(self) -> str:
        r = self.rng
        if r.random() < 0.6:
            return ""
        items = []
        if r.random() < 0.7:
            items.append(r.choice(["T", "T: int", "T: (int, str)", "T: m.T | None", "T: 'U'"]))
        if r.random() < 0.3:
            items.append("U")
        if r.random() < 0.5:
            items.append(r.choice(["*Ts", "*Shape"]))
        if r.random() < 0.3:
            items.append("**P")
        return "[" + ", ".join(items) + "]" if items else ""

    # .. one definition ...........................................................................................
    def kinds(self, lo: int, hi: int):  # noqa: ANN201
        r = self.rng
        n = r.randint(lo, hi)
        for _try in range(200):
            kinds = tuple(sorted(r.choice([PO, PK, PK, KO, KO, VP, VK]) for _ in range(n)))
            if kinds.count(VP) <= 1 and kinds.count(VK) <= 1:
                break
        else:
            kinds = (PK,) * n
        npos = sum(1 for k in kinds if k in (PO, PK))
        first_default = r.randint(0, npos)
        dfl, seenpos = [], 0
        for k in kinds:
            if k in (PO, PK):
                dfl.append(1 if seenpos >= first_default else 0)
                seenpos += 1
            else:
                dfl.append(r.randint(0, 1) if k == KO else 0)
        return kinds, dfl, [int(r.random() < 0.6) for _ in kinds]

    def valid(self, template: str, expr: str, future: bool) -> bool:
        """Does CPython accept ``expr`` at this place (yield / await / walrus are refused in several of them)?"""
        try:
            compile(("from __future__ import annotations\n" if future else "") + template % expr, "<c02rich>", "exec",
                    dont_inherit=True)
        except (SyntaxError, ValueError, RecursionError, MemoryError, OverflowError):
            return False
        return True

    def drawn(self, draw, template: str, future: bool) -> str:  # noqa: ANN001
        import warnings

        with warnings.catch_warnings():
            warnings.simplefilter("ignore")
            for _ in range(30):
                txt = draw()
                if txt is not None and self.valid(template, txt, future):
                    return txt
        return "None"

    def params(self, future: bool, in_class: bool, tp: str, lambda_form: bool = False, first: str | None = None) -> tuple[str, int, int]:
        kinds, dfl, ann = self.kinds(0, 7) if not lambda_form else self.kinds(0, 5)
        wrap_a, wrap_b = ("class _K:\n    ", "") if in_class else ("", "")
        parts = [first] if first else []
        n = len(kinds)
        for i, k in enumerate(kinds):
            name = f"p{i}"
            if k == KO and VP not in kinds and (i == 0 or kinds[i - 1] != KO):
                parts.append("*")
            txt = {VP: "*" + name, VK: "**" + name}.get(k, name)
            a = None
            if ann[i] and not lambda_form:
                star = "*" if k == VP else "**" if k == VK else ""
                a = self.drawn(lambda k=k: self.annotation(vararg=k == VP), f"{wrap_a}def _v{tp}({star}_p: %s): ...{wrap_b}", future)
                txt += ": " + a
            if dfl[i]:
                tmpl = "_v = lambda _p=%s: 0" if lambda_form else f"{wrap_a}def _v{tp}(_p=%s): ...{wrap_b}"
                d = self.drawn(self.default, tmpl, future)
                txt += (" = " if a else "=") + d
            parts.append(txt)
            if k == PO and (i + 1 == n or kinds[i + 1] != PO):
                parts.append("/")
        sep = ", " if self.rng.random() < 0.7 or lambda_form else ",\n        "
        return sep.join(parts), len(kinds), len(set(kinds))

    def returns(self, future: bool, in_class: bool, tp: str) -> str:
        if self.rng.random() < 0.35:
            return ""
        wrap_a = "class _K:\n    " if in_class else ""
        return " -> " + self.drawn(self.annotation, f"{wrap_a}def _v{tp}() -> %s: ...", future)

    def module(self) -> tuple[str, bool]:
        """(source, non-trivial).  Four definitions and two lambdas, each with its own parameter list."""
        r = self.rng
        future = r.random() < 0.6
        from vf.gen.exprs import PRELUDE as TYPING_PRELUDE  # the imports under which every Literal spelling resolves

        lines = ["from __future__ import annotations"] if future else []
        lines.append(TYPING_PRELUDE.rstrip("\n"))
        stats = []
        tp = self.type_params()
        p, n, nk = self.params(future, False, tp)
        stats.append((n, nk))
        lines.append(f"{r.choice(['def', 'def', 'async def'])} f{tp}({p}){self.returns(future, False, tp)}: ...")
        ctp = self.type_params()
        lines.append(f"class C{ctp}:")
        tp = self.type_params()
        p, n, nk = self.params(future, True, tp, first="self")
        stats.append((n, nk))
        lines.append(f"    {r.choice(['def', 'def', 'async def'])} m{tp}({p}){self.returns(future, True, tp)}: ...")
        lines.append("    class N:")
        deco, first = r.choice([("", "self"), ("", "self"), ("@staticmethod", None), ("@classmethod", "cls")])
        if deco:
            lines.append("        " + deco)
        p, n, nk = self.params(future, True, "", first=first)
        stats.append((n, nk))
        lines.append(f"        def nm({p}){self.returns(future, True, '')}: ...")
        p, n, nk = self.params(future, False, "", lambda_form=True)
        body = self.drawn(lambda: self.text(self.gen.expr(r.randint(0, 2), 0, False)), "_v = lambda: %s", future)
        lines.append(f"lam = lambda {p}: {body}" if p else f"lam = lambda: {body}")
        p, n, nk = self.params(future, False, "", lambda_form=True)
        lines.append(f"def host(cb=lambda {p}: 0, /, *a: {self.drawn(lambda: self.annotation(vararg=True), 'def _v(*_p: %s): ...', future)}): ...")
        return "\n".join(lines) + "\n", any(n >= 2 and nk >= 2 for n, nk in stats)


def ref_params(args: ast.arguments) -> list[tuple]:
    """CPython's ast.arguments read by the language reference: (name, kind, default node | None, annotation node | None)."""
    out = []
    pos = [(a, PO) for a in args.posonlyargs] + [(a, PK) for a in args.args]
    pad = len(pos) - len(args.defaults)
    for i, (a, k) in enumerate(pos):
        out.append((a.arg, k, args.defaults[i - pad] if i >= pad else None, a.annotation))
    if args.vararg:
        out.append((args.vararg.arg, VP, None, args.vararg.annotation))
    for a, d in zip(args.kwonlyargs, args.kw_defaults):
        out.append((a.arg, KO, d, a.annotation))
    if args.kwarg:
        out.append((args.kwarg.arg, VK, None, args.kwarg.annotation))
    return out


def rich_features(rec, tree: ast.AST) -> None:  # noqa: ANN001
    """Count the input classes an expected tree belongs to (evidence that they are exercised)."""
    seen = set()
    for n in ast.walk(tree):
        if isinstance(n, (ast.Tuple, ast.List, ast.Set)) and n.elts and all(isinstance(e, ast.Starred) for e in n.elts) \
                and not isinstance(getattr(n, "ctx", None), ast.Store):
            seen.add("rich_star_only_display_judged")
            if isinstance(n, ast.Tuple) and len(n.elts) == 1:
                seen.add("rich_one_element_star_tuple_judged")
        elif isinstance(n, ast.Subscript) and isinstance(n.slice, ast.Tuple) and any(isinstance(e, ast.Starred) for e in n.slice.elts):
            seen.add("rich_pep646_star_annotation_judged")
        elif isinstance(n, ast.NamedExpr):
            seen.add("rich_walrus_judged")
        elif isinstance(n, ast.Lambda) and (n.args.defaults or any(d is not None for d in n.args.kw_defaults)):
            seen.add("rich_lambda_with_own_defaults_judged")
        elif isinstance(n, ast.FormattedValue) and any(isinstance(x, ast.JoinedStr) for x in ast.walk(n.value)):
            seen.add("rich_nested_fstring_judged")
    if isinstance(tree, ast.Starred):
        seen.add("rich_pep646_star_annotation_judged")
    for s in seen:
        rec.count(s)


def c03_known_explains(expected: ast.expr, text: str, rec) -> list[str] | None:  # noqa: ANN001
    """Ids of C03 findings (status ``known``) that explain *all* of the difference between ``text`` and ``expected``.

    C03's classifier locates the minimal failing subtree, repairs the mechanism's structural trigger on a copy and only matches
    when the repaired subtree renders correctly, so a second defect in the same expression stays unexplained (-> None).
    """
    c3 = _c3()
    c3.host_module()
    try:
        alone = c3.standalone(expected, rec, as_root=True)[1]
        if alone is None or alone != text:
            return None  # what is stored in the signature is not what the builder makes of this tree alone
        ids, rest = c3.explain(expected, rec)
    except Exception:  # noqa: BLE001
        return None
    if rest is not None or not ids:
        return None
    kf = known_findings()
    if all(kf.get(i, {}).get("property") == "C03" and kf.get(i, {}).get("status") == "known" for i in ids):
        return ids
    return None


def await_in_lambda_default_explains(expected: ast.expr, text: str, rec, domain: str) -> bool:  # noqa: ANN001
    """The same mechanism one level down: a lambda *inside* the expression has a parameter default holding an ``await``; that
    default is not built, so the lambda is rendered without it.  Matches only when (a) the reported text is what the builder makes
    of this very tree, (a') it has fewer ``await`` keywords than the definition, and (b) with those defaults replaced by a plain name the expression renders correctly (in the hostile leg:
    up to mechanisms listed under C03) - any other defect in the expression stays unexplained."""
    from _griffe.expressions import get_expression

    c3 = _c3()
    # nodes substituted for string annotations carry no positions, and Griffe's log line for the default it cannot build
    # reads `node.lineno`: without positions the builder call below would raise inside this classifier, not in Griffe's visitor
    expected = ast.fix_missing_locations(c3.clone(expected))
    trial = c3.clone(expected)
    hit = False
    for n in ast.walk(trial):
        if isinstance(n, ast.Lambda):
            for lst in (n.args.defaults, n.args.kw_defaults):
                for i, d in enumerate(lst):
                    if d is not None and c3.contains(d, ast.Await):
                        lst[i] = ast.Name("__vf_no_await", ast.Load())
                        hit = True
    if not hit:
        return False
    import re

    in_strings = sum(len(re.findall(r"\bawait\b", n.value)) for n in ast.walk(expected)
                     if isinstance(n, ast.Constant) and isinstance(n.value, str))
    n_await = sum(isinstance(n, ast.Await) for n in ast.walk(expected))
    if len(re.findall(r"\bawait\b", text)) - in_strings >= n_await:
        return False  # every await of the definition is in the reported text: nothing was dropped
    try:
        if str(get_expression(expected, parent=c3.host_module(), parse_strings=False)) != text:
            return False
        problem, text2 = c3.standalone(trial, rec, as_root=True)
    except Exception:  # noqa: BLE001
        return False
    if problem is None and text2 is not None:
        return True
    return bool(domain == "hostile" and text2 is not None and c03_known_explains(trial, text2, rec))


class _DropAwait(ast.NodeTransformer):
    def visit_Await(self, node: ast.Await):  # noqa: ANN201, N802
        return self.visit(node.value)


def await_rendering_explained(expected: ast.expr, text: str, rec) -> list[str] | None:  # noqa: ANN001
    """Expressions with ``await`` that *are* reported (never on the pinned tree; after C02-await-expression-not-built is repaired).
    C03's classifier does not handle the node, so: either text and CPython's own rendering have the same tokens up to parentheses
    (DESIGN's predicate of C03-grouping), or the expression without its ``await`` keywords is explained by C03 and the reported
    text without them is what the builder renders for that tree."""
    import io
    import tokenize

    def toks(t: str) -> list[str] | None:
        try:
            return [k.string for k in tokenize.generate_tokens(io.StringIO(t).readline)
                    if k.string not in ("(", ")") and k.type not in (tokenize.NEWLINE, tokenize.NL, tokenize.ENDMARKER)]
        except (tokenize.TokenError, SyntaxError, IndentationError):
            return None

    kf = known_findings().get("C03-grouping", {})
    mine = toks(text)
    if mine is not None and mine == toks(ast.unparse(expected)) and kf.get("status") == "known":
        return ["C03-grouping"]
    if "await " in "".join(repr(n.value) for n in ast.walk(expected) if isinstance(n, ast.Constant) and isinstance(n.value, (str, bytes))):
        return None
    bare = ast.fix_missing_locations(_DropAwait().visit(_c3().clone(expected)))
    return c03_known_explains(bare, text.replace("await ", ""), rec)


def judge_rich_expr(rec, stored, node: ast.expr, parse_strings: bool, domain: str, where: str, counter: str):  # noqa: ANN001, ANN201
    """None when the reported expression is valid Python and parses to CPython's tree; else (what, observed, expected, finding)."""
    c3 = _c3()
    if parse_strings:
        info = c3.StringInfo(node)
        if info.corner or info.nested:
            rec.count("rich_annotation_not_judged_unspecified_string_position")
            return None
    if stored is not None and c3.contains(node, ast.Await):
        rec.count("rich_await_expression_reported")  # (not built on the pinned tree; parse-back is judged below if it ever is)
    expected, _n = c3.expected_tree(node, parse_strings)
    rich_features(rec, expected)
    want = c3._unparse(expected)
    if stored is None:
        return (f"{where}: nothing reported for an expression of the definition", None, want, await_not_built(stored, expected))
    text = str(stored)
    try:
        back = c3.parse_back(text, isinstance(expected, ast.Starred))
    except (SyntaxError, ValueError, RecursionError, MemoryError) as exc:
        problem = (f"{where}: reported expression is not valid Python ({type(exc).__name__}: {exc})"[:300], text, want, None)
    else:
        if c3.canon(back) == c3.canon(expected):
            rec.count(counter)
            return None
        problem = (f"{where}: reported expression parses to a different tree than the one CPython parsed from the definition", text, want, None)
    if await_in_lambda_default_explains(expected, text, rec, domain):
        return problem[:3] + (AWAIT_FINDING,)
    if domain == "hostile":
        ids = c03_known_explains(expected, text, rec) if not c3.contains(expected, ast.Await) else await_rendering_explained(expected, text, rec)
        if ids:
            rec.count("rich_rendering_defect_listed_under_C03_not_judged")
            for i in set(ids):
                rec.count(f"rich_excused:{i}")
            return None
    return problem


AWAIT_FINDING = "C02-await-expression-not-built"


def await_not_built(stored, expected: ast.AST | None) -> str | None:  # noqa: ANN001
    """Mechanism classifier: *nothing* is reported (None) for an expression whose tree, as CPython reads it, holds an ``await``."""
    if stored is None and expected is not None and any(isinstance(n, ast.Await) for n in ast.walk(expected)):
        return AWAIT_FINDING
    return None


def compare_rich_params(rec, out: list, gparams, ref, sig, future, domain, label, lambda_form=False) -> None:  # noqa: ANN001, C901, PLR0912
    """Parameters reported by Griffe against CPython's (``ref`` from ast.arguments, ``sig`` from inspect).  Problems
    (what, observed, expected, finding id | None) are appended to ``out``."""
    if sig is not None:
        cparams = list(sig.parameters.values())
        via = [(p.name, INSPECT_KIND[p.kind], p.default is not p.empty) for p in cparams]
        if via != [(n, k, d is not None) for n, k, d, _a in ref]:
            raise AssertionError(f"harness: ast.arguments and inspect.signature disagree for {label}: {via}")
    if [p.name for p in gparams] != [r[0] for r in ref]:
        out.append((f"{label}: parameter names/order differ", [p.name for p in gparams], [r[0] for r in ref], None))
        return
    for gp, (name, kind, dnode, anode) in zip(gparams, ref):
        if gp.kind is None or gp.kind.value != KIND_NAMES[kind]:
            out.append((f"{label}: kind of {name} differs", gp.kind and gp.kind.value, KIND_NAMES[kind], None))
        variadic = kind in (VP, VK)
        if variadic:
            if str(gp.default) != ("()" if kind == VP else "{}"):
                out.append((f"{label}: variadic default of {name}", repr(gp.default), "()/{}", None))
        elif (gp.default is not None) != (dnode is not None):
            out.append((f"{label}: has-default of {name} differs (CPython would {'accept' if dnode is not None else 'refuse'} a call "
                        "that omits it)", repr(gp.default), None if dnode is None else ast.unparse(dnode), await_not_built(gp.default, dnode)))
        elif not lambda_form and gp.required != (dnode is None and not variadic):
            out.append((f"{label}: required-ness of {name} differs", gp.required, dnode is None and not variadic, None))
        if dnode is not None and gp.default is not None:
            res = judge_rich_expr(rec, gp.default, dnode, False, domain, f"{label}: default of {name}", "rich_defaults_parse_back_equal")
            if res:
                out.append(res)
        if lambda_form:
            continue
        if anode is None:
            if gp.annotation is not None:
                out.append((f"{label}: annotation reported for {name}, the definition has none", str(gp.annotation), None, None))
            continue
        res = judge_rich_expr(rec, gp.annotation, anode, not future, domain, f"{label}: annotation of {name}",
                              "rich_annotations_parse_back_equal")
        if res:
            out.append(res)


class _Skeleton(ast.NodeTransformer):
    """Same parameter lists; defaults replaced by None (lambdas by their skeleton), annotations / bases / decorators dropped."""

    def visit_arguments(self, node: ast.arguments):  # noqa: ANN201, N802
        def dflt(d):  # noqa: ANN001, ANN202
            if d is None:
                return None
            if isinstance(d, ast.Lambda):
                return ast.Lambda(self.visit_arguments(d.args), ast.Constant(None))
            return ast.Constant(None)

        node.defaults = [dflt(d) for d in node.defaults]
        node.kw_defaults = [dflt(d) for d in node.kw_defaults]
        for a in node.posonlyargs + node.args + node.kwonlyargs + [x for x in (node.vararg, node.kwarg) if x]:
            a.annotation = None
        return node

    def visit_FunctionDef(self, node):  # noqa: ANN001, ANN201, N802
        node.args = self.visit_arguments(node.args)
        node.returns = None
        node.body = [ast.Expr(ast.Constant(...))]
        node.decorator_list = [d for d in node.decorator_list if isinstance(d, ast.Name) and d.id in ("staticmethod", "classmethod")]
        return node

    visit_AsyncFunctionDef = visit_FunctionDef  # noqa: N815

    def visit_ClassDef(self, node: ast.ClassDef):  # noqa: ANN201, N802
        node.bases, node.keywords, node.decorator_list = [], [], []
        node.body = [self.visit(b) for b in node.body]
        return node

    def visit_Lambda(self, node: ast.Lambda):  # noqa: ANN201, N802
        return ast.Lambda(self.visit_arguments(node.args), ast.Constant(None))


def risky_to_execute(tree: ast.AST) -> bool:
    """Integer power / shift / repetition CPython would compute without bound when the definition is executed."""
    for n in ast.walk(tree):
        if isinstance(n, ast.BinOp) and isinstance(n.op, (ast.Pow, ast.LShift, ast.Mult)):
            right_free = not any(isinstance(x, (ast.Name, ast.Lambda)) for x in ast.walk(n.right))
            left_free = not any(isinstance(x, (ast.Name, ast.Lambda)) for x in ast.walk(n.left))
            small = isinstance(n.right, ast.Constant) and type(n.right.value) is int and n.right.value < 1000 and \
                isinstance(n.left, ast.Constant)
            if right_free and left_free and not small:
                return True
    return False


def judge_rich_source(rec, src: str, domain: str):  # noqa: ANN001, ANN201, C901, PLR0912, PLR0915
    """Every def / async def / lambda value at module and class level of ``src``.  Returns the list of problems."""
    import warnings

    with warnings.catch_warnings():
        warnings.simplefilter("ignore")
        tree = ast.parse(src)
        code = compile(src, "<c02rich>", "exec", dont_inherit=True)
    future = any(isinstance(s, ast.ImportFrom) and s.module == "__future__" and any(a.name == "annotations" for a in s.names)
                 for s in tree.body)
    # CPython's executed view.  (1) the definitions themselves, statement by statement, every free name (and every import) bound
    # to an operand that accepts everything; (2) where a statement cannot be executed that way (TypeError in a default made of
    # constants, unbounded integer arithmetic): its skeleton - same parameter lists, every default replaced by None (lambdas by
    # their skeleton), annotations dropped - so that inspect.signature still confirms names / order / kinds / has-default.
    import builtins

    def fresh_ns() -> dict:
        ns = {"__name__": "vfrich", "__builtins__": {**vars(builtins), "__import__": lambda *a, **k: _Universal()}}
        for n in ast.walk(tree):
            if isinstance(n, ast.Name):
                ns.setdefault(n.id, _Universal())
        ns["staticmethod"], ns["classmethod"] = staticmethod, classmethod
        return ns

    flags = __import__("__future__").annotations.compiler_flag if future else 0
    ns, skel = fresh_ns(), fresh_ns()
    executed: set[str] = set()
    for st in tree.body:
        if isinstance(st, (ast.FunctionDef, ast.AsyncFunctionDef, ast.ClassDef)):
            name = st.name
        elif isinstance(st, ast.Assign) and len(st.targets) == 1 and isinstance(st.targets[0], ast.Name):
            name = st.targets[0].id
        else:
            name = None
        with warnings.catch_warnings():
            warnings.simplefilter("ignore")
            if risky_to_execute(st):
                rec.count("rich_statement_not_executed:unbounded_integer_arithmetic")
            else:
                try:
                    exec(compile(ast.Module([st], []), "<c02rich>", "exec", flags=flags, dont_inherit=True), ns)  # noqa: S102
                    if name:
                        executed.add(name)
                except Exception as exc:  # noqa: BLE001
                    rec.count(f"rich_statement_not_executable:{type(exc).__name__}")
            if name and name not in executed:
                twin = ast.fix_missing_locations(_Skeleton().visit(_c3().clone(st)))
                exec(compile(ast.Module([twin], []), "<c02rich-skeleton>", "exec", dont_inherit=True), skel)  # noqa: S102
                ns[name] = skel[name]
                rec.count("rich_statement_confirmed_on_skeleton")
    mod = visit_source(src, "m")

    def lookup(pyobj, name):  # noqa: ANN001, ANN202
        if pyobj is None:
            return None
        py = pyobj.get(name) if isinstance(pyobj, dict) else vars(pyobj).get(name)
        return getattr(py, "__func__", py)

    out: list = []

    def walk(body, gobj, pyobj, prefix, real=None):  # noqa: ANN001, ANN202
        top = real is None
        for st in body:
            if top:
                real = getattr(st, "name", None) in executed or \
                    (isinstance(st, ast.Assign) and isinstance(st.targets[0], ast.Name) and st.targets[0].id in executed)
            if isinstance(st, (ast.FunctionDef, ast.AsyncFunctionDef)):
                label = prefix + st.name
                g = gobj.members.get(st.name)
                if g is None or not g.is_function:
                    out.append((f"{label}: not reported as a function", g and g.kind.value, "function", None))
                    continue
                py = lookup(pyobj, st.name)
                sig = inspect.signature(py) if py is not None else None
                rec.count("rich_signatures_compared")
                rec.count("rich_signatures_confirmed_by_inspect" if real else "rich_signatures_confirmed_by_inspect_on_skeleton")
                if getattr(st, "type_params", None):
                    rec.count("rich_type_param_signatures_compared")
                ref = ref_params(st.args)
                compare_rich_params(rec, out, list(g.parameters), ref, sig, future, domain, label)
                if isinstance(st, ast.AsyncFunctionDef) != ("async" in g.labels):
                    out.append((f"{label}: 'async' label", sorted(g.labels), isinstance(st, ast.AsyncFunctionDef), None))
                if st.returns is None:
                    if g.returns is not None:
                        out.append((f"{label}: return annotation reported, the definition has none", str(g.returns), None, None))
                else:
                    res = judge_rich_expr(rec, g.returns, st.returns, not future, domain, f"{label}: return annotation",
                                          "rich_returns_parse_back_equal")
                    if res:
                        out.append(res)
                # lambdas used as defaults: structure of ExprLambda.parameters against CPython's lambda
                if [p.name for p in g.parameters] != [r[0] for r in ref]:
                    continue
                for gp, (name, _k, dnode, _a) in zip(g.parameters, ref):
                    if isinstance(dnode, ast.Lambda) and gp.default is not None:
                        lam_py = None
                        if sig is not None and callable(sig.parameters[name].default):
                            lam_py = sig.parameters[name].default
                        compare_rich_lambda(rec, out, gp.default, dnode, lam_py, future, domain, f"{label}: lambda default of {name}")
            elif isinstance(st, ast.ClassDef):
                g = gobj.members.get(st.name)
                if g is None or not g.is_class:
                    out.append((f"{prefix}{st.name}: not reported as a class", g and g.kind.value, "class", None))
                    continue
                walk(st.body, g, lookup(pyobj, st.name), prefix + st.name + ".", real)
            elif isinstance(st, ast.Assign) and len(st.targets) == 1 and isinstance(st.targets[0], ast.Name) and isinstance(st.value, ast.Lambda):
                name = st.targets[0].id
                g = gobj.members.get(name)
                if g is None or not g.is_attribute:
                    out.append((f"{prefix}{name}: lambda value not reported as an attribute", g and g.kind.value, "attribute", None))
                    continue
                res = judge_rich_expr(rec, g.value, st.value, False, domain, f"{prefix}{name}: lambda value", "rich_lambda_values_parse_back_equal")
                if res:
                    out.append(res)
                elif g.value is not None:
                    compare_rich_lambda(rec, out, g.value, st.value, lookup(pyobj, name), future, domain, f"{prefix}{name}: lambda value")

    walk(tree.body, mod, ns, "")
    return out


def compare_rich_lambda(rec, out: list, stored, node: ast.Lambda, lam_py, future, domain, label) -> None:  # noqa: ANN001
    from _griffe.expressions import ExprLambda

    if isinstance(stored, str):
        # A default the expression builder cannot turn into an Expr is kept as its source text (the text itself was judged
        # by judge_rich_expr just before): there is no structure to compare, and the statement does not demand one.
        rec.count("rich_lambda_kept_as_source_text_not_structured")
        return
    if not isinstance(stored, ExprLambda):
        out.append((f"{label}: lambda not stored as ExprLambda", repr(stored)[:200], "ExprLambda", None))
        return
    sig = None
    if lam_py is not None and getattr(lam_py, "__name__", "") == "<lambda>":
        sig = inspect.signature(lam_py)
    rec.count("rich_lambda_structures_compared")
    if sig is not None:
        rec.count("rich_lambda_structures_confirmed_by_inspect")  # (of the lambda itself or of its skeleton)
    compare_rich_params(rec, out, list(stored.parameters), ref_params(node.args), sig, future, domain, label, lambda_form=True)


def report_rich(rec, case: dict, problems: list, nontrivial: bool, tags=()) -> None:  # noqa: ANN001
    """One refutation per mechanism (unlisted ones first), so that a listed finding never hides another problem of the case."""
    if not problems:
        rec.ok(case, nontrivial=nontrivial, tags=tags)
        return
    seen = set()
    for what, observed, expected, finding in sorted(problems, key=lambda p: p[3] is not None):
        if finding in seen:
            continue
        seen.add(finding)
        rec.fail(case, what, observed=observed, expected=expected, finding=finding, nontrivial=nontrivial, tags=tags,
                 tried=[AWAIT_FINDING])


def run_rich_case(rec, gen: RichGen, domain: str) -> None:  # noqa: ANN001
    src, nontrivial = gen.module()
    case = {"source": src, "rich": True, "domain": domain}
    rec.count(f"rich_{domain}_domain_cases")
    try:
        with case_watchdog(60):
            problems = judge_rich_source(rec, src, domain)
    except Exception as exc:  # noqa: BLE001
        rec.fail_exc(case, "exception while extracting / comparing a rich signature", exc, nontrivial=nontrivial)
        return
    report_rich(rec, case, problems, nontrivial, tags=(f"rich:{domain}",))


# -- shards ----------------------------------------------------------------------------------
def run_shard(spec: dict, rec) -> None:  # noqa: ANN001
    install_contract(rec)
    rng = random.Random(spec["seed"])
    kind = spec["kind"]
    if kind in ("exhaustive", "exhaustive5"):
        idx = 0
        sizes = range(spec["maxn"] + 1) if kind == "exhaustive" else [5]
        for n in sizes:
            for kinds, dfl, ann in param_lists(n):
                idx += 1
                if idx % spec["parts"] != spec["part"]:
                    continue
                crng = random.Random(idx * 31 + spec["seed"] // 100003)
                run_signature_case(rec, crng, kinds, dfl, ann, future=bool(idx % 2))
    elif kind == "sampled":
        for _ in range(spec["count"]):
            n = rng.randint(5, 9)
            for _try in range(200):
                kinds = tuple(sorted(rng.choice([PO, PK, PK, KO, KO, VP, VK]) for _ in range(n)))
                if kinds.count(VP) <= 1 and kinds.count(VK) <= 1:
                    break
            else:
                continue
            npos = sum(1 for k in kinds if k in (PO, PK))
            first_default = rng.randint(0, npos)
            dfl, seenpos = [], 0
            for k in kinds:
                if k in (PO, PK):
                    dfl.append(1 if seenpos >= first_default else 0)
                    seenpos += 1
                elif k == KO:
                    dfl.append(rng.randint(0, 1))
                else:
                    dfl.append(0)
            ann = [rng.randint(0, 1) for _ in kinds]
            run_signature_case(rec, rng, kinds, tuple(dfl), tuple(ann), future=rng.random() < 0.5)
    elif kind == "overloads":
        for _ in range(spec["count"]):
            run_overload_case(rec, rng)
    elif kind == "properties":
        for _ in range(spec["count"]):
            run_property_case(rec, rng)
    elif kind == "rich":
        gen = RichGen(rng, spec["domain"], spec["depth"])
        for _ in range(spec["count"]):
            run_rich_case(rec, gen, spec["domain"])
    elif kind == "mixed":
        small = [pl for n in range(4) for pl in param_lists(n)]
        for _ in range(spec["count"]):
            r = rng.random()
            if r < 0.3:
                run_property_case(rec, rng)
            elif r < 0.5:
                run_overload_case(rec, rng)
            else:
                kinds, dfl, ann = rng.choice(small)
                run_signature_case(rec, rng, kinds, dfl, ann, future=rng.random() < 0.5)
            rec.count("interleaved_workloads_in_one_interpreter")


def run_replay(inp: dict, rec) -> None:  # noqa: ANN001
    """Replay a literal source: every function CPython defines at module/class level is compared."""
    install_contract(rec)
    src = inp["source"]
    if inp.get("rich"):
        report_rich(rec, inp, judge_rich_source(rec, src, inp.get("domain", "hostile")), True)
        return
    ns: dict = {"__name__": "vfreplay"}
    exec(compile(src, "<c02replay>", "exec"), ns)  # noqa: S102
    mod = visit_source(src, "m")
    problems = []

    def walk(gobj, pyobj, prefix):  # noqa: ANN001
        for name, g in gobj.members.items():
            if g.is_alias:
                continue
            py = vars(pyobj).get(name) if not isinstance(pyobj, dict) else pyobj.get(name)
            if g.is_function and callable(py):
                if getattr(py, "__name__", "") == "<lambda>":
                    continue
                r = compare_signature(rec, g, py, ns, prefix + name, False)
                if r:
                    problems.append(r)
                for i, (go, co) in enumerate(zip(g.overloads or [], typing.get_overloads(py))):
                    r = compare_signature(rec, go, co, ns, f"{prefix}{name} overload #{i}", False)
                    if r:
                        problems.append(r)
                if len(g.overloads or []) != len(typing.get_overloads(py)):
                    problems.append((f"{prefix}{name}: number of overloads differs", len(g.overloads or []), len(typing.get_overloads(py))))
            elif g.is_class and isinstance(py, type):
                walk(g, py, prefix + name + ".")
            elif g.is_attribute and isinstance(py, property):
                for what, fn in (("setter", py.fset), ("deleter", py.fdel)):
                    gf = getattr(g, what)
                    if (gf is None) != (fn is None):
                        problems.append((f"{prefix}{name}: {what} presence differs", repr(gf), repr(fn)))
                    elif gf is not None:
                        r = compare_signature(rec, gf, fn, ns, f"{prefix}{name}.{what}", False)
                        if r:
                            problems.append(r)
            elif g.is_attribute and getattr(py, "__name__", "") == "<lambda>":
                r = compare_lambda(rec, g.value, py, ns, prefix + name)
                if r:
                    problems.append(r)

    walk(mod, ns, "")
    typing.clear_overloads()
    if problems:
        rec.fail(inp, problems[0][0], observed=problems[0][1], expected=problems[0][2])
    else:
        rec.ok(inp, nontrivial=True)


def run_pinned(findings: list[dict], rec) -> dict:  # noqa: ANN001
    from vf.core.rec import Recorder, pinned_result

    out = {}
    for f in findings:
        sub = Recorder(PROP, {})
        try:
            run_replay(dict(f["witness"]), sub)
        except Exception as exc:  # noqa: BLE001
            out[f["id"]] = {"reproduced": False, "detail": f"replay raised {exc!r}"}
            continue
        out[f["id"]] = pinned_result(sub, f)
    return out
