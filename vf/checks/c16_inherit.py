"""C16 add-on: lookup consistency in the presence of *inherited* members (built after a seeded change that routed
multi-part ``get_member`` keys through ``__getitem__``).  Model-free oracle taken from the statement: for every
(receiver, path) the dotted, tuple and chained forms of one API must agree (same object for declared members, same target
for inherited views, same exception class otherwise), declared-only lookups must never see inherited members, and a
deleted member must be gone through every form."""
from __future__ import annotations

import random

NAMES = ["f", "g", "own", "x"]


def build():  # noqa: ANN201
    import griffe

    coll = griffe.ModulesCollection()
    m = griffe.Module("m")
    coll.set_member("m", m)
    base = griffe.Class("Base")
    mid = griffe.Class("Mid", bases=["m.Base"])
    child = griffe.Class("Child", bases=["m.Mid"])
    for c in (base, mid, child):
        m.set_member(c.name, c)
    base.set_member("f", griffe.Function("f"))
    base.set_member("g", griffe.Function("g"))
    mid.set_member("g", griffe.Function("g"))
    child.set_member("own", griffe.Function("own"))
    return griffe, coll, m


def outcome(fn):  # noqa: ANN001, ANN201
    try:
        v = fn()
    except Exception as exc:  # noqa: BLE001
        return ("raise", type(exc).__name__, None)
    if v.is_alias and getattr(v, "inherited", False):
        return ("inherited", v.target_path, None)
    return ("found", v.path, id(v))


def check_lookups(rec, coll, m, deleted: set[tuple[str, str]]) -> str | None:  # noqa: ANN001
    for cname in ("Base", "Mid", "Child"):
        for name in NAMES:
            cls = m.members[cname]
            declared = name in cls.members
            # producer API: declared members only
            forms = {
                "m.get_member(dotted)": outcome(lambda: m.get_member(f"{cname}.{name}")),
                "m.get_member(tuple)": outcome(lambda: m.get_member((cname, name))),
                "coll.get_member(dotted)": outcome(lambda: coll.get_member(f"m.{cname}.{name}")),
                "coll.get_member(tuple)": outcome(lambda: coll.get_member(("m", cname, name))),
                "chained get_member": outcome(lambda: m.get_member(cname).get_member(name)),
            }
            rec.count("inherit_lookup_forms_compared", len(forms))
            want = ("found", f"m.{cname}.{name}", id(cls.members[name])) if declared else ("raise", "KeyError", None)
            for form, got in forms.items():
                if got != want:
                    return f"{form} of m.{cname}.{name}: {got}, expected {want} (declared={declared})"
            if (cname, name) in deleted and not declared:
                rec.count("inherit_deleted_paths_checked_gone")
            # consumer API: declared + inherited; all forms must agree with the chained form
            cforms = {
                "m[dotted]": outcome(lambda: m[f"{cname}.{name}"]),
                "m[tuple]": outcome(lambda: m[(cname, name)]),
                "coll[dotted]": outcome(lambda: coll[f"m.{cname}.{name}"]),
                "chained []": outcome(lambda: m[cname][name]),
            }
            rec.count("inherit_lookup_forms_compared", len(cforms))
            ref = cforms["chained []"]
            for form, got in cforms.items():
                if got != ref:
                    return f"{form} of m.{cname}.{name}: {got}, but chained lookup gives {ref}"
            if declared and ref[0] != "found":
                return f"m[{cname}][{name}] does not return the declared member: {ref}"
    return None


def run(rec, seed: int, count: int) -> None:  # noqa: ANN001
    rng = random.Random(seed)
    for _ in range(count):
        griffe, coll, m = build()
        ops = []
        deleted: set[tuple[str, str]] = set()
        problem = check_lookups(rec, coll, m, deleted)
        for _step in range(rng.randint(1, 8)):
            if problem:
                break
            cname = rng.choice(["Base", "Mid", "Child"])
            name = rng.choice(NAMES)
            cls = m.members[cname]
            form = rng.choice(["dotted", "tuple", "coll-dotted", "chained"])
            if name in cls.members and rng.random() < 0.5:
                ops.append(["del", form, cname, name])
                if form == "dotted":
                    m.del_member(f"{cname}.{name}")
                elif form == "tuple":
                    m.del_member((cname, name))
                elif form == "coll-dotted":
                    coll.del_member(f"m.{cname}.{name}")
                else:
                    cls.del_member(name)
                deleted.add((cname, name))
            else:
                ops.append(["set", form, cname, name])
                value = griffe.Function(name)
                if form == "dotted":
                    m.set_member(f"{cname}.{name}", value)
                elif form == "tuple":
                    m.set_member((cname, name), value)
                elif form == "coll-dotted":
                    coll.set_member(f"m.{cname}.{name}", value)
                else:
                    cls.set_member(name, value)
                deleted.discard((cname, name))
            problem = check_lookups(rec, coll, m, deleted)
        case = {"ops": ops, "kind": "inheritance-lookups"}
        if problem:
            rec.fail(case, "lookup forms disagree in a hierarchy with inherited members: " + problem, nontrivial=True)
        else:
            rec.ok(case, nontrivial=bool(deleted), tags=("inheritance-lookups",))


def replay(rec, inp: dict) -> None:  # noqa: ANN001
    griffe, coll, m = build()
    deleted: set[tuple[str, str]] = set()
    problem = check_lookups(rec, coll, m, deleted)
    for what, form, cname, name in inp["ops"]:
        if problem:
            break
        cls = m.members[cname]
        if what == "del":
            {"dotted": lambda: m.del_member(f"{cname}.{name}"), "tuple": lambda: m.del_member((cname, name)),
             "coll-dotted": lambda: coll.del_member(f"m.{cname}.{name}"), "chained": lambda: cls.del_member(name)}[form]()
            deleted.add((cname, name))
        else:
            value = griffe.Function(name)
            {"dotted": lambda: m.set_member(f"{cname}.{name}", value), "tuple": lambda: m.set_member((cname, name), value),
             "coll-dotted": lambda: coll.set_member(f"m.{cname}.{name}", value), "chained": lambda: cls.set_member(name, value)}[form]()
            deleted.discard((cname, name))
        problem = check_lookups(rec, coll, m, deleted)
    if problem:
        rec.fail(inp, "lookup forms disagree in a hierarchy with inherited members: " + problem, nontrivial=True)
    else:
        rec.ok(inp, nontrivial=True)
