"""C13 — Well-formed docstrings parse back to the structure that was written.

Workload: random section lists (any order and number) over every section kind a style supports
according to docs/reference/docstrings.md, items with and without types, multi-line and
blank-line-containing descriptions, titles, identifiers in every documented alias and
letter-case; three independent renderers (Google, Numpy, Sphinx) emit the *well-formed* syntax
of the documentation; a parent object (function, ``__init__`` method, class, module, property or
none) is generated together with the structure and supplies the annotations / defaults that the
docstring omits; every documented parser option is drawn at random and the rendering adapts
to it (single-block Returns, unnamed values, ...).  The function parents spell the wrappers an
untyped Yields / Receives / Returns item is looked up through (Iterator, Generator, tuple) in every
way Python offers to name an object of another module (WRAPPER_SPELLINGS: from-import, 'as' names,
attribute chains, module aliases, parent-package imports; typing, collections.abc, a re-exporting
module three packages deep; plain, quoted and postponed annotations), and CPython itself
(exec + typing.get_type_hints / get_origin / get_args) confirms which part of the signature each
such item documents.  35% of the texts are not parsed on a fresh Docstring object but assigned
(``docstring.value = text``, what extensions do) to an object with a history: constructed with,
or visited / loaded from a source carrying, another generated docstring of any style; .lines /
.parsed / parse(...) / as_dict(full=True) / .source read in random combinations; .parser,
.parser_options, .parent and the line numbers reassigned in random order; the sections obtained
through parse(style, **options), parse() or the (so far unread) .parsed property and judged by
the same oracle as for a fresh object.  Half of the texts are WRITTEN DOWN with whitespace
variants that leave the written structure untouched (gen_writing): margins of 0..16 columns in
spaces, tabs or both; blank lines carrying nothing, the margin, fewer or more columns, tabs or a
form feed, wherever a blank line occurs; the text opening on the line after the quotes; trailing
whitespace-only lines; and 40% of those with a parent are placed as the real docstring literal in
the parent's source (LF or CRLF) and read back through the visitor or the loader, CPython's
ast.get_docstring + inspect.cleandoc being the ground truth for Docstring.value.  Every written text is, in addition, handed to
Griffe through EVERY documented entry point (gen_entries): the style functions, parse_auto, griffe.parse, Docstring.parse,
Docstring(parser=, parser_options=).parsed / .parse(), parser or options given to the constructor and the rest to parse(),
attributes assigned afterwards; and, as the parent's real docstring, through visit / temporary_visited_module / GriffeLoader /
griffe.load / temporary_visited_package / forced inspection / temporary_inspected_module / the `griffe dump -d -D` command
line with docstring_parser= / docstring_options=; the style named directly or as 'auto' with default=<style>, with
style_order=[<style>, ...] or with a default that overrides the order, with and without method=, names spelled as Parser
members or literals -- always with the case's (mostly non-default) style options, which the renderer obeyed when writing.

Oracle: an executable model of the documentation (``expect``) written independently of the
parsers, compared field by field with the parsed sections (kinds, order, titles, names,
annotations, defaults, descriptions, example blocks); every line of every description / title /
text block carries a unique token and a conservation check over the JSON form of the parsed
sections (``griffe.JSONEncoder``) verifies that each token occurs exactly where it was written
(no loss, duplication or leakage across section boundaries).  The sections obtained through each entry point must be
the ones the case's own parse gave (which the model judges); when they are not, the model says which field was lost.
"""
from __future__ import annotations

import json
import random
import re

from vf.core.util import case_watchdog

PROP = "C13"
LEVEL = "exploration"
ANCHORS = ["docstrings/google.py", "docstrings/numpy.py", "docstrings/sphinx.py", "docstrings/models.py", "docstrings/parsers.py"]
RULE = ("random section lists of 2..8 sections over the kinds each style supports per the docs tables (Google/Numpy: text, "
        "parameters, other parameters, raises, warns, returns, yields, receives, examples, attributes, functions/methods, classes, "
        "modules, admonitions; Sphinx: text, parameters, attributes, returns, raises with fields interleaved in any order), 1..4 "
        "items per section with/without types, descriptions of 1..4 lines with blank lines and relative indentation, optional "
        "titles, every documented identifier alias in 5 letter-cases, indentation unit 2, 3, 4 or 8, 1..2 blank lines between sections, "
        "body optionally indented as in source; parents (function / __init__ / class / module / property / none) generated with the "
        "structure, function parents spelling Iterator / Generator / tuple through 13 import forms x {plain, quoted, postponed} "
        "(import paths of 1..3 dots) with the signature fallback confirmed by CPython's get_type_hints; 35% of the texts assigned to a "
        "Docstring object with a random history (constructed / visited / loaded with another docstring, reads of lines / parsed / parse / "
        "as_dict / source, reassigned parser, options, parent, line numbers, three ways to obtain the sections) instead of a fresh one; "
        "50% of the texts written down with whitespace variants that do not change what is written (margin 0..16 in spaces/tabs/both, "
        "blank lines carrying 0..n columns of spaces, tabs or a form feed in every position, text opening on the next line, trailing "
        "whitespace-only lines; 40% of them as the parent's real docstring literal in a LF or CRLF source read by the visitor or the "
        "loader): a blank line is blank whatever whitespace it carries; every text additionally parsed through all 8 in-memory entry points "
        "(style function / parse_auto, griffe.parse, Docstring.parse, constructor parser+options read through .parsed or parse(), parser or "
        "options split between constructor and parse(), attributes assigned) and 30% of those with a parent through one of 8 source-level "
        "ones (visit, temporary_visited_module, GriffeLoader.load, griffe.load, temporary_visited_package, forced inspection, "
        "temporary_inspected_module, `griffe dump -d -D -f`), the style named or (60%) selected as 'auto' by default= / style_order= / "
        "default over style_order, method absent / heuristics / max_sections, names as Parser members or literals, auto options before or "
        "after the style options; all parser options drawn at random (2^8 Google, 2^3 Numpy, 2 Sphinx); 8% of the structures carry exactly one "
        "documented-but-suspicious construct (type field after its param, '):' inside a description, untyped attribute after a "
        "typed one, documented Numpy alias, lone Numpy name) so that the listed findings stay observable. distinct = digest of (style, options, "
        "structure); non-trivial = >=3 sections and one item with a multi-paragraph description")
LEVEL_TEXT = ("Each generated structure is rendered in the well-formed syntax of one style, parsed by the real parser with the "
              "generated parent, and compared with an independent model of the documentation: section kinds and order, titles, "
              "item names, annotations (docstring type, else the parent's), defaults (from the parent), descriptions (exact for "
              "Google, modulo trailing newlines for Numpy, modulo whitespace runs for Sphinx), example blocks; plus a per-line "
              "unique-token conservation check over the JSONEncoder form of the result. Which part of the parent's return annotation "
              "an untyped Yields / Receives / Returns item documents is decided by CPython (the parent is executed and its "
              "get_type_hints are taken apart with get_origin / get_args), independently of how the module imports the names. "
              "The verdict is the same whether the text was given to a new Docstring or assigned to one that was read, parsed, "
              "visited or loaded before; Docstring.lines must equal str.split of the text the object holds. Whitespace carried by blank "
              "lines, margins, tabs, line endings of the source do not change the expected structure; for docstrings read from source "
              "Docstring.value must equal inspect.cleandoc of the literal CPython's ast reads from the same file. The same text, style and "
              "options given through any other documented entry point (generic parse, auto style with default / style_order, Docstring "
              "attributes, loader / visitor / inspector / command-line docstring options) must yield exactly the sections judged above: the "
              "options belong to the parser that finally reads the text.")
LEVEL_NOTE = ("trusted: the three renderers and the model of docs/reference/docstrings.md in this file; corners the documentation "
              "leaves open are excluded (trailing newline of Numpy descriptions, leading newline of Google descriptions that start "
              "on a new line, Returns fallback from Generator annotations, annotations of properties); sampled, not exhaustive")
TECHNIQUE = "runtime monitoring: round-trip oracle (independent renderers + documentation model) with unique-token conservation"
REQUIRED_COUNTERS = ["structures_parsed", "sections_compared", "items_compared", "annotations_from_docstring_compared",
                     "annotations_from_parent_compared", "defaults_from_parent_compared", "descriptions_compared",
                     "multi_paragraph_descriptions_compared", "titles_compared", "tokens_conserved", "example_blocks_compared",
                     "admonitions_compared", "order_checked_google", "order_checked_numpy", "sphinx_structures_compared",
                     "json_roundtrips", "returns_like_annotations_from_parent_compared", "annotations_through_wrapper_compared",
                     "annotations_through_deep_import_path_wrapper_compared", "cpython_signature_parts_confirmed",
                     "reused_object_cases_judged", "reused_after_text_was_read_or_parsed", "reused_after_lines_read", "reused_after_parse",
                     "reused_visited_or_loaded_object_cases", "reused_loaded_object_cases", "reused_with_parser_attributes_reassigned",
                     "reused_with_parent_reassigned", "reused_judged_through_parsed_property", "lines_compared_with_value",
                     "whitespace_written_cases_judged", "cases_with_whitespace_only_lines_after_cleandoc",
                     "cases_with_whitespace_only_line_above_an_unindented_line", "cases_with_whitespace_only_line_inside_an_indented_block",
                     "docstrings_read_from_source_judged", "docstrings_loaded_from_disk_judged", "crlf_source_cases_judged",
                     "source_docstring_values_compared_with_cpython_cleandoc", "tab_cases_judged", "form_feed_cases_judged",
                     "text_opening_on_the_next_line_cases_judged", "trailing_whitespace_line_cases_judged",
                     "entry_point_results_compared", "auto_style_entry_point_results_compared",
                     "cases_whose_options_change_the_parsed_sections", "auto_style_entry_results_compared_where_the_options_decide",
                     "named_style_entry_results_compared_where_the_options_decide", "auto_style_entry_results_compared_with_a_method",
                     "loader_level_option_entry_results_compared", "loader_level_auto_style_entry_results_compared",
                     "inspected_docstring_entry_results_compared", "command_line_dump_entry_results_compared"]
EXHAUSTIVE = {"quick": False, "thorough": False}
ASSUMPTIONS = ["'well-formed' means the syntax shown in docs/reference/docstrings.md (plus the Sphinx field-list syntax the docs link to)",
               "a blank line is blank whatever whitespace it carries (spaces, tabs, form feed; fewer or more columns than the margin): the "
               "written structure does not depend on it, nor on the margin the docstring sits at in its source, on tabs versus spaces in "
               "that margin (inspect.cleandoc expands tabs), on the text opening on the line after the quotes, on trailing whitespace-only "
               "lines, or on the line endings of the source file (CPython reads \\r\\n as a newline)",
               "excluded whitespace variants: a carriage return inside a Docstring value (CPython never produces one from a line ending; "
               "the parsers document split at '\\n'); a form feed in a Google docstring parsed with *_multiple_items=False (that block goes "
               "through str.splitlines, for which a form feed is a line boundary); whitespace at the end of non-blank lines (it is content)",
               "with the auto style this (non-Insiders) build selects default= when given, else the first member of style_order (docs, "
               "Auto-style); 'any other option is passed down to the detected parser'; 'max_sections' is only combined with a style_order "
               "(it is documented as never using the default)",
               "excluded from the inspecting entry points: parents whose attribute annotations the model takes from the source (runtime "
               "objects do not expose variable annotations to the inspector: a matter of dynamic analysis, not of docstring parsing)",
               "types are drawn from a pool of expressions whose str() is canonical; descriptions avoid section syntax of their own"]
SHARD_TIMEOUT = {"quick": 900, "thorough": 7200}

STRUCTURES = {"quick": 18000, "thorough": 100_000}    # per style
NSHARDS = 15
WRITING_SHARE = 0.5    # share of the structures written down with whitespace variants (see gen_writing)
REUSE_SHARE = 0.35     # share of the structures whose text is assigned to a Docstring object with a history (see gen_history)
STYLES = ("google", "numpy", "sphinx")

GOOGLE_BOOLS = ["ignore_init_summary", "trim_doctest_flags", "returns_multiple_items", "returns_named_value",
                "returns_type_in_property_summary", "receives_multiple_items", "receives_named_value", "warn_unknown_params"]
NUMPY_BOOLS = ["ignore_init_summary", "trim_doctest_flags", "warn_unknown_params"]
SPHINX_BOOLS = ["warn_unknown_params"]
DEFAULTS_TRUE = {"trim_doctest_flags", "returns_multiple_items", "returns_named_value", "receives_multiple_items",
                 "receives_named_value", "warn_unknown_params"}

# ------------------------------------------------------------------------------------------
# vocabulary
WORDS = ["alpha", "beta", "gamma", "delta", "value", "the", "of", "items", "(optional)", "`code`", "returns", "when", "x > 0,",
         "e.g.", "foo-bar", "100%", "\u00e9t\u00e9", "list", "and", "or", "not", "a", "is", "used"]
TYPES = ["int", "str", "bool", "float", "list[int]", "dict[str, int]", "Optional[str]", "int | None", "a.b.C", "Integer",
         "tuple[int, str]", "Callable[[int], str]"]
SIMPLE_TYPES = ["int", "str", "bool", "float", "bytes", "Integer", "a.b.C", "list[int]"]
NOSPACE_TYPES = [t for t in TYPES if " " not in t]
DEFAULTS = ["0", "1", "None", "'s'", "True", "1.5", "()"]
PARAM_NAMES = ["a", "b", "c", "d", "e", "x", "y", "z", "flag", "value", "mode", "data", "n_items", "_private", "cls2", "key", "camelCase"]
ATTR_NAMES = ["foo", "bar", "baz", "count", "name_", "_hidden", "items2", "total", "MAX_VALUE"]
RETURN_NAMES = ["result", "success", "precision", "status", "left", "right", "t"]
EXC_NAMES = ["ValueError", "KeyError", "TypeError", "RuntimeError", "a.b.CustomError", "OSError"]
WARN_NAMES = ["UserWarning", "DeprecationWarning", "a.b.CustomWarning", "RuntimeWarning"]
FUNC_NAMES = ["run", "stop", "compute", "load_all", "_helper"]
CLASS_NAMES = ["Runner", "Config", "Node", "_Base"]
MODULE_NAMES = ["utils", "core", "cli", "_internal"]
SIGS = ["()", "(a)", "(a, b=1)", "(*args, **kwargs)", "(self, x)"]

# How the parent module spells the wrappers the parsers have to see through when a Yields / Receives / Returns item omits
# its type (Iterator[Y], Generator[Y, S, R], tuple[...]): (id, import lines, Iterator, Generator, Tuple, module the names live in).
# Every documented way of naming an object of another module: from-import, from-import with 'as', module import + attribute
# chain, module import with 'as', parent-package import; from the deprecated typing aliases, from their real home
# collections.abc, and through a re-exporting compatibility module several packages deep (CPython sees the same objects:
# see cpython_signature_parts; the static analysis only sees the import path).
WRAPPER_SPELLINGS = [
    ("typing-from", "from typing import Generator, Iterator, Tuple", "Iterator", "Generator", "Tuple", "typing"),
    ("typing-from-as", "from typing import Generator as Gen, Iterator as It, Tuple as Tup", "It", "Gen", "Tup", "typing"),
    ("typing-attr", "import typing", "typing.Iterator", "typing.Generator", "typing.Tuple", "typing"),
    ("typing-as", "import typing as t", "t.Iterator", "t.Generator", "t.Tuple", "typing"),
    ("abc-from", "from collections.abc import Generator, Iterator", "Iterator", "Generator", None, "collections.abc"),
    ("abc-from-as", "from collections.abc import Generator as Gen, Iterator as It", "It", "Gen", None, "collections.abc"),
    ("abc-attr", "import collections.abc", "collections.abc.Iterator", "collections.abc.Generator", None, "collections.abc"),
    ("abc-as", "import collections.abc as cabc", "cabc.Iterator", "cabc.Generator", None, "collections.abc"),
    ("abc-parent-package", "from collections import abc", "abc.Iterator", "abc.Generator", None, "collections.abc"),
    ("compat-from", "from vfcompat.deep.types import Generator, Iterator, Tuple", "Iterator", "Generator", "Tuple", "vfcompat.deep.types"),
    ("compat-attr", "import vfcompat.deep.types", "vfcompat.deep.types.Iterator", "vfcompat.deep.types.Generator",
     "vfcompat.deep.types.Tuple", "vfcompat.deep.types"),
    ("compat-as", "import vfcompat.deep.types as vt", "vt.Iterator", "vt.Generator", "vt.Tuple", "vfcompat.deep.types"),
    ("compat-parent-package", "from vfcompat.deep import types as vtypes", "vtypes.Iterator", "vtypes.Generator", "vtypes.Tuple",
     "vfcompat.deep.types"),
]
LEGACY_HEADER = "from typing import Callable, Generator, Iterator, Optional\n"


def pick_spelling(rng: random.Random) -> dict:
    sid, imports, it, gen, tup, module = rng.choice(WRAPPER_SPELLINGS)
    # the builtin tuple needs no import; typing.Tuple (any spelling of it) is the other documented way to write it
    use_tuple_alias = tup is not None and rng.random() < 0.5
    quoted = rng.random() < 0.1                       # the whole return annotation written as a string (forward reference)
    future = (not quoted) and rng.random() < 0.1      # postponed evaluation (PEP 563)
    return {"id": sid, "imports": imports, "iterator": it, "generator": gen, "tuple": tup if use_tuple_alias else "tuple",
            "module": module, "tuple_module": module if use_tuple_alias else "builtins", "quoted": quoted, "future": future}


GOOGLE_IDENTS = {
    "parameters": ["Parameters", "Args", "Arguments", "Params"],
    "other parameters": ["Other Parameters", "Keyword Args", "Keyword Arguments", "Other Args", "Other Arguments", "Other Params"],
    "raises": ["Raises", "Exceptions"], "warns": ["Warns", "Warnings"], "returns": ["Returns"], "yields": ["Yields"],
    "receives": ["Receives"], "examples": ["Examples"], "attributes": ["Attributes"], "functions": ["Functions", "Methods"],
    "classes": ["Classes"], "modules": ["Modules"],
}
NUMPY_IDENTS = {
    "parameters": ["Parameters"], "other parameters": ["Other Parameters"], "raises": ["Raises"], "warns": ["Warns"],
    "returns": ["Returns"], "yields": ["Yields"], "receives": ["Receives"], "examples": ["Examples"], "attributes": ["Attributes"],
    "functions": ["Functions", "Methods"], "classes": ["Classes"], "modules": ["Modules"],
}
# aliases the Numpydoc part of docs/reference/docstrings.md lists ("Aliases: ...") for these sections
NUMPY_DOCUMENTED_ALIASES = {
    "parameters": ["Args", "Arguments", "Params"],
    "other parameters": ["Keyword Args", "Keyword Arguments", "Other Args", "Other Arguments", "Other Params"],
    "raises": ["Exceptions"],
}
GOOGLE_ADMONITIONS = ["Note", "Notes", "Warning", "See Also", "Tip", "Example", "Todo", "Important", "Danger zone"]
NUMPY_ADMONITIONS = ["Note", "Notes", "Warning", "Warnings", "See Also", "Tip", "Example", "References", "Todo"]
ITEM_KINDS = ["parameters", "other parameters", "raises", "warns", "returns", "yields", "receives", "attributes", "functions",
              "classes", "modules"]
RETURNS_LIKE = ("returns", "yields", "receives")
NAMED_KINDS = {"parameters", "other parameters", "attributes", "functions", "classes", "modules", "returns", "yields", "receives"}
TOKEN_RE = re.compile(r"tk\d+q")


class Tokens:
    def __init__(self) -> None:
        self.n = 0

    def __call__(self) -> str:
        self.n += 1
        return f"tk{self.n}q"


def case_variant(rng: random.Random, ident: str) -> str:
    r = rng.randrange(8)
    if r <= 3:
        return ident
    if r == 4:
        return ident.lower()
    if r == 5:
        return ident.upper()
    if r == 6:
        return ident.capitalize()
    return "".join(c.upper() if rng.random() < 0.5 else c.lower() for c in ident)


def phrase(rng: random.Random, tok: Tokens, colon: bool = False) -> str:
    words = [rng.choice(WORDS) for _ in range(rng.choice([1, 2, 3, 5]))]
    if colon and rng.random() < 0.15:
        words.insert(rng.randrange(len(words) + 1), rng.choice(["note:", "key: value", "see: this"]))
    return " ".join([tok(), *words]) + rng.choice(["", ".", ".", "!"])


def gen_desc(rng: random.Random, tok: Tokens, *, colon_first: bool = True, allow_empty: bool = True, rel_indent: bool = True) -> dict:
    """A description: list of lines (blank lines inside allowed), relative indentation of continuation lines."""
    if allow_empty and rng.random() < 0.06:
        return {"lines": [], "rel": []}
    n = rng.choice([1, 1, 1, 2, 2, 3, 4])
    lines: list[str] = []
    rel: list[int] = []
    for i in range(n):
        if 0 < i < n - 1 and rng.random() < 0.35:
            lines.append("")
            rel.append(0)
            continue
        if i == n - 1 and n >= 3 and lines[-1] != "" and rng.random() < 0.3:  # noqa: PLR2004
            lines.append("")
            rel.append(0)
        lines.append(phrase(rng, tok, colon=(colon_first or i > 0)))
        rel.append(rng.choice([0, 0, 0, 0, 2, 4]) if (i > 0 and rel_indent) else 0)
    return {"lines": lines, "rel": rel}


def desc_text(desc: dict) -> str:
    return "\n".join(" " * r + ln if ln else "" for ln, r in zip(desc["lines"], desc["rel"]))


def multi_paragraph(desc: dict) -> bool:
    return "" in desc["lines"]


# ------------------------------------------------------------------------------------------
# structure generation (Google / Numpy)
def gen_item(rng: random.Random, tok: Tokens, kind: str, used: dict, style: str, sec: dict) -> dict:  # noqa: C901, PLR0912
    item: dict = {"name": None, "type": None}
    typed = rng.random() < 0.5
    if kind in ("parameters", "other parameters"):
        free = [n for n in PARAM_NAMES if n not in used["params"]]
        name = rng.choice(free) if free else f"p{len(used['params'])}"
        used["params"].add(name)
        if rng.random() < 0.08 and "*args" not in used["params"]:
            name = rng.choice(["*args", "**kwargs"])
            if name in used["params"]:
                name = "*args"
            used["params"].add(name)
        item["name"] = name
        item["type"] = rng.choice(TYPES) if typed else None
    elif kind == "attributes":
        free = [n for n in ATTR_NAMES if n not in used["attrs"]]
        name = rng.choice(free) if free else f"attr{len(used['attrs'])}"
        used["attrs"].add(name)
        item["name"] = name
        item["type"] = rng.choice(TYPES) if typed else None
    elif kind == "raises":
        item["type"] = rng.choice(EXC_NAMES)
    elif kind == "warns":
        item["type"] = rng.choice(WARN_NAMES)
    elif kind in ("functions", "classes"):
        item["name"] = rng.choice(FUNC_NAMES if kind == "functions" else CLASS_NAMES)
        item["sig"] = rng.choice(SIGS) if rng.random() < 0.4 else None
    elif kind == "modules":
        item["name"] = rng.choice(MODULE_NAMES)
    elif kind in RETURNS_LIKE:
        named_ok = sec.get("named", True)
        if named_ok and rng.random() < 0.6:
            item["name"] = rng.choice(RETURN_NAMES)
        item["type"] = rng.choice(TYPES) if typed else None
        item["parens"] = rng.random() < 0.3          # Google, unnamed values: parentheses around the type are optional
        item["lone_type"] = rng.random() < 0.4       # Numpy: 'type' alone on the first line (numpydoc) instead of ': type'
    colon_first = kind not in RETURNS_LIKE        # 'word: ...' at the start of a Returns item would read as name / type
    item["desc"] = gen_desc(rng, tok, colon_first=colon_first, allow_empty=not (kind in RETURNS_LIKE and item["name"] is None and item["type"] is None))
    has_head = kind not in RETURNS_LIKE or item["name"] is not None or item["type"] is not None
    if style == "google" and has_head and item["desc"]["lines"] and rng.random() < 0.08 and not (kind in RETURNS_LIKE and not sec.get("multiple", True)):
        item["newline_start"] = True               # "It's possible to start a description with a newline"
    return item


def gen_examples(rng: random.Random, tok: Tokens) -> list:
    blocks = []
    kind = rng.choice(["text", "examples"])
    for _ in range(rng.choice([1, 2, 3, 4])):
        if kind == "text":
            blocks.append(["text", [phrase(rng, tok) for _ in range(rng.choice([1, 2]))]])
            kind = "examples"
        else:
            lines = []
            for _ in range(rng.choice([1, 2, 3])):
                flag = rng.choice(["", "", "  # doctest: +SKIP", " # doctest: +ELLIPSIS"])
                lines.append(f">>> {tok()}(1){flag}")
                if rng.random() < 0.6:
                    lines.append(f"{tok()} out")
                if rng.random() < 0.12:
                    lines.append("<BLANKLINE>")
                    lines.append(f"{tok()} more")
            blocks.append(["examples", lines])
            kind = rng.choice(["text", "examples"])
    return blocks


def gen_text(rng: random.Random, tok: Tokens, summary: bool = False) -> list[str]:
    lines = [phrase(rng, tok, colon=not summary)]
    if summary and rng.random() < 0.6:
        return lines
    for _ in range(rng.choice([0, 1, 2, 3])):
        if lines[-1] != "" and rng.random() < 0.4:
            lines.append("")
        lines.append(phrase(rng, tok, colon=True))
    return lines


def random_options(rng: random.Random, style: str) -> dict:
    names = {"google": GOOGLE_BOOLS, "numpy": NUMPY_BOOLS, "sphinx": SPHINX_BOOLS}[style]
    if rng.random() < 0.08:
        return {}
    return {n: rng.random() < 0.5 for n in names}


def opt(options: dict, name: str) -> bool:
    return options.get(name, name in DEFAULTS_TRUE)


def gen_struct(rng: random.Random, style: str, hostile: str | None = None) -> dict:  # noqa: C901, PLR0912, PLR0915
    if style == "sphinx":
        return gen_struct_sphinx(rng, hostile)
    tok = Tokens()
    options = random_options(rng, style)
    mode = rng.choice(["plain"] * 8 + ["init", "property"]) if style == "google" else rng.choice(["plain"] * 9 + ["init"])
    used = {"params": set(), "attrs": set()}
    kinds_pool = ITEM_KINDS + ["examples", "admonition", "admonition"] + (["text", "text"] if style == "google" else [])
    nsec = rng.choice([2, 2, 2, 3, 3, 4, 4, 5, 6, 8])
    sections: list[dict] = []
    # a docstring made of a single section that starts on the first line has no line left at the base indentation:
    # inspect.cleandoc (also CPython's own) then removes the indentation of its contents -> always give it a summary
    lead_text = mode != "plain" or nsec == 1 or rng.random() < 0.85
    if lead_text:
        sections.append({"kind": "text", "lines": gen_text(rng, tok, summary=mode != "plain")})
        if mode == "init" and len(sections[0]["lines"]) > 1 and sections[0]["lines"][1] != "":
            sections[0]["lines"].insert(1, "")        # a one-line summary followed by a blank line
        if mode == "property":
            sections[0]["summary_type"] = rng.choice(SIMPLE_TYPES)
    while len(sections) < nsec:
        kind = rng.choice(kinds_pool)
        if kind == "text" and (not sections or sections[-1]["kind"] == "text"):
            continue
        sec: dict = {"kind": kind, "blank_above": rng.choice([1, 1, 1, 2]), "indent": rng.choice([4, 4, 4, 4, 2, 2, 3, 8])}
        if kind == "text":
            sec["lines"] = gen_text(rng, tok)
            if rng.random() < 0.2:
                sec["blank_above"] = 0            # only sections need a blank line above; prose may follow a section directly
        elif kind == "admonition":
            sec["ident"] = case_variant(rng, rng.choice(GOOGLE_ADMONITIONS if style == "google" else NUMPY_ADMONITIONS))
            sec["title"] = phrase(rng, tok) + rng.choice(["", "", ":"]) if (style == "google" and rng.random() < 0.4) else None
            body = gen_desc(rng, tok, allow_empty=False)
            sec["body"] = body
        elif kind == "examples":
            sec["ident"] = case_variant(rng, "Examples")
            sec["title"] = phrase(rng, tok) if (style == "google" and rng.random() < 0.25) else None
            sec["blocks"] = gen_examples(rng, tok)
        else:
            idents = GOOGLE_IDENTS if style == "google" else NUMPY_IDENTS
            sec["ident"] = case_variant(rng, rng.choice(idents[kind]))
            sec["title"] = phrase(rng, tok) + rng.choice(["", "", ":"]) if (style == "google" and rng.random() < 0.25) else None
            nitems = rng.choice([1, 1, 2, 2, 3, 4])
            if kind in RETURNS_LIKE and style == "google":
                prefix = "receives" if kind == "receives" else "returns"
                sec["multiple"] = opt(options, prefix + "_multiple_items")
                sec["named"] = opt(options, prefix + "_named_value")
                if not sec["multiple"]:
                    nitems = 1
            sec["items"] = [gen_item(rng, tok, kind, used, style, sec) for _ in range(nitems)]
            if style == "numpy" and kind in ("parameters", "other parameters") and rng.random() < 0.06:
                it = sec["items"][-1]
                free = [n for n in PARAM_NAMES if n not in used["params"]]
                if free and not it["name"].startswith("*"):
                    it["more_names"] = [free[0]]
                    used["params"].add(free[0])
        sections.append(sec)
    struct = {"style": style, "options": options, "mode": mode, "hostile": None, "wrap": rng.choice([0, 0, 0, 4, 8]),
              "sections": sections}
    build_parent(rng, struct)
    if hostile:
        apply_hostile(rng, struct, hostile)
    return struct


def build_parent(rng: random.Random, struct: dict) -> None:  # noqa: C901, PLR0912, PLR0915
    """Generate the parent object's source together with a model of what it supplies (struct['fallback'])."""
    sections = struct["sections"]
    mode = struct["mode"]
    kinds = [s["kind"] for s in sections]
    if mode == "init":
        pkind = "init"
    elif mode == "property":
        pkind = "property"
    else:
        pkind = rng.choice(["function"] * 5 + ["class", "class", "module", "none"])
    # returns-like fallbacks: only for a function parent and a kind that appears in exactly one section
    rl: dict[str, list | None] = {"returns": None, "yields": None, "receives": None}
    for sec in sections:
        if sec["kind"] in RETURNS_LIKE:
            single = kinds.count(sec["kind"]) == 1
            for it in sec["items"]:
                if it["type"] is None and not (pkind == "none" or (pkind in ("function", "init") and single)):
                    it["type"] = rng.choice(TYPES)
    spell = pick_spelling(rng) if pkind in ("function", "init") else None
    via: dict[str, list[str]] = {}
    if spell:
        want = {}
        for sec in sections:
            if sec["kind"] in RETURNS_LIKE and any(it["type"] is None for it in sec["items"]):
                want[sec["kind"]] = len(sec["items"])
        if "returns" in want and ("yields" in want or "receives" in want):
            # the docs only promise the Returns fallback for plain return annotations: give these items explicit types
            for sec in sections:
                if sec["kind"] == "returns":
                    for it in sec["items"]:
                        it["type"] = it["type"] or rng.choice(TYPES)
            del want["returns"]
        it_name, gen_name, tup_name = spell["iterator"], spell["generator"], spell["tuple"]
        tup_path = f"{spell['tuple_module']}.{'tuple' if tup_name == 'tuple' else 'Tuple'}"
        elems = {k: [rng.choice(SIMPLE_TYPES) for _ in range(n)] for k, n in want.items()}
        for k, n in want.items():
            # a *single* undocumented-type item whose signature type is itself a tuple: the item gets the whole tuple
            # (Google only: its docs-backed rule is "one item -> the whole annotation"; Numpy always indexes tuple elements
            # and its documentation does not say what a single item of a tuple-returning function gets)
            if n == 1 and struct["style"] == "google" and rng.random() < 0.35:
                elems[k] = [rng.choice([f"{tup_name}[int, str]", f"{tup_name}[str, bool, int]"])]

        def compose(ts: list[str]) -> str:
            return ts[0] if len(ts) == 1 else f"{tup_name}[{', '.join(ts)}]"

        # via[kind]: import paths of the wrappers the parser has to see through to reach the items' types (known by construction)
        if "receives" in want or ("yields" in want and rng.random() < 0.5):
            y = compose(elems["yields"]) if "yields" in want else rng.choice(SIMPLE_TYPES)
            s = compose(elems["receives"]) if "receives" in want else rng.choice(["None", "str"])
            ret = f"{gen_name}[{y}, {s}, {rng.choice(['None', 'int'])}]"
            for k in want:
                via[k] = [f"{spell['module']}.Generator"]
        elif "yields" in want:
            ret = f"{it_name}[{compose(elems['yields'])}]"
            via["yields"] = [f"{spell['module']}.Iterator"]
        elif "returns" in want:
            ret = compose(elems["returns"])
            via["returns"] = []
        else:
            wrapped = [f"{tup_name}[int, str]", f"{it_name}[int]"]
            ret = rng.choice([None, None, "int", "None", *wrapped]) if pkind == "function" else "None"
            if any(k in RETURNS_LIKE for k in kinds) and ret in wrapped:
                ret = "int"
        for k, n in want.items():
            rl[k] = elems[k]
            if n > 1:
                via[k].append(tup_path)
    else:
        ret = None
    # parameters
    sig: dict[str, dict] = {}
    documented = [(it["name"], *it.get("more_names", [])) for s in sections if s["kind"] in ("parameters", "other parameters") for it in s["items"]]
    for names in documented:
        for name in names:
            # 'a, b : T' is not described by the docs (the parser shares the first signature match between the names):
            # such groups are only generated for names the signature does not have
            if len(names) == 1 and pkind in ("function", "init", "class") and rng.random() < 0.75:
                bare = name.lstrip("*")
                stars = name[: len(name) - len(bare)]
                if stars:
                    default = "()" if stars == "*" else "{}"       # what Griffe stores for variadic parameters
                else:
                    default = rng.choice(DEFAULTS) if rng.random() < 0.5 else None
                sig[bare] = {"stars": stars, "annotation": rng.choice(TYPES) if rng.random() < 0.6 else None, "default": default}
    # attributes
    attrs: dict[str, str | None] = {}
    for s in sections:
        if s["kind"] == "attributes":
            for it in s["items"]:
                if pkind in ("class", "module") and rng.random() < 0.75:
                    attrs[it["name"]] = rng.choice(TYPES) if rng.random() < 0.7 else None
    # render the source
    plain = [n for n, p in sig.items() if not p["stars"]]
    plain.sort(key=lambda n: sig[n]["default"] is not None)
    parts = []
    for n in plain:
        p = sig[n]
        txt = n + (f": {p['annotation']}" if p["annotation"] else "")
        if p["default"] is not None:
            txt += (" = " if p["annotation"] else "=") + p["default"]
        parts.append(txt)
    for stars in ("*", "**"):
        for n, p in sig.items():
            if p["stars"] == stars:
                parts.append(stars + n + (f": {p['annotation']}" if p["annotation"] else ""))
    if spell:
        header = ("from __future__ import annotations\n" if spell["future"] else "") + "from typing import Callable, Optional\n" + spell["imports"] + "\n"
        arrow = f" -> {ret!r}" if (ret and spell["quoted"]) else (f" -> {ret}" if ret else "")
    else:
        header, arrow = LEGACY_HEADER, ""
    attr_lines = [f"{n}: {a} = 0" if a else f"{n} = 0" for n, a in attrs.items()]
    if pkind == "function":
        source, path = header + f"def func({', '.join(parts)}){arrow}: ...\n", "func"
    elif pkind == "init":
        source, path = header + f"class K:\n    def __init__({', '.join(['self', *parts])}){arrow}: ...\n", "K.__init__"
    elif pkind == "class":
        body = [f"    {ln}" for ln in attr_lines] + [f"    def __init__({', '.join(['self', *parts])}): ..."]
        source, path = header + "class K:\n" + "\n".join(body) + "\n", "K"
    elif pkind == "module":
        source, path = header + "\n".join(attr_lines) + "\n", ""
    elif pkind == "property":
        source, path = header + "class K:\n    @property\n    def prop(self) -> bytes: ...\n", "K.prop"
    else:
        source, path = None, None
    struct["parent"] = {"kind": pkind, "source": source, "path": path,
                        "spelling": {k: spell[k] for k in ("id", "quoted", "future")} if spell else None}
    struct["fallback"] = {"params": {n: {"annotation": p["annotation"], "default": p["default"]} for n, p in sig.items()},
                          "attrs": attrs, "returns_like": rl, "returns_like_via": via, "returns_annotation": ret}
    if struct["style"] == "google":
        for it in google_attr_leak_items(struct):
            it["type"] = rng.choice(TYPES)          # D_clean: see the known finding C13-google-attribute-annotation-leak


def google_attr_leak_items(struct: dict) -> list[dict]:
    """Untyped Google attribute items whose parent lookup fails and that follow an item with a (docstring or parent) annotation."""
    out = []
    fb, pkind = struct["fallback"], struct["parent"]["kind"]
    for sec in struct["sections"]:
        if sec["kind"] != "attributes":
            continue
        carried = False
        for it in sec["items"]:
            found = pkind in ("class", "module") and it["name"] in fb["attrs"]
            if it["type"]:
                carried = True
            elif found:
                carried = fb["attrs"][it["name"]] is not None
            elif carried:
                out.append(it)
    return out


def apply_hostile(rng: random.Random, struct: dict, hostile: str) -> None:
    """Documented-but-suspicious syntax, one mechanism per structure so that a refutation can be classified."""
    sections = struct["sections"]
    if hostile == "numpy-documented-alias" and struct["style"] == "numpy":
        cands = [s for s in sections if s["kind"] in NUMPY_DOCUMENTED_ALIASES]
        if cands:
            sec = rng.choice(cands)
            sec["ident"] = case_variant(rng, rng.choice(NUMPY_DOCUMENTED_ALIASES[sec["kind"]]))
            sec["documented_alias"] = True
            struct["hostile"] = hostile
    elif hostile == "numpy-lone-name" and struct["style"] == "numpy":
        cands = [it for s in sections if s["kind"] in RETURNS_LIKE for it in s["items"] if it["type"] is None]
        if cands:
            it = rng.choice(cands)
            it["name"] = it["name"] or rng.choice(RETURN_NAMES)
            it["lone_name"] = True
            struct["hostile"] = hostile
    elif hostile == "google-attr-leak" and struct["style"] == "google":
        fb, pkind = struct["fallback"], struct["parent"]["kind"]
        for sec in sections:
            if sec["kind"] == "attributes" and len(sec["items"]) >= 2:  # noqa: PLR2004
                first, second = sec["items"][0], sec["items"][1]
                first["type"] = first["type"] or rng.choice(TYPES)
                if not (pkind in ("class", "module") and second["name"] in fb["attrs"]):
                    second["type"] = None
                    second["leak_target"] = True
                    struct["hostile"] = hostile
                    break
    elif hostile == "google-paren-colon" and struct["style"] == "google":
        cands = [it for s in sections if s["kind"] in RETURNS_LIKE and s.get("named", True) for it in s["items"]
                 if it["type"] is not None and it["desc"]["lines"] and not it.get("newline_start")]
        if cands:
            it = rng.choice(cands)
            it["desc"]["lines"][0] += " (see this): that"
            it["paren_colon"] = True
            struct["hostile"] = hostile


# ------------------------------------------------------------------------------------------
# Sphinx structures
def gen_struct_sphinx(rng: random.Random, hostile: str | None = None) -> dict:  # noqa: C901, PLR0912, PLR0915
    tok = Tokens()
    options = random_options(rng, "sphinx")
    text = gen_text(rng, tok) if rng.random() < 0.85 else None
    pkind = rng.choice(["function"] * 5 + ["class", "class", "module", "none"])
    groups: list[list[dict]] = []
    sig: dict[str, dict] = {}
    attrs: dict[str, str | None] = {}
    names = rng.sample(PARAM_NAMES, rng.choice([0, 1, 2, 3, 4]))
    for name in names:
        in_sig = pkind in ("function", "class") and rng.random() < 0.75
        if in_sig:
            sig[name] = {"annotation": rng.choice(TYPES) if rng.random() < 0.6 else None, "default": rng.choice(DEFAULTS) if rng.random() < 0.5 else None}
        field = {"role": "param", "field": rng.choice(["param", "param", "param", "parameter", "arg", "argument", "key", "keyword"]),
                 "name": name, "type_inline": None, "desc": gen_desc(rng, tok, rel_indent=False)}
        group = [field]
        how = rng.choice(["none", "none", "inline", "before", "after"])
        if how == "inline":
            field["type_inline"] = rng.choice(NOSPACE_TYPES)
        elif how in ("before", "after"):
            tfield = {"role": "type", "name": name, "type": rng.choice(TYPES)}
            if how == "after" and in_sig and sig[name]["annotation"] is not None:
                how = "before"            # the suspicious order is only generated on request (hostile)
            group = [tfield, field] if how == "before" else [field, tfield]
        groups.append(group)
    for name in rng.sample(ATTR_NAMES, rng.choice([0, 0, 1, 2, 3])):
        if pkind in ("class", "module") and rng.random() < 0.75:
            attrs[name] = rng.choice(TYPES) if rng.random() < 0.7 else None
        field = {"role": "var", "field": rng.choice(["var", "ivar", "cvar"]), "name": name, "desc": gen_desc(rng, tok, rel_indent=False)}
        group = [field]
        how = rng.choice(["none", "before", "after"])
        if how != "none":
            tfield = {"role": "vartype", "name": name, "type": rng.choice(TYPES)}
            if how == "after" and attrs.get(name) is not None:
                how = "before"
            group = [tfield, field] if how == "before" else [field, tfield]
        groups.append(group)
    ret = None
    if rng.random() < 0.6:
        field = {"role": "returns", "field": rng.choice(["returns", "return"]), "desc": gen_desc(rng, tok, rel_indent=False)}
        group = [field]
        how = rng.choice(["none", "before", "after"])
        if how != "none":
            tfield = {"role": "rtype", "type": rng.choice(TYPES)}
            group = [tfield, field] if how == "before" else [field, tfield]
        groups.append(group)
        if pkind == "function":
            ret = rng.choice([None, "int", "tuple[int, str]", "Optional[str]"])
    for _ in range(rng.choice([0, 0, 1, 2, 3])):
        groups.append([{"role": "raises", "field": rng.choice(["raises", "raise", "except", "exception"]), "exc": rng.choice(EXC_NAMES),
                        "desc": gen_desc(rng, tok, rel_indent=False)}])
    # interleave the groups in arbitrary order (the relative order inside a group is kept)
    fields: list[dict] = []
    pools = [list(g) for g in groups]
    while any(pools):
        p = rng.choice([p for p in pools if p])
        fields.append(p.pop(0))
    struct = {"style": "sphinx", "options": options, "mode": "plain", "hostile": None, "wrap": rng.choice([0, 0, 0, 4, 8]),
              "text": text, "fields": fields, "cont_indent": rng.choice([4, 4, 2, 8]), "blank_before_fields": rng.choice([1, 1, 2])}
    # parent
    parts = []
    plain = sorted(sig, key=lambda n: sig[n]["default"] is not None)
    for n in plain:
        p = sig[n]
        txt = n + (f": {p['annotation']}" if p["annotation"] else "")
        if p["default"] is not None:
            txt += (" = " if p["annotation"] else "=") + p["default"]
        parts.append(txt)
    header = LEGACY_HEADER
    attr_lines = [f"{n}: {a} = 0" if a else f"{n} = 0" for n, a in attrs.items()]
    if pkind == "function":
        source, path = header + f"def func({', '.join(parts)}){f' -> {ret}' if ret else ''}: ...\n", "func"
    elif pkind == "class":
        body = [f"    {ln}" for ln in attr_lines] + [f"    def __init__({', '.join(['self', *parts])}): ..."]
        source, path = header + "class K:\n" + "\n".join(body) + "\n", "K"
    elif pkind == "module":
        source, path = header + "\n".join(attr_lines) + "\n", ""
    else:
        source, path = None, None
    struct["parent"] = {"kind": pkind, "source": source, "path": path}
    struct["fallback"] = {"params": sig, "attrs": attrs, "returns_annotation": ret}
    if hostile == "sphinx-type-after":
        # move one type field behind the field it types, for a name whose annotation the parent also supplies
        cands = []
        for i, f in enumerate(fields):
            if f["role"] == "type" and sig.get(f["name"], {}).get("annotation") is not None:
                cands.append((i, "param"))
            if f["role"] == "vartype" and attrs.get(f["name"]) is not None:
                cands.append((i, "var"))
        if cands:
            i, role = rng.choice(cands)
            tfield = fields[i]
            j = next(k for k, f in enumerate(fields) if f["role"] == role and f["name"] == tfield["name"])
            if i < j:
                fields.pop(i)
                fields.insert(rng.randint(j, len(fields)), tfield)
                tfield["after_typed_field"] = True
                struct["hostile"] = hostile
    return struct


# ------------------------------------------------------------------------------------------
# renderers (well-formed syntax of docs/reference/docstrings.md)
def _wrap(lines: list[str], wrap: int) -> str:
    if wrap and len(lines) > 1:
        lines = [lines[0]] + [" " * wrap + ln if ln else ln for ln in lines[1:]]
        lines.append(" " * wrap)             # the line holding the closing quotes
    return "\n".join(lines)


# How a well-formed docstring is WRITTEN DOWN (struct["writing"]): none of this changes what was written.
#   margin        columns in front of every line but the first (the docstring sits in indented source), 0..16
#   margin_style  the margin spelled with spaces, with tabs, or alternating (inspect.cleandoc expands tabs to 8 columns first)
#   open          text starts right after the opening quotes, or on the next line (first line empty / whitespace-only)
#   fills         what the blank lines carry, cycled over them in order: nothing, the margin, less, more (an editor that
#                 auto-indents blank lines to the depth of the block above), tabs, form feeds; wherever a blank line occurs:
#                 inside descriptions, between sections, between the summary and the first section, inside examples, in prose
#   tail          whitespace-only lines after the last line (closing-quotes line, trailing blank lines)
def gen_writing(rng: random.Random, struct: dict) -> dict:
    margin = rng.choice([0, 0, 2, 4, 4, 8, 8, 8, 12, 16])

    def fill() -> str:
        r = rng.randrange(11)
        if r == 0:
            return ""
        if r == 1:
            return " " * margin
        if r == 2:
            return " " * rng.randrange(margin + 1)
        if r <= 6:  # noqa: PLR2004
            return " " * (margin + rng.choice([1, 2, 4, 4, 4, 8, 12]))
        if r == 7:  # noqa: PLR2004
            return "\t" * rng.choice([1, 2, 3])
        if r == 8:  # noqa: PLR2004
            return " " * margin + rng.choice([" \t", "\t ", "  \t  "])
        if r == 9:  # noqa: PLR2004
            return " " * rng.choice([0, margin, margin + 4]) + "\f"
        return " " * (margin + 4) + "\f "

    fills = [fill() for _ in range(rng.choice([1, 2, 3, 5]))]
    if struct["style"] == "google" and any(sec.get("multiple") is False for sec in struct.get("sections", [])):
        # excluded: with *_multiple_items=False the Google parser takes the block "verbatim" through str.splitlines, for which
        # CPython documents the form feed as a line boundary (str.split("\n") and inspect.cleandoc do not): what one form-feed
        # line "is" is not defined there, so no form feed is written into such docstrings
        fills = [f.replace("\f", " ") for f in fills]
    w = {"margin": margin, "margin_style": rng.choice(["spaces", "spaces", "tabs", "mixed"]) if margin and margin % 8 == 0 else "spaces",
         "open": rng.choice(["same-line"] * 3 + ["next-line", "next-line", "next-line-ws"]),
         "fills": fills,
         "tail": rng.choice([[], [" " * margin], [" " * margin], ["", " " * margin], ["\t"], [" " * (margin + 4), " " * margin], ["   ", "", "\f"]]),
         "placement": "argument", "crlf": False, "judge": "explicit"}
    if struct["parent"]["kind"] != "none" and not struct.get("history") and rng.random() < 0.4:
        # the text is the real docstring of the parent in a source file: the visitor / loader build the Docstring (cleandoc really runs)
        w["placement"] = rng.choice(["source-visited", "source-visited", "source-visited", "source-loaded"])
        w["crlf"] = rng.random() < 0.3              # Windows line endings of the source file (CPython reads them as newlines)
        w["judge"] = rng.choice(["explicit", "parsed"])
        w["source"] = source_with_docstring(struct["parent"], _write_down_lines(struct, w), literal=True)
        if w["crlf"]:
            w["source"] = w["source"].replace("\n", "\r\n")
    return w


def _margin_of(w: dict, index: int) -> str:
    m = w["margin"]
    if w["margin_style"] == "tabs" or (w["margin_style"] == "mixed" and index % 2):
        return "\t" * (m // 8)
    return " " * m


def _write_down(lines: list[str], struct: dict) -> str:
    w = struct.get("writing")
    if not w:
        return _wrap(lines, struct["wrap"])
    out, nblank = [], 0
    for i, ln in enumerate(lines):
        if ln == "":
            out.append(w["fills"][nblank % len(w["fills"])])
            nblank += 1
        else:
            out.append(ln if (i == 0 and w["open"] == "same-line") else _margin_of(w, i) + ln)
    if w["open"] != "same-line":
        out.insert(0, "" if w["open"] == "next-line" else "  ")
    return "\n".join(out + list(w["tail"]))


def _write_down_lines(struct: dict, w: dict) -> str:
    """The written text of a structure under the writing ``w`` (used while ``w`` is being generated)."""
    return RENDER[struct["style"]]({**struct, "writing": w})


def blank_is_blank(node):  # noqa: ANN001, ANN201
    """A blank line is blank whatever whitespace it carries: whitespace-only lines of every string leaf become empty lines."""
    if isinstance(node, str):
        return "\n".join("" if not ln.strip() else ln for ln in node.split("\n")) if "\n" in node or not node.strip() else node
    if isinstance(node, list):
        return [blank_is_blank(v) for v in node]
    if isinstance(node, dict):
        return {k: blank_is_blank(v) for k, v in node.items()}
    return node


WS_KEPT = "C13-whitespace-only-lines-kept-as-content"


def _drop_trailing_ws_lines(text: str) -> tuple[str, int]:
    """``text`` without its trailing whitespace-only lines when at least one of them carries whitespace (else untouched)."""
    lines = text.split("\n")
    k = len(lines)
    while k > 1 and not lines[k - 1].strip():
        k -= 1
    if k == 1 and not lines[0].strip():
        k = 0
    if not any(lines[k:]):          # nothing dropped, or only truly empty lines: the parsers handle those themselves
        return text, 0
    return "\n".join(lines[:k]), 1


def without_kept_whitespace(obs: list[dict], style: str = "google", options: dict | None = None) -> tuple[list[dict], list[str]]:
    """The observation as it would be had the blank lines been empty: see the known finding WS_KEPT.

    Whitespace-only lines that were written as blank lines are *blank*; the parsers trim trailing empty lines from text
    sections, blocks and example prose with rstrip("\\n") and decide "is there any text" by truthiness, so such a line at the
    end of a value stays, and a text section made of nothing else appears. Returns the repaired observation and what was
    repaired (JSON paths); every other field is left exactly as observed.

    Only the values the mechanism reaches are repaired: Google text sections, admonition bodies, example prose and the verbatim
    block of a Returns / Yields / Receives section read with *_multiple_items=False; Numpy example prose; nothing in Sphinx
    (elsewhere the parsers already turn whitespace-only lines into empty ones, and a difference there is a VIOLATION).
    """
    out, repaired = [], []
    if style == "sphinx":
        return obs, repaired
    options = options or {}
    single_block = {"returns": not opt(options, "returns_multiple_items"), "yields": not opt(options, "returns_multiple_items"),
                    "receives": not opt(options, "receives_multiple_items")}
    for i, sec in enumerate(obs):
        sec = dict(sec)  # noqa: PLW2901
        if style == "numpy" and sec["kind"] != "examples":
            pass
        elif "items" in sec and not single_block.get(sec["kind"]):
            pass
        elif sec["kind"] == "text":
            if sec["value"] and not sec["value"].strip():
                repaired.append(f"{i}: whitespace-only text section")
                continue
            sec["value"], n = _drop_trailing_ws_lines(sec["value"])
            if n:
                repaired.append(f"{i}/value")
        elif sec["kind"] == "admonition":
            sec["description"], n = _drop_trailing_ws_lines(sec["description"])
            if n:
                repaired.append(f"{i}/description")
        elif sec["kind"] == "examples":
            blocks = []
            for b, (k, t) in enumerate(sec["blocks"]):
                if k == "text" and t and not t.strip():
                    repaired.append(f"{i}/blocks/{b}: whitespace-only prose block")
                    continue
                t2, n = _drop_trailing_ws_lines(t) if k == "text" else (t, 0)
                if n:
                    repaired.append(f"{i}/blocks/{b}")
                blocks.append([k, t2])
            sec["blocks"] = blocks
        elif "items" in sec:
            items = []
            for j, it in enumerate(sec["items"]):
                it = dict(it)  # noqa: PLW2901
                it["description"], n = _drop_trailing_ws_lines(it["description"])
                if n:
                    repaired.append(f"{i}/items/{j}/description")
                items.append(it)
            sec["items"] = items
        out.append(sec)
    return out, repaired


def tree_without_kept_whitespace(tree: list) -> list:
    """The same repair on the JSONEncoder form (only what moves JSON paths: whitespace-only text sections and prose blocks)."""
    out = []
    for d in tree:
        v = d.get("value")
        if d.get("kind") == "text" and isinstance(v, str) and v and not v.strip():
            continue
        if d.get("kind") == "examples" and isinstance(v, list):
            d = {**d, "value": [b for b in v if not (b[0] == "text" and b[1] and not b[1].strip())]}  # noqa: PLW2901
        out.append(d)
    return out


def _desc_lines(desc: dict, indent: int) -> list[str]:
    return [" " * (indent + r) + ln if ln else "" for ln, r in zip(desc["lines"], desc["rel"])]


def render_google(struct: dict) -> str:  # noqa: C901, PLR0912
    out: list[str] = []
    for idx, sec in enumerate(struct["sections"]):
        if idx:
            out.extend([""] * sec.get("blank_above", 1))
        kind = sec["kind"]
        if kind == "text":
            lines = list(sec["lines"])
            if sec.get("summary_type"):
                lines[0] = f"{sec['summary_type']}: {lines[0]}"
            out.extend(lines)
            continue
        unit = sec["indent"]
        pad = " " * unit
        out.append(f"{sec['ident']}:" + (f" {sec['title']}" if sec.get("title") else ""))
        if kind == "admonition":
            out.extend(_desc_lines(sec["body"], unit))
        elif kind == "examples":
            for b, (_bk, blines) in enumerate(sec["blocks"]):
                if b:
                    out.append("")
                out.extend(pad + ln for ln in blines)
        else:
            for it in sec["items"]:
                head = google_item_head(kind, it, sec)
                desc = it["desc"]
                single_block = kind in RETURNS_LIKE and not sec.get("multiple", True)
                cont = unit if single_block else 2 * unit
                if not desc["lines"]:
                    out.append(pad + head.rstrip())
                elif it.get("newline_start"):
                    out.append(pad + head.rstrip())
                    out.extend(_desc_lines(desc, cont))
                else:
                    first = (head + desc["lines"][0]) if head else desc["lines"][0]
                    out.append(pad + first)
                    out.extend(_desc_lines({"lines": desc["lines"][1:], "rel": desc["rel"][1:]}, cont))
    return _write_down(out, struct)


def google_item_head(kind: str, it: dict, sec: dict) -> str:
    """Everything up to and including 'colon space' of the first line of a Google item ('' when there is none)."""
    if kind in ("parameters", "other parameters", "attributes"):
        return f"{it['name']} ({it['type']}): " if it["type"] else f"{it['name']}: "
    if kind in ("raises", "warns"):
        return f"{it['type']}: "
    if kind in ("functions", "classes"):
        return f"{it['name']}{it.get('sig') or ''}: "
    if kind == "modules":
        return f"{it['name']}: "
    # returns-like
    if sec.get("named", True):
        if it["name"] and it["type"]:
            return f"{it['name']} ({it['type']}): "
        if it["name"]:
            return f"{it['name']}: "
        if it["type"]:
            return f"({it['type']}): "
        return ""
    if it["type"]:
        return f"({it['type']}): " if it.get("parens") else f"{it['type']}: "
    return ""


def render_numpy(struct: dict) -> str:  # noqa: C901, PLR0912
    out: list[str] = []
    for idx, sec in enumerate(struct["sections"]):
        if idx:
            out.extend([""] * sec.get("blank_above", 1))
        kind = sec["kind"]
        if kind == "text":
            out.extend(sec["lines"])
            continue
        out.append(sec["ident"])
        out.append("-" * (len(sec["ident"]) if sec["indent"] in (4, 8) else sec["indent"] + 1))
        if kind == "admonition":
            out.extend(_desc_lines(sec["body"], 0))
        elif kind == "examples":
            for b, (_bk, blines) in enumerate(sec["blocks"]):
                if b:
                    out.append("")
                out.extend(blines)
        else:
            for it in sec["items"]:
                out.append(numpy_item_head(kind, it))
                out.extend(_desc_lines(it["desc"], 4))
    return _write_down(out, struct)


def numpy_item_head(kind: str, it: dict) -> str:  # noqa: PLR0911
    if kind in ("parameters", "other parameters", "attributes"):
        names = ", ".join([it["name"], *it.get("more_names", [])])
        return f"{names} : {it['type']}" if it["type"] else names
    if kind in ("raises", "warns"):
        return it["type"]
    if kind in ("functions", "classes"):
        return f"{it['name']}{it.get('sig') or ''}"
    if kind == "modules":
        return it["name"]
    if it["name"] and it["type"]:
        return f"{it['name']} : {it['type']}"
    if it["name"]:
        return it["name"] if it.get("lone_name") else f"{it['name']} :"
    if it["type"]:
        return it["type"] if it.get("lone_type") else f": {it['type']}"
    return ":"


def render_sphinx(struct: dict) -> str:
    out: list[str] = []
    if struct["text"]:
        out.extend(struct["text"])
        out.extend([""] * struct["blank_before_fields"])
    ci = struct["cont_indent"]
    for f in struct["fields"]:
        role = f["role"]
        if role in ("type", "vartype"):
            out.append(f":{role} {f['name']}: {f['type']}")
            continue
        if role == "rtype":
            out.append(f":rtype: {f['type']}")
            continue
        if role == "param":
            head = f":{f['field']} {f['type_inline']} {f['name']}:" if f["type_inline"] else f":{f['field']} {f['name']}:"
        elif role == "var":
            head = f":{f['field']} {f['name']}:"
        elif role == "returns":
            head = f":{f['field']}:"
        else:
            head = f":{f['field']} {f['exc']}:"
        lines = f["desc"]["lines"]
        out.append(head + (f" {lines[0]}" if lines else ""))
        out.extend(" " * ci + ln if ln else "" for ln in lines[1:])
    return _write_down(out, struct)


RENDER = {"google": render_google, "numpy": render_numpy, "sphinx": render_sphinx}


# ------------------------------------------------------------------------------------------
# the model of the documentation: what the parse must give back
def _flag_trim(line: str) -> str:
    return re.sub(r"\s*#\s*doctest:.+$", "", line)


def expect_examples(blocks: list, trim: bool) -> list:
    out = []
    for kind, lines in blocks:
        if kind == "text":
            if out and out[-1][0] == "text":
                out[-1][1] += "\n\n" + "\n".join(lines)
            else:
                out.append(["text", "\n".join(lines)])
        else:
            ls = [("" if ln.strip() == "<BLANKLINE>" else _flag_trim(ln)) if trim else ln for ln in lines]
            out.append(["examples", "\n".join(ls)])
    return out


def expect(struct: dict) -> list[dict]:  # noqa: C901, PLR0912, PLR0915
    style = struct["style"]
    if style == "sphinx":
        return expect_sphinx(struct)
    options = struct["options"]
    fb = struct["fallback"]
    pkind = struct["parent"]["kind"]
    out: list[dict] = []
    ignore_summary = struct["mode"] == "init" and opt(options, "ignore_init_summary")
    prop_summary = style == "google" and struct["mode"] == "property" and opt(options, "returns_type_in_property_summary")
    for idx, sec in enumerate(struct["sections"]):
        kind = sec["kind"]
        if kind == "text":
            lines = list(sec["lines"])
            e = {"kind": "text", "title": None}
            if idx == 0 and sec.get("summary_type") and not prop_summary:
                lines[0] = f"{sec['summary_type']}: {lines[0]}"
            if idx == 0 and prop_summary:
                e["lstrip"] = True
            if idx == 0 and ignore_summary:
                lines = lines[2:]
                if not lines:
                    continue
            e["value"] = "\n".join(lines)
            out.append(e)
            continue
        if kind == "admonition":
            ident = sec["ident"]
            akind = ident.lower().replace(" ", "-")
            if style == "numpy" and akind in ("notes", "warnings"):
                akind = akind[:-1]
            out.append({"kind": "admonition", "title": sec["title"] or ident, "annotation": akind, "description": desc_text(sec["body"])})
            continue
        if kind == "examples":
            out.append({"kind": "examples", "title": sec.get("title"), "blocks": expect_examples(sec["blocks"], opt(options, "trim_doctest_flags"))})
            continue
        items = []
        for i, it in enumerate(sec["items"]):
            names = [it["name"], *it.get("more_names", [])] if kind in ("parameters", "other parameters") else [it["name"]]
            for name in names:
                e = {"description": desc_text(it["desc"]), "src": "docstring" if it["type"] else None}
                if it.get("newline_start"):
                    e["lstrip_nl"] = True
                if kind in ("parameters", "other parameters"):
                    p = fb["params"].get(name.lstrip("*")) if pkind in ("function", "init", "class") else None
                    e["name"] = name
                    e["annotation"] = it["type"] or (p["annotation"] if p else None)
                    e["value"] = p["default"] if p else None
                    if not it["type"] and p and p["annotation"]:
                        e["src"] = "parent"
                    e["value_src"] = "parent" if p and p["default"] is not None else None
                elif kind == "attributes":
                    e["name"] = name
                    a = fb["attrs"].get(name) if pkind in ("class", "module") else None
                    e["annotation"] = it["type"] or a
                    if not it["type"] and a:
                        e["src"] = "parent"
                elif kind in ("raises", "warns"):
                    e["annotation"] = it["type"]
                elif kind in ("functions", "classes"):
                    e["name"] = name
                    e["annotation"] = f"{name}{it['sig']}" if it.get("sig") else None
                    e["src"] = None
                elif kind == "modules":
                    e["name"] = name
                    e["annotation"] = None
                else:
                    e["name"] = name or ""
                    elems = fb["returns_like"].get(kind)
                    e["annotation"] = it["type"] or (elems[i] if elems else None)
                    if not it["type"] and elems:
                        e["src"] = "parent"
                        e["via"] = (fb.get("returns_like_via") or {}).get(kind)
                if kind in ("functions", "classes", "modules") and style == "numpy":
                    e["strip"] = True
                items.append(e)
        out.append({"kind": kind, "title": sec.get("title"), "items": items})
    if prop_summary:
        out.append({"kind": "returns", "title": None, "items": [{"name": "", "annotation": struct["sections"][0]["summary_type"],
                                                                  "description": "", "src": "docstring"}]})
    return out


def expect_sphinx(struct: dict) -> list[dict]:  # noqa: C901
    fb = struct["fallback"]
    pkind = struct["parent"]["kind"]
    fields = struct["fields"]
    out: list[dict] = [{"kind": "text", "title": None, "value": "\n".join(struct["text"] or [])}]
    types = {f["name"]: f["type"] for f in fields if f["role"] == "type"}
    vartypes = {f["name"]: f["type"] for f in fields if f["role"] == "vartype"}
    rtype = next((f["type"] for f in fields if f["role"] == "rtype"), None)
    params, attrs, raises, returns = [], [], [], []
    for f in fields:
        desc = desc_text(f["desc"]) if "desc" in f else ""
        if f["role"] == "param":
            p = fb["params"].get(f["name"]) if pkind in ("function", "class") else None
            doc_type = f["type_inline"] or types.get(f["name"])
            e = {"name": f["name"], "description": desc, "annotation": doc_type or (p["annotation"] if p else None),
                 "value": p["default"] if p else None, "src": "docstring" if doc_type else ("parent" if p and p["annotation"] else None),
                 "value_src": "parent" if p and p["default"] is not None else None}
            params.append(e)
        elif f["role"] == "var":
            a = fb["attrs"].get(f["name"]) if pkind in ("class", "module") else None
            doc_type = vartypes.get(f["name"])
            attrs.append({"name": f["name"], "description": desc, "annotation": doc_type or a,
                          "src": "docstring" if doc_type else ("parent" if a else None)})
        elif f["role"] == "returns":
            a = fb["returns_annotation"] if pkind == "function" else None
            returns.append({"name": "", "description": desc, "annotation": rtype or a, "src": "docstring" if rtype else ("parent" if a else None)})
        elif f["role"] == "raises":
            raises.append({"description": desc, "annotation": f["exc"], "src": "docstring"})
    for kind, items in (("parameters", params), ("attributes", attrs), ("returns", returns), ("raises", raises)):
        if items:
            out.append({"kind": kind, "title": None, "items": items})
    return out


# ------------------------------------------------------------------------------------------
# observation and comparison
def observe(sections) -> list[dict]:  # noqa: ANN001
    out = []
    for s in sections:
        kind = s.kind.value
        d: dict = {"kind": kind, "title": s.title}
        if kind == "text":
            d["value"] = s.value
        elif kind == "examples":
            d["blocks"] = [[k.value, t] for k, t in s.value]
        elif kind in ("admonition", "deprecated"):
            d["annotation"] = None if s.value.annotation is None else str(s.value.annotation)
            d["description"] = s.value.description
        else:
            items = []
            for el in s.value:
                e = {"annotation": None if el.annotation is None else str(el.annotation), "description": el.description}
                if kind in NAMED_KINDS:
                    e["name"] = el.name
                    e["value"] = None if el.value is None else str(el.value)
                items.append(e)
            d["items"] = items
        out.append(d)
    return out


def _collapse(s: str) -> str:
    return " ".join(s.split())


def compare(style: str, exp: list[dict], obs: list[dict], rec) -> list[dict]:  # noqa: ANN001, C901, PLR0912
    """Field-by-field comparison; returns the list of mismatches (path, what, observed, expected)."""
    mism: list[dict] = []

    def miss(path, what, o, e) -> None:  # noqa: ANN001
        mism.append({"path": path, "what": what, "observed": o, "expected": e})

    if [s["kind"] for s in exp] != [s["kind"] for s in obs]:
        miss([], "section kinds / order", [s["kind"] for s in obs], [s["kind"] for s in exp])
        return mism
    rec.count({"google": "order_checked_google", "numpy": "order_checked_numpy", "sphinx": "sphinx_structures_compared"}[style])
    for i, (e, o) in enumerate(zip(exp, obs)):
        rec.count("sections_compared")
        kind = e["kind"]
        if e.get("title") or o.get("title"):
            rec.count("titles_compared")
        if (e.get("title") or None) != (o.get("title") or None):
            miss([i, "title"], "title", o.get("title"), e.get("title"))
        if kind == "text":
            ev, ov = e["value"], o["value"]
            if e.get("lstrip"):
                ev, ov = ev.lstrip(), ov.lstrip()
            rec.count("descriptions_compared")
            if ev != ov:
                miss([i, "value"], "text", o["value"], e["value"])
        elif kind == "admonition":
            rec.count("admonitions_compared")
            if e["annotation"] != o["annotation"]:
                miss([i, "annotation"], "admonition kind", o["annotation"], e["annotation"])
            if e["description"] != o["description"]:
                miss([i, "description"], "admonition contents", o["description"], e["description"])
        elif kind == "examples":
            rec.count("example_blocks_compared", len(e["blocks"]))
            if e["blocks"] != o["blocks"]:
                miss([i, "blocks"], "example blocks", o["blocks"], e["blocks"])
        else:
            if len(e["items"]) != len(o["items"]):
                miss([i, "items"], "number of items", len(o["items"]), len(e["items"]))
                continue
            for j, (ei, oi) in enumerate(zip(e["items"], o["items"])):
                rec.count("items_compared")
                if "name" in ei and ei["name"] != oi.get("name"):
                    miss([i, "items", j, "name"], "item name", oi.get("name"), ei["name"])
                if ei["annotation"] != oi["annotation"]:
                    miss([i, "items", j, "annotation"], f"annotation (expected from {ei.get('src')})", oi["annotation"], ei["annotation"])
                if ei.get("src") == "docstring":
                    rec.count("annotations_from_docstring_compared")
                elif ei.get("src") == "parent":
                    rec.count("annotations_from_parent_compared")
                    if kind in RETURNS_LIKE:
                        rec.count("returns_like_annotations_from_parent_compared")
                        paths = ei.get("via") or []
                        if paths:
                            rec.count("annotations_through_wrapper_compared")       # Iterator / Generator / tuple seen through
                        if any(p.count(".") >= 2 for p in paths):  # noqa: PLR2004
                            rec.count("annotations_through_deep_import_path_wrapper_compared")   # e.g. collections.abc.Iterator
                if kind in ("parameters", "other parameters"):
                    if ei.get("value_src") == "parent":
                        rec.count("defaults_from_parent_compared")
                    if ei.get("value") != oi.get("value"):
                        miss([i, "items", j, "value"], "default value", oi.get("value"), ei.get("value"))
                ed, od = ei["description"], oi["description"]
                if style == "sphinx":
                    ed, od = _collapse(ed), _collapse(od)
                elif style == "numpy":
                    ed, od = (ed.strip(), od.strip()) if ei.get("strip") else (ed.rstrip(), od.rstrip())
                elif ei.get("lstrip_nl"):
                    od = od.lstrip("\n")
                rec.count("descriptions_compared")
                if "\n\n" in ei["description"]:
                    rec.count("multi_paragraph_descriptions_compared")
                if ed != od:
                    miss([i, "items", j, "description"], "description", oi["description"], ei["description"])
    return mism


def token_paths(tree) -> dict[str, list]:  # noqa: ANN001
    """token -> sorted list of JSON paths (as strings) of the string leaves it occurs in."""
    found: dict[str, list] = {}

    def walk(node, path) -> None:  # noqa: ANN001
        if isinstance(node, str):
            for t in TOKEN_RE.findall(node):
                found.setdefault(t, []).append(path)
        elif isinstance(node, list):
            for k, v in enumerate(node):
                walk(v, f"{path}/{k}")
        elif isinstance(node, dict):
            for k, v in node.items():
                walk(v, f"{path}/{k}")

    walk(tree, "")
    return {t: sorted(p) for t, p in found.items()}


def expected_token_tree(exp: list[dict]) -> list:
    """The expected sections in the shape JSONEncoder gives the parsed ones (only string leaves matter)."""
    tree = []
    for e in exp:
        kind = e["kind"]
        d: dict = {"kind": kind}
        if e.get("title"):
            d["title"] = e["title"]
        if kind == "text":
            d["value"] = e["value"]
        elif kind == "admonition":
            d["value"] = {"annotation": e["annotation"], "description": e["description"]}
        elif kind == "examples":
            d["value"] = [[k, t] for k, t in e["blocks"]]
        else:
            d["value"] = [{"description": it["description"]} for it in e["items"]]
        tree.append(d)
    return tree


# ------------------------------------------------------------------------------------------
# mechanism classifiers
ALL_FINDINGS = ["C13-sphinx-type-field-after-param-ignored", "C13-numpy-documented-alias-unsupported",
                "C13-numpy-lone-name-parsed-as-type", "C13-google-returns-greedy-type", "C13-google-attribute-annotation-leak",
                "C13-whitespace-only-lines-kept-as-content"]


def dropped_summary(struct: dict) -> int:
    """1 when the model drops the leading text section (ignore_init_summary on an __init__ docstring that is only a summary)."""
    if struct["style"] == "sphinx" or not struct["sections"]:
        return 0
    first = struct["sections"][0]
    return int(struct["mode"] == "init" and opt(struct["options"], "ignore_init_summary") and first["kind"] == "text" and not first["lines"][2:])


def classify(struct: dict, exp: list[dict], obs: list[dict], mism: list[dict]) -> str | None:  # noqa: C901, PLR0911, PLR0912
    hostile = struct.get("hostile")
    style = struct["style"]
    if not mism:
        return None
    if hostile == "sphinx-type-after" and style == "sphinx":
        # every mismatch is the annotation of an item whose :type:/:vartype: field follows it, and the parent's annotation came back
        late = {(("parameters" if f["role"] == "type" else "attributes"), f["name"]) for f in struct["fields"] if f.get("after_typed_field")}
        fb = struct["fallback"]
        for m in mism:
            if len(m["path"]) != 4 or m["path"][3] != "annotation":  # noqa: PLR2004
                return None
            sec = exp[m["path"][0]]
            item = sec["items"][m["path"][2]]
            if (sec["kind"], item["name"]) not in late:
                return None
            parent_ann = fb["params"][item["name"]]["annotation"] if sec["kind"] == "parameters" else fb["attrs"][item["name"]]
            if m["observed"] != parent_ann:
                return None
        return "C13-sphinx-type-field-after-param-ignored"
    if hostile == "numpy-documented-alias" and style == "numpy":
        # the aliased section came back as an admonition titled with the alias; nothing else differs
        idx = [i for i, s in enumerate(struct["sections"]) if s.get("documented_alias")]
        offset = dropped_summary(struct)
        if len(idx) != 1 or len(mism) != 1 or mism[0]["path"] != [] or len(obs) != len(exp):
            return None
        k = idx[0] - offset
        if not (0 <= k < len(obs)) or obs[k]["kind"] != "admonition" or obs[k]["title"] != struct["sections"][idx[0]]["ident"]:
            return None
        if [s["kind"] for n, s in enumerate(obs) if n != k] != [s["kind"] for n, s in enumerate(exp) if n != k]:
            return None
        rest_e = [s for n, s in enumerate(exp) if n != k]
        rest_o = [s for n, s in enumerate(obs) if n != k]

        class _Null:
            def count(self, *a) -> None:  # noqa: ANN002
                pass

        if compare(style, rest_e, rest_o, _Null()):
            return None
        return "C13-numpy-documented-alias-unsupported"
    if hostile == "numpy-lone-name" and style == "numpy":
        # the lone-name item came back with an empty name and the written name as its annotation; nothing else differs
        for m in mism:
            if len(m["path"]) != 4:  # noqa: PLR2004
                return None
            k = m["path"][0] + dropped_summary(struct)
            if k >= len(struct["sections"]):
                return None
            sec = struct["sections"][k]
            if sec["kind"] not in RETURNS_LIKE:
                return None
            it = sec["items"][m["path"][2]]
            if not it.get("lone_name"):
                return None
            if m["path"][3] == "name" and m["observed"] == "":
                continue
            if m["path"][3] == "annotation" and m["observed"] == it["name"]:
                continue
            return None
        return "C13-numpy-lone-name-parsed-as-type"
    if hostile == "google-attr-leak" and style == "google":
        # an untyped attribute the parent does not have came back with the annotation of the item above it
        for m in mism:
            if len(m["path"]) != 4 or m["path"][3] != "annotation" or m["expected"] is not None:  # noqa: PLR2004
                return None
            k = m["path"][0] + dropped_summary(struct)
            if k >= len(struct["sections"]) or struct["sections"][k]["kind"] != "attributes":
                return None
            j = m["path"][2]
            if j == 0 or struct["sections"][k]["items"][j]["type"] is not None:
                return None
            if m["observed"] != obs[m["path"][0]]["items"][j - 1]["annotation"]:
                return None
        return "C13-google-attribute-annotation-leak"
    if hostile == "google-paren-colon" and style == "google":
        # the type swallowed the description up to its last '):'
        for m in mism:
            if len(m["path"]) != 4:  # noqa: PLR2004
                return None
            k = m["path"][0] + dropped_summary(struct)
            if k >= len(struct["sections"]):
                return None
            sec = struct["sections"][k]
            if sec["kind"] not in RETURNS_LIKE:
                return None
            it = sec["items"][m["path"][2]]
            if not it.get("paren_colon"):
                return None
            first = it["desc"]["lines"][0]
            swallowed = first[: first.rindex("): ")]
            if m["path"][3] == "annotation" and m["observed"] == f"{it['type']}): {swallowed}":
                continue
            if m["path"][3] == "description" and m["observed"].startswith("that"):
                continue
            return None
        return "C13-google-returns-greedy-type"
    return None


# ------------------------------------------------------------------------------------------
def nontrivial(struct: dict) -> bool:
    if struct["style"] == "sphinx":
        descs = [f["desc"] for f in struct["fields"] if "desc" in f]
        nsec = len({f["role"] for f in struct["fields"] if f["role"] in ("param", "var", "returns", "raises")}) + bool(struct["text"])
    else:
        descs = [it["desc"] for s in struct["sections"] if "items" in s for it in s["items"]]
        descs += [s["body"] for s in struct["sections"] if s["kind"] == "admonition"]
        nsec = len(struct["sections"])
    return nsec >= 3 and any(multi_paragraph(d) for d in descs)  # noqa: PLR2004


def _install_compat_modules() -> None:
    """The re-exporting compatibility package some spellings import from (real modules as far as CPython is concerned)."""
    import collections.abc
    import sys
    import types
    import typing

    if "vfcompat.deep.types" in sys.modules:
        return
    top, deep, leaf = types.ModuleType("vfcompat"), types.ModuleType("vfcompat.deep"), types.ModuleType("vfcompat.deep.types")
    top.__path__, deep.__path__ = [], []
    top.deep, deep.types = deep, leaf
    leaf.Iterator, leaf.Generator, leaf.Tuple = collections.abc.Iterator, collections.abc.Generator, typing.Tuple
    sys.modules.update({"vfcompat": top, "vfcompat.deep": deep, "vfcompat.deep.types": leaf})


def cpython_signature_parts(struct: dict) -> tuple[bool, str]:
    """Ask CPython which type each untyped Yields / Receives / Returns item corresponds to in the parent's signature.

    The parent's source is executed, typing.get_type_hints resolves the return annotation (string and postponed annotations
    included), typing.get_origin / get_args take it apart: Generator[Y, S, R] -> yields Y, receives S, returns R;
    Iterator[Y] -> yields Y; several items of one section <-> the elements of a tuple. The resulting objects must equal the
    evaluation of the strings the model expects. Returns (confirmed, detail).
    """
    import collections.abc
    import types
    import typing

    _install_compat_modules()
    parent, fb = struct["parent"], struct["fallback"]
    ns: dict = {"__name__": "vfc13", "Integer": type("Integer", (), {}),
                "a": types.SimpleNamespace(b=types.SimpleNamespace(C=type("C", (), {}), CustomError=type("CustomError", (Exception,), {})))}
    exec(compile(parent["source"], "<vfc13 parent>", "exec"), ns)  # noqa: S102
    func = ns["func"] if parent["path"] == "func" else ns["K"].__init__
    hint = typing.get_type_hints(func).get("return")
    origin, args = typing.get_origin(hint), typing.get_args(hint)
    if origin is collections.abc.Generator:
        parts = dict(zip(("yields", "receives", "returns"), args))
    elif origin is collections.abc.Iterator:
        parts = {"yields": args[0]}
    else:
        parts = {"returns": hint}
    for kind, elems in fb["returns_like"].items():
        if elems is None:
            continue
        if kind not in parts:
            return False, f"CPython: {hint!r} has no {kind} part"
        part = parts[kind]
        if len(elems) > 1:
            if typing.get_origin(part) is not tuple:
                return False, f"CPython: the {kind} part {part!r} is not a tuple"
            objs = list(typing.get_args(part))
        else:
            objs = [part]
        want = [eval(e, ns) for e in elems]  # noqa: S307
        if objs != want:
            return False, f"CPython: {kind} items correspond to {objs!r}, the model expects {want!r}"
    return True, ""


# ------------------------------------------------------------------------------------------
# histories on ONE Docstring object: the text under test is assigned to an object that already lived
READ_OPS = ["lines", "lines", "parsed", "parse-old-style", "parse-case-style", "as-dict-full", "source"]


def source_with_docstring(parent: dict, doc: str, *, literal: bool = False) -> str:
    """The parent's source with ``doc`` written as the docstring of the documented object (a literal, so any text is safe)."""
    src, path = parent["source"], parent["path"]
    lit = '"""' + doc.replace("\\", "\\\\").replace('"', '\\"') + '"""' if literal else repr(doc)
    if path == "":
        return lit + "\n" + src
    if path == "K":
        head, body = src.split("class K:\n", 1)
        return head + "class K:\n    " + lit + "\n" + body
    pad = "    " if path == "func" else "        "
    head, tail = src.rsplit(": ...\n", 1)
    return head + ":\n" + pad + lit + "\n" + tail


def gen_history(rng: random.Random, struct: dict) -> dict:
    """What happened to the Docstring object before (and while) it received the case's text.

    construct / visit / load it with ANOTHER generated docstring (any style), read .lines / .parsed / parse(...) / as_dict /
    .source in any combination, then assign .value (optionally twice, with a read in between) and, in any order, .parser,
    .parser_options, .parent, .lineno/.endlineno; finally obtain the sections through parse(style, **options), through
    parse() with the attributes set, or through .parsed (only when nothing computed it before: it is documented as cached).
    """
    old = gen_struct(rng, rng.choice(STYLES))
    old_text = RENDER[old["style"]](old)
    parent = struct["parent"]
    origin = "constructed" if parent["kind"] == "none" else rng.choice(["constructed"] * 5 + ["visited"] * 4 + ["loaded"])
    reads = [rng.choice(READ_OPS) for _ in range(rng.choice([0, 1, 1, 2, 2, 3]))]
    if origin == "constructed":
        reads = [r for r in reads if r != "source"]
    cached_parsed = any(r in ("parsed", "as-dict-full") for r in reads)
    judge = rng.choice(["explicit", "explicit", "attributes"] + ([] if cached_parsed else ["parsed"]))
    ctor_options = dict(old["options"]) if rng.random() < 0.5 else {}
    h: dict = {"origin": origin, "old_style": old["style"], "old_text": old_text, "reads": reads, "judge": judge,
               "ctor_parser": rng.choice([None, old["style"], struct["style"]]), "ctor_options": ctor_options,
               "parser_as_enum": rng.random() < 0.5, "interim": rng.random() < 0.2, "mid_read": rng.random() < 0.3}
    steps = ["value"]
    if judge != "explicit" or rng.random() < 0.3:
        steps.append("parser")
    if judge != "explicit" or (not struct["options"] and ctor_options) or rng.random() < 0.3:
        steps.append("parser_options")      # parse(style) without options falls back on the attribute: it must be the case's
    if origin == "constructed":
        h["ctor_parent"] = rng.choice(["case", "case", "none", "old"])
        if h["ctor_parent"] == "old":
            h["old_parent"] = {"source": old["parent"]["source"], "path": old["parent"]["path"]}
        if h["ctor_parent"] != "case":
            steps.append("parent")
    else:
        h["source"] = source_with_docstring(parent, old_text)
    if rng.random() < 0.3:
        steps.append("linenos")
    rng.shuffle(steps)
    h["steps"] = steps
    return h


class HarnessError(Exception):
    pass


def run_history(rec, struct: dict, text: str):  # noqa: ANN001, ANN201, C901, PLR0912, PLR0915
    """Replay struct['history'] on one Docstring object; returns (docstring, sections)."""
    import inspect

    import griffe
    from vf.core.util import load_files, visit_source

    h = struct["history"]
    style, options = struct["style"], struct["options"]
    cleaned = inspect.cleandoc(text.rstrip())            # what the constructor does to a text; assignment stores it as is
    old_clean = inspect.cleandoc(h["old_text"].rstrip())

    def spelled(name: str | None):  # noqa: ANN202
        return griffe.Parser(name) if (name and h["parser_as_enum"]) else name

    if h["origin"] == "constructed":
        case_parent = parent_object(struct)
        if h["ctor_parent"] == "case":
            first_parent = case_parent
        elif h["ctor_parent"] == "old":
            first_parent = parent_object({"parent": h["old_parent"]})
        else:
            first_parent = None
        ds = griffe.Docstring(h["old_text"], lineno=1, endlineno=1 + h["old_text"].count("\n"), parent=first_parent,
                              parser=spelled(h["ctor_parser"]), parser_options=dict(h["ctor_options"]))
    else:
        if h["origin"] == "visited":
            mod = visit_source(h["source"], "vfc13", docstring_parser=spelled(h["ctor_parser"]), docstring_options=dict(h["ctor_options"]))
        else:
            mod, _loader = load_files({"vfc13.py": h["source"]}, "vfc13", docstring_parser=spelled(h["ctor_parser"]))
        path = struct["parent"]["path"]
        case_parent = mod[path] if path else mod
        ds = case_parent.docstring
        if ds is None or ds.value != old_clean or ds.parent is not case_parent:
            raise HarnessError(f"the {h['origin']} object does not carry the docstring written in its source: {None if ds is None else ds.value[:80]!r}")
    # the object lives: reads of the OLD text (their results are not this check's business; that they happened is)
    for op in h["reads"]:
        try:
            if op == "lines":
                if ds.lines != old_clean.split("\n"):
                    raise HarnessError("lines of the old text differ from its value")  # noqa: TRY301
            elif op == "parsed":
                ds.parsed  # noqa: B018
            elif op == "parse-old-style":
                ds.parse(spelled(h["old_style"]))
            elif op == "parse-case-style":
                ds.parse(spelled(style), **options)
            elif op == "as-dict-full":
                ds.as_dict(full=True)
            elif op == "source":
                ds.source  # noqa: B018
        except HarnessError:
            raise
        except Exception:  # noqa: BLE001
            rec.count("history_reads_that_raised")      # totality on arbitrary text/style pairs is C12's property
    for step in h["steps"]:
        if step == "value":
            if h["interim"]:
                ds.value = "\n".join(reversed(old_clean.split("\n")))
                ds.lines  # noqa: B018
            ds.value = cleaned
            if h["mid_read"]:
                ds.lines  # noqa: B018
        elif step == "parser":
            ds.parser = spelled(style)
        elif step == "parser_options":
            ds.parser_options = dict(options)
        elif step == "parent":
            ds.parent = case_parent
        elif step == "linenos":
            ds.lineno, ds.endlineno = 1, 1 + text.count("\n")
    if h["judge"] == "explicit":
        sections = ds.parse(spelled(style), **options)
    elif h["judge"] == "attributes":
        sections = ds.parse()
    else:
        sections = ds.parsed
    rec.count("reused_object_cases_judged")
    if any(r != "source" for r in h["reads"]):
        rec.count("reused_after_text_was_read_or_parsed")
    if any(r == "lines" for r in h["reads"]):
        rec.count("reused_after_lines_read")
    if any(r.startswith("parse") or r in ("parsed", "as-dict-full") for r in h["reads"]):
        rec.count("reused_after_parse")
    if h["origin"] != "constructed":
        rec.count("reused_visited_or_loaded_object_cases")
    if h["origin"] == "loaded":
        rec.count("reused_loaded_object_cases")
    if "parser" in h["steps"] or "parser_options" in h["steps"]:
        rec.count("reused_with_parser_attributes_reassigned")
    if "parent" in h["steps"]:
        rec.count("reused_with_parent_reassigned")
    if h["judge"] == "parsed":
        rec.count("reused_judged_through_parsed_property")
    rec.add_to_set("history_shapes", f"{h['origin']}:{'+'.join(sorted(set(h['reads']))) or 'no-read'}:{h['judge']}")
    return ds, sections


def run_from_source(rec, struct: dict, text: str):  # noqa: ANN001, ANN201
    """The written text is the parent's real docstring in a source file; the visitor / loader build the Docstring object.

    Returns (docstring, sections, mismatches). CPython reads the same file first (ast.parse + ast.get_docstring(clean=False)):
    the literal must be the written text (harness self-check) and Docstring.value must be inspect.cleandoc of it.
    """
    import ast
    import inspect

    from vf.core.util import load_files, visit_source

    w = struct["writing"]
    style, options, path = struct["style"], struct["options"], struct["parent"]["path"]
    node = ast.parse(w["source"])
    for part in (path.split(".") if path else []):
        node = next(n for n in node.body if getattr(n, "name", None) == part)
    raw = ast.get_docstring(node, clean=False)
    if raw != text:
        raise HarnessError(f"CPython reads another docstring from the generated source than the written text: {raw!r:.120}")
    by_attr = w["judge"] == "parsed"
    if w["placement"] == "source-visited":
        kw = {"docstring_parser": style, "docstring_options": dict(options)} if by_attr else {}
        mod = visit_source(w["source"], "vfc13", **kw)
    else:
        mod, _loader = load_files({"vfc13.py": w["source"]}, "vfc13", docstring_parser=style if by_attr else None)
    obj = mod[path] if path else mod
    ds = obj.docstring
    if ds is None:
        raise HarnessError("the object read from source has no docstring")
    mism = []
    want_value = inspect.cleandoc(raw.rstrip())
    rec.count("source_docstring_values_compared_with_cpython_cleandoc")
    if ds.value != want_value:
        mism.append({"path": ["value"], "what": "Docstring.value of the object read from source is not inspect.cleandoc of the literal CPython reads",
                     "observed": ds.value[:200], "expected": want_value[:200]})
    if by_attr:
        ds.parser_options = dict(options)
        sections = ds.parsed
    else:
        sections = ds.parse(style, **options)
    rec.count("docstrings_read_from_source_judged")
    if w["placement"] == "source-loaded":
        rec.count("docstrings_loaded_from_disk_judged")
    if w["crlf"]:
        rec.count("crlf_source_cases_judged")
    return ds, sections, mism


# ------------------------------------------------------------------------------------------
# entry points: the same written text, style and options handed to Griffe in every documented way
#   api       how the text, the style and the options reach a parser (see IN_MEMORY_APIS / SOURCE_APIS)
#   selector  how the style is named: by its name, or as 'auto' with default=<style>, with style_order=[<style>, ...], or with
#             default=<style> over a style_order that starts with another style ("default is returned if specified, else the
#             first parser in style_order"); optional method= (both documented values)
#   enum / sub_enum   names spelled as Parser members or as their literal values (the style itself / default and style_order)
# Whatever the entry point, the options belong to the parser that finally reads the text ("Any other option is passed down to
# the detected parser"): the sections must be the ones the written structure describes under these options.
IN_MEMORY_APIS = ["function", "griffe.parse", "Docstring.parse", "ctor.parsed", "ctor.parse()", "ctor-parser.parse(**options)",
                  "ctor-options.parse(style)", "attributes.parsed"]
SOURCE_APIS = ["visit", "temporary_visited_module", "GriffeLoader.load", "griffe.load", "temporary_visited_package",
               "GriffeLoader.load-inspected", "temporary_inspected_module", "cli-dump"]
INSPECTING_APIS = ("GriffeLoader.load-inspected", "temporary_inspected_module")
SOURCE_ENTRY_SHARE = 0.3      # share of the structures with a parent whose text also travels through one source-level entry point
AUTO_KEYS = ("method", "style_order", "default")


def gen_selector(erng: random.Random, style: str, *, auto: bool, literal_only: bool = False) -> dict:
    e: dict = {"selector": "named", "enum": (not literal_only) and erng.random() < 0.5}
    if not auto:
        return e
    others = [s for s in STYLES if s != style]
    erng.shuffle(others)
    e["selector"] = erng.choice(["auto-default", "auto-default", "auto-order", "auto-order", "auto-default-over-order"])
    e["sub_enum"] = (not literal_only) and erng.random() < 0.5
    if e["selector"] == "auto-order":
        e["order"] = [style, *others[: erng.randrange(3)]]
    elif e["selector"] == "auto-default-over-order":
        e["order"] = [*others[: erng.choice([1, 2])], *([style] if erng.random() < 0.5 else [])]
    # 'max_sections' is documented as never using the default: it is only combined with a style_order
    e["method"] = erng.choice([None, None, "heuristics", "max_sections"] if e["selector"] == "auto-order" else [None, None, "heuristics"])
    e["auto_keys_first"] = erng.random() < 0.5        # where the auto options sit among the style options of the mapping
    return e


def gen_entries(erng: random.Random, struct: dict) -> list[dict]:
    style = struct["style"]
    entries = []
    for api in IN_MEMORY_APIS:
        entries.append({"api": api, **gen_selector(erng, style, auto=erng.random() < 0.6)})     # noqa: PLR2004
    if struct["parent"]["kind"] != "none" and erng.random() < SOURCE_ENTRY_SHARE:
        api = erng.choice(SOURCE_APIS)
        if api in INSPECTING_APIS and any(struct["fallback"]["attrs"].values()):
            # excluded: which annotations the attributes of an imported class / module expose is a matter of dynamic analysis
            # (variable annotations are not read from runtime objects), not of how a docstring is parsed: the model of the
            # parent describes the source, so such parents only travel through the entry points that read the source
            api = erng.choice([a for a in SOURCE_APIS if a not in INSPECTING_APIS])
        # the command line takes literal values only (-d <style> -D <JSON>)
        entries.append({"api": api, **gen_selector(erng, style, auto=erng.random() < 0.6, literal_only=api == "cli-dump")})
    return entries


def entry_label(e: dict) -> str:
    sel = e["selector"] + (f"+method={e['method']}" if e.get("method") else "")
    return f"{e['api']}:{sel}:{'Parser' if e['enum'] else 'str'}" + ("/Parser" if e.get("sub_enum") else "")


def entry_arguments(e: dict, style: str, options: dict):  # noqa: ANN201
    """(style argument, options mapping) an entry point receives for this style and these style options."""
    import griffe

    def name(n: str, as_enum: bool):  # noqa: ANN202
        return griffe.Parser(n) if as_enum else n

    if e["selector"] == "named":
        return name(style, e["enum"]), dict(options)
    auto: dict = {}
    if e.get("method"):
        auto["method"] = e["method"]
    if e["selector"] in ("auto-order", "auto-default-over-order"):
        auto["style_order"] = [name(s, e["sub_enum"]) for s in e["order"]]
    if e["selector"] in ("auto-default", "auto-default-over-order"):
        auto["default"] = name(style, e["sub_enum"])
    kw = {**auto, **options} if e.get("auto_keys_first") else {**options, **auto}
    return name("auto", e["enum"]), kw


_ENTRY_SERIAL = [0]


def sections_through_entry(e: dict, struct: dict, text: str):  # noqa: ANN201, C901, PLR0911, PLR0912, PLR0915
    """The sections of the written text obtained through one entry point; (sections | None, JSON tree | None)."""
    import griffe
    from vf.core.util import tmp_tree, visit_source

    style, options = struct["style"], struct["options"]
    arg, kw = entry_arguments(e, style, options)
    api = e["api"]
    if api in IN_MEMORY_APIS:
        parent = parent_object(struct)
        base = {"lineno": 1, "endlineno": 1 + text.count("\n"), "parent": parent}
        if api == "function":
            ds = griffe.Docstring(text, **base)
            if e["selector"] == "named":
                return {"google": griffe.parse_google, "numpy": griffe.parse_numpy, "sphinx": griffe.parse_sphinx}[style](ds, **kw), None
            return griffe.parse_auto(ds, **kw), None
        if api == "griffe.parse":
            return griffe.parse(griffe.Docstring(text, **base), arg, **kw), None
        if api == "Docstring.parse":
            return griffe.Docstring(text, **base).parse(arg, **kw), None
        if api == "ctor.parsed":
            return griffe.Docstring(text, parser=arg, parser_options=kw, **base).parsed, None
        if api == "ctor.parse()":
            return griffe.Docstring(text, parser=arg, parser_options=kw, **base).parse(), None
        if api == "ctor-parser.parse(**options)":
            return griffe.Docstring(text, parser=arg, **base).parse(**kw), None
        if api == "ctor-options.parse(style)":
            return griffe.Docstring(text, parser_options=kw, **base).parse(arg), None
        ds = griffe.Docstring(text, **base)           # attributes.parsed: what an extension does to an existing docstring
        ds.parser, ds.parser_options = arg, kw
        return ds.parsed, None
    # source level: the text is the parent's real docstring; the agents build the Docstring with the loader's parser and options
    parent, path = struct["parent"], struct["parent"]["path"]
    if api in INSPECTING_APIS:
        # the module is really imported: postponed evaluation keeps every generated annotation a string CPython need not resolve
        _install_compat_modules()
        future = "from __future__ import annotations\n"
        source = source_with_docstring({"source": parent["source"].replace(future, "", 1), "path": path}, text)
        if path == "":
            lit, rest = source.split("\n", 1)        # a module docstring comes first (one physical line: a repr literal)
            source = lit + "\n" + future + rest
        else:
            source = future + source
    else:
        source = source_with_docstring(parent, text)
    _ENTRY_SERIAL[0] += 1
    modname = f"vfc13e{_ENTRY_SERIAL[0]}"
    tree = None
    if api == "visit":
        mod = visit_source(source, modname, docstring_parser=arg, docstring_options=kw)
    elif api == "temporary_visited_module":
        with griffe.temporary_visited_module(source, module_name=modname, docstring_parser=arg, docstring_options=kw) as mod:
            pass
    elif api == "temporary_inspected_module":
        import sys

        try:
            with griffe.temporary_inspected_module(source, module_name=modname, docstring_parser=arg, docstring_options=kw) as mod:
                pass
        finally:
            sys.modules.pop(modname, None)
    elif api == "temporary_visited_package":
        with griffe.temporary_visited_package(modname, {"sub.py": source}, docstring_parser=arg, docstring_options=kw) as pkg:
            mod = pkg["sub"]
    else:
        with tmp_tree({f"{modname}.py": source}) as root:
            if api == "GriffeLoader.load":
                mod = griffe.GriffeLoader(search_paths=[root], docstring_parser=arg, docstring_options=kw, allow_inspection=False).load(modname)
            elif api == "GriffeLoader.load-inspected":
                import sys

                try:
                    mod = griffe.GriffeLoader(search_paths=[root], docstring_parser=arg, docstring_options=kw, force_inspection=True).load(modname)
                finally:
                    sys.modules.pop(modname, None)
            elif api == "griffe.load":
                mod = griffe.load(modname, search_paths=[root], docstring_parser=arg, docstring_options=kw, allow_inspection=False)
            else:   # cli-dump: griffe dump <module> -s <dir> -d <style> -D <JSON options> -f -o <file>
                import logging
                import os

                out = os.path.join(str(root), "dump.json")
                level = logging.getLogger().level
                try:
                    rc = griffe.main(["dump", modname, "-s", str(root), "-d", arg, "-D", json.dumps(kw), "-f", "-o", out, "-L", "ERROR"])
                finally:
                    logging.getLogger().setLevel(level)
                if rc != 0:
                    raise HarnessError(f"griffe dump returned {rc}")
                with open(out) as fh:
                    node = json.load(fh)[modname]
                for part in (path.split(".") if path else []):
                    node = node["members"][part]
                doc = node.get("docstring")
                if not doc or "parsed" not in doc:
                    raise HarnessError("the dumped object carries no parsed docstring")
                return None, doc["parsed"]
    obj = mod[path] if path else mod
    ds = obj.docstring
    if ds is None:
        raise HarnessError(f"the object read through {api} has no docstring")
    return ds.parsed, tree


class _NullRec:
    def count(self, *a) -> None:  # noqa: ANN002
        pass


def run_entries(rec, struct: dict, text: str, exp: list[dict], obs_raw: list[dict], tree_raw: list) -> list[dict]:  # noqa: ANN001, C901, PLR0912
    """Every entry of struct['entries'] must give the sections the case's own parse gave (judged by the model in run_case).

    A result that differs is judged by the model as well, so that the report says what was lost; the reference is never
    Griffe's answer alone: the case's own sections are compared with the written structure by run_case.
    """
    import griffe

    style, options, writing = struct["style"], struct["options"], struct.get("writing")
    mism: list[dict] = []
    # do these options decide anything for this text?  (the same text read by the style's parser with its default options)
    try:
        direct = {"google": griffe.parse_google, "numpy": griffe.parse_numpy, "sphinx": griffe.parse_sphinx}[style]
        plain = observe(direct(griffe.Docstring(text, lineno=1, endlineno=1 + text.count("\n"), parent=parent_object(struct))))
    except Exception:  # noqa: BLE001
        plain = None
    options_decide = bool(options) and plain is not None and plain != obs_raw
    if options_decide:
        rec.count("cases_whose_options_change_the_parsed_sections")
    for e in struct["entries"]:
        label = entry_label(e)
        auto = e["selector"] != "named"
        source_level = e["api"] in SOURCE_APIS
        try:
            sections, tree = sections_through_entry(e, struct, text)
        except HarnessError:
            raise
        except Exception as exc:  # noqa: BLE001
            mism.append({"path": ["entry", label], "what": "an entry point raised on a well-formed docstring",
                         "observed": f"{type(exc).__name__}: {exc}"[:300], "expected": "the sections of the written structure"})
            continue
        if sections is None:
            same = tree == tree_raw           # the command line gives the JSON form only
            obs_e = None
        else:
            obs_e = observe(sections)
            same = obs_e == obs_raw
        rec.count("entry_point_results_compared")
        rec.add_to_set("entry_points_compared", label)
        if auto:
            rec.count("auto_style_entry_point_results_compared")
            if options_decide:
                rec.count("auto_style_entry_results_compared_where_the_options_decide")
            if e.get("method"):
                rec.count("auto_style_entry_results_compared_with_a_method")
        elif options_decide:
            rec.count("named_style_entry_results_compared_where_the_options_decide")
        if source_level:
            rec.count("loader_level_option_entry_results_compared")
            if auto:
                rec.count("loader_level_auto_style_entry_results_compared")
            if e["api"] in INSPECTING_APIS:
                rec.count("inspected_docstring_entry_results_compared")
            if e["api"] == "cli-dump":
                rec.count("command_line_dump_entry_results_compared")
        if same:
            continue
        if obs_e is None:
            detail = [{"path": ["json"], "what": "JSON form of the parsed sections in the dump", "observed": json.dumps(tree)[:300],
                       "expected": json.dumps(tree_raw)[:300]}]
        else:
            if writing:
                obs_e = blank_is_blank(without_kept_whitespace(obs_e, style, options)[0])
            detail = compare(style, exp, obs_e, _NullRec())[:4]
        mism.append({"path": ["entry", label], "what": f"entry point {e['api']} ({e['selector']}) gives other sections than the {style} "
                     "parser called with the same options", "observed": detail or "differs from the direct parse, though not in a field the model compares",
                     "expected": "the written structure under the given options, whatever the entry point"})
    return mism


_PARENTS: dict[str, object] = {}


def parent_object(struct: dict):  # noqa: ANN201
    from vf.core.util import visit_source

    p = struct["parent"]
    if p["source"] is None:
        return None
    mod = _PARENTS.get(p["source"])
    if mod is None:
        if len(_PARENTS) > 2000:  # noqa: PLR2004
            _PARENTS.clear()
        mod = _PARENTS[p["source"]] = visit_source(p["source"], "vfc13")
    return mod[p["path"]] if p["path"] else mod


def run_case(rec, struct: dict) -> None:  # noqa: ANN001, C901, PLR0912
    import inspect

    import griffe
    from vf.child import CaseTimeout

    style = struct["style"]
    text = RENDER[style](struct)
    case = {"struct": struct, "text": text}
    nt = nontrivial(struct)
    tags = [style, "parent:" + struct["parent"]["kind"], "mode:" + struct["mode"]] + (["hostile:" + struct["hostile"]] if struct.get("hostile") else [])
    if struct.get("history"):
        tags.append("reused:" + struct["history"]["origin"])
    try:
        with case_watchdog(60):
            extra_mism: list[dict] = []
            writing = struct.get("writing")
            if struct.get("history"):
                ds, sections = run_history(rec, struct, text)
            elif writing and writing["placement"] != "argument":
                ds, sections, extra_mism = run_from_source(rec, struct, text)
            else:
                parent = parent_object(struct)
                ds = griffe.Docstring(text, lineno=1, endlineno=1 + text.count("\n"), parent=parent)
                sections = ds.parse(style, **struct["options"])
            rec.count("structures_parsed")
            lines_now, lines_want = ds.lines, inspect.cleandoc(text.rstrip()).split("\n")
            obs = obs_raw = observe(sections)
            kept_ws: list[str] = []
            if writing:
                obs, kept_ws = without_kept_whitespace(obs, style, struct["options"])
                obs = blank_is_blank(obs)
            tree = tree_raw = json.loads(json.dumps(sections, cls=griffe.JSONEncoder))
            if kept_ws:
                tree = tree_without_kept_whitespace(tree)
            rec.count("json_roundtrips")
            entry_mism: list[dict] = []
            if struct.get("entries"):
                entry_mism = run_entries(rec, struct, text, expect(struct), obs_raw, tree_raw)
    except CaseTimeout:
        rec.inconclusive(case, "per-case wall-clock watchdog fired")
        return
    except HarnessError as exc:
        rec.fail(case, "harness: could not set up the case (object history / entry point)", observed=str(exc), expected="the object carries the docstring written for it",
                 nontrivial=nt, tags=tags)
        return
    except Exception as exc:  # noqa: BLE001
        rec.fail_exc(case, f"{style} parser raised on a well-formed docstring", exc, nontrivial=nt, tags=tags, tried=ALL_FINDINGS)
        return
    if struct["parent"].get("spelling") and any(struct["fallback"]["returns_like"].values()):
        # independent ground truth for "which part of the signature does an untyped item document": CPython itself
        try:
            confirmed, detail = cpython_signature_parts(struct)
        except Exception as exc:  # noqa: BLE001
            confirmed, detail = False, f"CPython could not evaluate the generated parent: {type(exc).__name__}: {exc}"
        if not confirmed:
            rec.fail(case, "harness: the model of the signature fallback disagrees with CPython", observed=detail,
                     expected="typing.get_type_hints / get_origin / get_args of the parent agree with the model", nontrivial=nt, tags=tags)
            return
        rec.count("cpython_signature_parts_confirmed")
        rec.add_to_set("wrapper_spellings_compared", struct["parent"]["spelling"]["id"]
                       + ("+quoted" if struct["parent"]["spelling"]["quoted"] else "") + ("+future" if struct["parent"]["spelling"]["future"] else ""))
    exp = expect(struct)
    mism = compare(style, exp, obs, rec) + extra_mism + entry_mism
    if writing:
        count_writing(rec, writing, lines_want)
    rec.count("lines_compared_with_value")
    if lines_now != lines_want:         # CPython's str.split over the text the object holds
        mism.append({"path": ["lines"], "what": "Docstring.lines is not the text the object holds, split at newlines",
                     "observed": lines_now[:6], "expected": lines_want[:6]})
    if not mism:
        # conservation: every token sits exactly where it was written (also guards the comparison above against blind spots)
        want = token_paths(expected_token_tree(exp))
        got = token_paths(tree)
        rec.count("tokens_conserved", len(want))
        if want != got:
            bad = sorted(t for t in set(want) | set(got) if want.get(t) != got.get(t))[:5]
            mism = [{"path": ["tokens"], "what": "token conservation (lost / duplicated / leaked)",
                     "observed": {t: got.get(t) for t in bad}, "expected": {t: want.get(t) for t in bad}}]
        if style != "sphinx" and [d.get("kind") for d in tree] != [e["kind"] for e in exp]:
            mism.append({"path": ["json"], "what": "kinds in the JSON form differ from the live sections", "observed": [d.get("kind") for d in tree],
                         "expected": [e["kind"] for e in exp]})
    if mism:
        fid = classify(struct, exp, obs, mism)
        rec.fail(case, f"{style}: parsed structure differs from the written one: " + "; ".join(sorted({m['what'] for m in mism}))[:200],
                 observed=mism[:6], expected="the generating structure (see struct)", finding=fid, nontrivial=nt, tags=tags, tried=ALL_FINDINGS)
    elif kept_ws:
        # everything else is exactly as written (full oracle above, token conservation included): only the named defect remains
        rec.fail(case, f"{style}: whitespace-only separator lines came back as content", observed=kept_ws[:8],
                 expected="the same sections as with empty blank lines", finding=WS_KEPT, nontrivial=nt, tags=tags, tried=ALL_FINDINGS)
    else:
        for s in obs:
            rec.add_to_set("section_kinds_compared", f"{style}:{s['kind']}")
        if struct["options"]:
            bools = {"google": GOOGLE_BOOLS, "numpy": NUMPY_BOOLS, "sphinx": SPHINX_BOOLS}[style]
            rec.add_to_set(f"{style}_option_combinations", "".join("1" if struct["options"].get(n) else "0" for n in bools))
        rec.ok(case, nontrivial=nt, tags=tags)


def count_writing(rec, w: dict, lines: list[str]) -> None:  # noqa: ANN001
    """What the whitespace layer really exercised, read off the cleaned text the parser saw."""
    rec.count("whitespace_written_cases_judged")
    residual = [i for i, ln in enumerate(lines) if ln and not ln.strip()]
    if residual:
        rec.count("cases_with_whitespace_only_lines_after_cleandoc")
        rec.count("whitespace_only_lines_parsed", len(residual))

    def next_content(i: int) -> str | None:
        return next((ln for ln in lines[i + 1:] if ln.strip()), None)

    above_flush = [i for i in residual if (next_content(i) or " ")[0] != " "]
    if above_flush:
        rec.count("cases_with_whitespace_only_line_above_an_unindented_line")      # section / admonition titles, prose, fields
    if any((next_content(i) or "x")[0] == " " for i in residual):
        rec.count("cases_with_whitespace_only_line_inside_an_indented_block")      # item descriptions, examples, admonition bodies
    if any("\f" in f for f in w["fills"]) or any("\f" in t for t in w["tail"]):
        rec.count("form_feed_cases_judged")
    if w["margin_style"] != "spaces" or any("\t" in f for f in w["fills"]):
        rec.count("tab_cases_judged")
    if w["open"] != "same-line":
        rec.count("text_opening_on_the_next_line_cases_judged")
    if w["tail"]:
        rec.count("trailing_whitespace_line_cases_judged")
    rec.add_to_set("margins_written", f"{w['margin']}:{w['margin_style']}")


HOSTILE = {"google": ["google-paren-colon", "google-attr-leak"], "numpy": ["numpy-documented-alias", "numpy-lone-name"], "sphinx": ["sphinx-type-after"]}


def shards(tier: str, seed: int) -> list[dict]:
    per = STRUCTURES[tier] // (NSHARDS // 3)
    return [{"kind": "structures", "style": STYLES[i % 3], "count": per} for i in range(NSHARDS)]


def run_shard(spec: dict, rec) -> None:  # noqa: ANN001
    rng = random.Random(spec["seed"])
    erng = random.Random(spec["seed"] * 7919 + 13)      # the entry points have their own stream: the structures stay what they were
    style = spec["style"]
    for _ in range(spec["count"]):
        hostile = rng.choice(HOSTILE[style]) if rng.random() < 0.08 else None
        struct = gen_struct(rng, style, hostile)
        if rng.random() < REUSE_SHARE:
            struct["history"] = gen_history(rng, struct)
        if rng.random() < WRITING_SHARE:
            struct["writing"] = gen_writing(rng, struct)
        struct["entries"] = gen_entries(erng, struct)
        run_case(rec, struct)


def run_replay(inp: dict, rec) -> None:  # noqa: ANN001
    run_case(rec, inp["struct"])


def run_pinned(findings: list[dict], rec) -> dict:  # noqa: ANN001
    from vf.core.rec import Recorder

    out = {}
    for f in findings:
        sub = Recorder(PROP, {})
        run_case(sub, f["witness"]["struct"])
        hit = sub.known.get(f["id"])
        if hit:
            detail = hit["first"]["what"] + ": " + json.dumps(hit["first"]["observed"])[:200]
        elif sub.fails:
            detail = ("fails, classified as " + str(sub.fails[0]["classifier"]["matched"]) + ": " + sub.fails[0]["what"]
                      + " " + json.dumps(sub.fails[0]["observed"])[:160])
        else:
            detail = "passes"
        out[f["id"]] = {"reproduced": bool(hit) or bool(sub.fails and sub.fails[0]["classifier"]["matched"] == f["id"]), "detail": detail}
    return out
