"""M-GIT / M-FS / M-INJ-FP for C20: scratch repositories, repository snapshots, git failpoints.

Everything here works on scratch repositories below a ``tempfile.mkdtemp()`` directory; no git command is
ever run inside ``/repo`` or ``/verif``.  No global git configuration is needed or read
(``GIT_CONFIG_GLOBAL=/dev/null`` …, identity through ``GIT_AUTHOR_*`` / ``GIT_COMMITTER_*``).
"""
from __future__ import annotations

import errno
import hashlib
import os
import shutil
import subprocess as _real_subprocess
import types

GIT_ENV = {
    "GIT_CONFIG_GLOBAL": "/dev/null", "GIT_CONFIG_SYSTEM": "/dev/null", "GIT_CONFIG_NOSYSTEM": "1",
    "GIT_AUTHOR_NAME": "vf", "GIT_AUTHOR_EMAIL": "vf@example.invalid",
    "GIT_COMMITTER_NAME": "vf", "GIT_COMMITTER_EMAIL": "vf@example.invalid",
    "GIT_TERMINAL_PROMPT": "0", "LC_ALL": "C", "GIT_ADVICE": "0",
}
BASE_CFG = ["-c", "user.name=vf", "-c", "user.email=vf@example.invalid", "-c", "init.defaultBranch=main",
            "-c", "commit.gpgsign=false", "-c", "core.hooksPath=/dev/null", "-c", "gc.auto=0", "-c", "advice.detachedHead=false"]
EPOCH = 1_700_000_000


def export_env() -> None:
    """Make griffe's own git invocations independent of any global configuration."""
    for k in ("GIT_DIR", "GIT_WORK_TREE", "GIT_INDEX_FILE"):
        os.environ.pop(k, None)
    os.environ.update(GIT_ENV)


def git(repo: str, *args: str, check: bool = True, date: int | None = None, optional_locks: bool = True) -> str:
    env = dict(os.environ)
    env.update(GIT_ENV)
    if date is not None:
        env["GIT_AUTHOR_DATE"] = env["GIT_COMMITTER_DATE"] = f"{date} +0000"
    if not optional_locks:
        env["GIT_OPTIONAL_LOCKS"] = "0"
    proc = _real_subprocess.run(["git", *BASE_CFG, "-C", repo, *args], env=env, capture_output=True, check=False,
                                stdin=_real_subprocess.DEVNULL)
    if check and proc.returncode:
        raise RuntimeError(f"harness git {' '.join(args)} failed in {repo}: {proc.stderr.decode(errors='replace')[-400:]}")
    return proc.stdout.decode(errors="replace")


# ------------------------------------------------------------------------------------------
# building a repository from a literal history
def write_files(root: str, files: dict) -> None:
    """``files``: relative path -> text | None (delete) | {"symlink": target} (a symbolic link, tracked like any file)."""
    for rel, content in files.items():
        p = os.path.join(root, rel)
        if os.path.islink(p) or (content is None and os.path.lexists(p)) or (isinstance(content, dict) and os.path.lexists(p)):
            os.unlink(p)  # a path may change its type (link <-> regular file) between two commits
        if content is None:
            continue
        os.makedirs(os.path.dirname(p), exist_ok=True)
        if isinstance(content, dict):
            os.symlink(content["symlink"], p)
            continue
        with open(p, "w", encoding="utf8") as fh:
            fh.write(content)


def build_repo(history: dict, path: str) -> None:
    """Create the repository described by ``history`` (see vf.checks.c20.gen_history) at ``path``."""
    os.makedirs(path)
    git(path, "init", "-q", ".")
    for i, commit in enumerate(history["commits"]):
        write_files(path, commit["files"])
        git(path, "add", "-A")
        git(path, "commit", "-q", "--allow-empty", "-m", commit.get("msg", f"commit {i}"), date=EPOCH + i * 1000)
        for tag in commit.get("tags", []):
            git(path, "tag", tag, date=EPOCH + i * 1000 + 1)
        for tag in commit.get("annotated_tags", []):
            git(path, "tag", "-a", tag, "-m", f"release {tag}", date=EPOCH + i * 1000 + 2)
        for branch in commit.get("branches", []):
            git(path, "branch", branch)
    for j, side in enumerate(history.get("side", [])):
        git(path, "checkout", "-q", "-b", side["branch"], f"main~{len(history['commits']) - 1 - side['from']}")
        write_files(path, side["files"])
        git(path, "add", "-A")
        git(path, "commit", "-q", "-m", f"side {j}", date=EPOCH + 50_000 + j * 1000)
        git(path, "checkout", "-q", "main")
    for name in history.get("pre_branches", []):
        git(path, "branch", name, "main~1")
    head = history.get("head", {"mode": "branch", "at": "main"})
    if head["mode"] == "branch":
        if head["at"] != "main":
            git(path, "checkout", "-q", head["at"])
    else:
        git(path, "checkout", "-q", "--detach", head["at"])
    if history.get("stash"):
        write_files(path, history["stash"])
        git(path, "stash", "push", "-q", "-m", "user stash", date=EPOCH + 90_000)
    if history.get("staged"):
        write_files(path, history["staged"])
        git(path, "add", *history["staged"])
    write_files(path, history.get("dirty", {}))
    write_files(path, history.get("untracked", {}))


# ------------------------------------------------------------------------------------------
# snapshots
def tree_hash(root: str) -> tuple[str, list[str]]:
    """Content hash of the working tree (everything except ``.git``), plus the list of entries."""
    h = hashlib.blake2b(digest_size=12)
    entries = []
    for base, dirs, names in os.walk(root):
        dirs.sort()
        if base == root and ".git" in dirs:
            dirs.remove(".git")
        for d in dirs:
            dp = os.path.join(base, d)
            entries.append(os.path.relpath(dp, root) + "/")
            if os.path.islink(dp):  # a symbolic link to a directory: os.walk lists it here and does not follow it
                h.update(os.path.relpath(dp, root).encode() + b"\0->" + os.readlink(dp).encode() + b"\0")
        for n in sorted(names):
            p = os.path.join(base, n)
            rel = os.path.relpath(p, root)
            entries.append(rel)
            h.update(rel.encode() + b"\0")
            try:
                st = os.lstat(p)
                h.update(str(st.st_mode).encode() + b"\0")
                if os.path.islink(p):
                    h.update(os.readlink(p).encode())
                else:
                    with open(p, "rb") as fh:
                        h.update(fh.read())
            except OSError as exc:
                h.update(repr(exc).encode())
            h.update(b"\0")
    entries.sort()
    h.update("\n".join(entries).encode())
    return h.hexdigest(), entries


def snapshot(repo: str) -> dict:
    """Everything the statement says must be 'exactly as it was' in the user's repository."""
    def g(*a, check=False):  # noqa: ANN001, ANN002, ANN202
        return git(repo, *a, check=check, optional_locks=False)

    thash, entries = tree_hash(repo)
    wt_dir = os.path.join(repo, ".git", "worktrees")
    return {
        "HEAD": g("rev-parse", "HEAD").strip(),
        "symbolic-ref": g("symbolic-ref", "-q", "HEAD").strip() or "(detached)",
        "for-each-ref": g("for-each-ref", "--format=%(refname) %(objectname)").splitlines(),
        "status": g("status", "--porcelain=v2", "--untracked-files=all", "--branch").splitlines(),
        "worktree-list": g("worktree", "list", "--porcelain").splitlines(),
        "stash-list": g("stash", "list").splitlines(),
        "index": hashlib.blake2b(g("ls-files", "-s").encode(), digest_size=8).hexdigest(),
        "tree-hash": thash,
        "tree-entries": entries,
        "admin-worktrees": sorted(os.listdir(wt_dir)) if os.path.isdir(wt_dir) else [],
    }


def snapshot_diff(before: dict, after: dict) -> dict:
    out = {}
    for k in before:
        if before[k] != after.get(k):
            a, b = before[k], after.get(k)
            if isinstance(a, list) and isinstance(b, list):
                out[k] = {"added": [x for x in b if x not in a][:12], "removed": [x for x in a if x not in b][:12]}
            else:
                out[k] = {"before": a, "after": b}
    return out


# ------------------------------------------------------------------------------------------
# what git itself stores at a commit (ground truth for the source lines of objects loaded from that commit)
class GitTree:
    """The tree of one commit as git stores it: modes, blobs, symbolic links followed the way POSIX path resolution
    would follow them inside a checkout of that tree (a link leaving the tree, a loop or a dangling link resolves to None)."""

    def __init__(self, repo: str, commit: str) -> None:
        self.repo = repo
        self.commit = commit
        self.entries: dict[str, tuple[str, str]] = {}
        self.dirs: set[str] = {""}
        raw = git(repo, "ls-tree", "-r", "-z", "--full-tree", commit)
        for rec in raw.split("\0"):
            if not rec:
                continue
            meta, _, path = rec.partition("\t")
            mode, _kind, sha = meta.split()
            self.entries[path] = (mode, sha)
            parts = path.split("/")
            for i in range(1, len(parts)):
                self.dirs.add("/".join(parts[:i]))
        self._blobs: dict[str, str] = {}

    def blob(self, sha: str) -> str:
        if sha not in self._blobs:
            env = dict(os.environ)
            env.update(GIT_ENV)
            proc = _real_subprocess.run(["git", "-C", self.repo, "cat-file", "blob", sha], env=env, capture_output=True,
                                        check=True, stdin=_real_subprocess.DEVNULL)
            self._blobs[sha] = proc.stdout.decode("utf8")
        return self._blobs[sha]

    def resolve(self, relpath: str) -> tuple[str | None, int]:
        """(path of the regular file or directory that ``relpath`` designates in a checkout | None, links followed)."""
        todo = [p for p in relpath.split("/") if p not in ("", ".")]
        done: list[str] = []
        hops = 0
        while todo:
            part = todo.pop(0)
            if part == "..":
                if not done:
                    return None, hops  # leaves the tree
                done.pop()
                continue
            cur = "/".join([*done, part])
            if cur in self.entries:
                mode, sha = self.entries[cur]
                if mode == "120000":
                    hops += 1
                    if hops > 40:
                        return None, hops
                    target = self.blob(sha)
                    if target.startswith("/"):
                        return None, hops
                    todo = [p for p in target.split("/") if p not in ("", ".")] + todo
                    continue
                if todo:
                    return None, hops  # a regular file used as a directory
                return cur, hops
            if cur in self.dirs:
                done.append(part)
                continue
            return None, hops
        return "/".join(done), hops

    def text(self, relpath: str) -> tuple[str | None, int]:
        """(text of the file ``relpath`` designates at this commit | None, number of symbolic links followed)."""
        final, hops = self.resolve(relpath)
        if final is None or final not in self.entries:
            return None, hops
        return self.blob(self.entries[final][1]), hops


def commit_of(repo: str, ref: str) -> str | None:
    """The commit a ref designates in the user's repository (None: git does not know it)."""
    out = git(repo, "rev-parse", "--verify", "-q", ref + "^{commit}", check=False, optional_locks=False).strip()
    return out or None


# ------------------------------------------------------------------------------------------
# failpoints on _griffe.git.subprocess


def shape(argv) -> str:  # noqa: ANN001
    """Command shape without paths / option values: 'worktree add', 'rev-parse --is-inside-work-tree', ..."""
    words = [str(a) for a in argv[1:]]
    out: list[str] = []
    skip = False
    for w in words:
        if skip:
            skip = False
        elif w == "-C":
            skip = True
        else:
            out.append(w)
    return " ".join(out[:2])


def is_cleanup(argv) -> bool:  # noqa: ANN001
    return shape(argv) in {"worktree remove", "worktree prune", "branch -D"}


class GitFailpoints(types.ModuleType):
    """Stands in for the ``subprocess`` module *inside ``_griffe.git`` only*.

    ``run`` / ``check_output`` calls are counted (cleanup commands excluded and never disturbed); the
    ``at``-th one fails according to ``kind``:

    * ``fail``        — the command is not executed and reports a non-zero status
    * ``raise``       — the command is not executed and ``OSError`` is raised (fork/exec failure)
    * ``int-before``  — ``KeyboardInterrupt`` is raised instead of executing the command
    * ``int-after``   — the command is really executed, then ``KeyboardInterrupt`` is raised
    """

    def __init__(self, at: int | None = None, kind: str | None = None) -> None:
        super().__init__("subprocess")
        self.at = at
        self.kind = kind
        self.n = 0
        self.log: list[dict] = []
        self.fired: dict | None = None
        self.unclean_before_remove: list[str] | None = None

    def __getattr__(self, name: str):  # noqa: ANN204
        return getattr(_real_subprocess, name)

    def _step(self, argv, call, check: bool, text: bool):  # noqa: ANN001, ANN202
        argv = [str(a) for a in argv]
        if is_cleanup(argv):
            if "remove" in argv:
                loc = argv[argv.index("remove") + 1:]
                loc = [a for a in loc if not a.startswith("-")]
                if loc and os.path.isdir(loc[0]):
                    st = git(loc[0], "status", "--porcelain", "--untracked-files=all", check=False, optional_locks=False)
                    self.unclean_before_remove = st.splitlines()
            result = call()
            self.log.append({"cmd": shape(argv), "status": getattr(result, "returncode", 0), "cleanup": True})
            return result
        self.n += 1
        entry = {"cmd": shape(argv), "step": self.n, "cleanup": False}
        self.log.append(entry)
        if self.at == self.n:
            self.fired = entry
            entry["fault"] = self.kind
            if self.kind == "fail":
                entry["status"] = 128
                if check:
                    raise _real_subprocess.CalledProcessError(128, argv, output=b"", stderr=b"fatal: injected failure")
                return _real_subprocess.CompletedProcess(argv, 128, "" if text else b"",
                                                         "fatal: injected failure" if text else b"fatal: injected failure")
            if self.kind == "raise":
                entry["status"] = "OSError"
                raise OSError(errno.EAGAIN, "injected: cannot start git")
            if self.kind == "int-before":
                entry["status"] = "KeyboardInterrupt"
                raise KeyboardInterrupt
        try:
            result = call()
        except _real_subprocess.CalledProcessError as exc:
            entry["status"] = exc.returncode
            raise
        entry["status"] = getattr(result, "returncode", 0)
        if self.at == self.n and self.kind == "int-after":
            entry["then"] = "KeyboardInterrupt"
            raise KeyboardInterrupt
        return result

    def run(self, argv, **kw):  # noqa: ANN001, ANN003, ANN201
        return self._step(argv, lambda: _real_subprocess.run(argv, **kw), bool(kw.get("check")),
                          bool(kw.get("text") or kw.get("universal_newlines")))

    def check_output(self, argv, **kw):  # noqa: ANN001, ANN003, ANN201
        return self._step(argv, lambda: _real_subprocess.check_output(argv, **kw), True, bool(kw.get("text")))

    def non_cleanup_steps(self) -> int:
        return self.n

    def cleanup_issued(self) -> list[dict]:
        return [e for e in self.log if e["cleanup"]]


def copy_repo(src: str, dst: str) -> None:
    shutil.copytree(src, dst, symlinks=True)
