"""M-INJ-LS: directory-listing order injection.

Griffe's finder reads directories through exactly two calls (``pathlib.Path.iterdir`` in
``ModuleFinder._contents`` / ``_handle_editable_module`` and ``os.walk`` in
``ModuleFinder._filter_py_modules``; the loader itself lists nothing).  Both are wrapped here;
``os.listdir`` / ``os.scandir`` are wrapped as well so that a change of the code under test to one
of those is still under the monitor's control (``os.walk`` and ``Path.iterdir`` are wrapped at
their own level, so nothing is permuted twice in a way that matters: a permutation of a
permutation is a permutation).

The order is a pure function of ``(seed, k, directory, sorted entry names)``:

* ``k == 0``: ascending by name, ``k == 1``: descending;
* a listing with ``n <= 4`` entries gets the ``(k mod n!)``-th permutation of the sorted names, so
  ``K >= 24`` runs enumerate *all* orders of every such directory (``K >= 6``: every directory with
  ``<= 3`` entries);
* larger listings are shuffled with ``random.Random(f(seed, k, directory))``.

For ``os.walk`` the ``dirs`` and ``files`` lists are permuted separately and *in place* before the
caller sees them (top-down walks then descend in the permuted order).
"""
from __future__ import annotations

import itertools
import math
import os
import pathlib
import random
import zlib
from contextlib import contextmanager

_REAL_WALK = os.walk
_REAL_ITERDIR = pathlib.Path.iterdir
_REAL_LISTDIR = os.listdir
_REAL_SCANDIR = os.scandir


class ListingOrder:
    """The permutation policy + counters of what was really permuted."""

    def __init__(self, seed: int = 0) -> None:
        self.seed = seed
        self.k = 0
        self.active = False
        self.calls = {"walk": 0, "iterdir": 0, "listdir": 0, "scandir": 0}
        self.permuted = 0          # listings with >= 2 entries that were handed out
        self.max_entries = 0
        self.only_under: str | None = None
        self.policy = None         # optional callable(directory, sorted_names) -> list: replaces the k-based policy

    def applies(self, directory: str) -> bool:
        if not self.active:
            return False
        if self.only_under is None:
            return True
        d = os.fspath(directory)
        if isinstance(d, bytes):
            return False
        return d == self.only_under or d.startswith(self.only_under + os.sep)

    def order(self, directory: str, names: list[str]) -> list[str]:
        names = sorted(names)
        n = len(names)
        if n > self.max_entries:
            self.max_entries = n
        if n < 2:
            return names
        self.permuted += 1
        if self.policy is not None:
            return list(self.policy(directory, names))
        if self.k == 0:
            return names
        if self.k == 1:
            return names[::-1]
        if n <= 4:
            idx = self.k % math.factorial(n)
            return list(next(itertools.islice(itertools.permutations(names), idx, None)))
        rng = random.Random(zlib.crc32(f"{self.seed}|{self.k}|{directory}".encode()))
        rng.shuffle(names)
        return names


ORDER = ListingOrder()


def _walk(top, topdown=True, onerror=None, followlinks=False):  # noqa: ANN001, FBT002
    if not ORDER.applies(top):
        yield from _REAL_WALK(top, topdown=topdown, onerror=onerror, followlinks=followlinks)
        return
    ORDER.calls["walk"] += 1
    for root, dirs, files in _REAL_WALK(top, topdown=topdown, onerror=onerror, followlinks=followlinks):
        dirs[:] = ORDER.order(root + "|d", dirs)
        files[:] = ORDER.order(root + "|f", files)
        yield root, dirs, files


def _iterdir(self):  # noqa: ANN001
    if not ORDER.applies(str(self)):
        yield from _REAL_ITERDIR(self)
        return
    ORDER.calls["iterdir"] += 1
    by_name = {p.name: p for p in _REAL_ITERDIR(self)}
    for name in ORDER.order(str(self), list(by_name)):
        yield by_name[name]


def _listdir(path="."):  # noqa: ANN001
    out = _REAL_LISTDIR(path)
    if isinstance(path, (str, os.PathLike)) and not isinstance(os.fspath(path), bytes) and ORDER.applies(os.fspath(path)):
        ORDER.calls["listdir"] += 1
        return ORDER.order(os.fspath(path), out)
    return out


class _ScandirList:
    def __init__(self, entries) -> None:  # noqa: ANN001
        self._it = iter(entries)

    def __iter__(self):
        return self

    def __next__(self):
        return next(self._it)

    def close(self) -> None:
        pass

    def __enter__(self):
        return self

    def __exit__(self, *a) -> None:  # noqa: ANN002
        pass


def _scandir(path="."):  # noqa: ANN001
    if isinstance(path, (str, os.PathLike)) and not isinstance(os.fspath(path), bytes) and ORDER.applies(os.fspath(path)):
        ORDER.calls["scandir"] += 1
        with _REAL_SCANDIR(path) as it:
            by_name = {e.name: e for e in it}
        return _ScandirList([by_name[n] for n in ORDER.order(os.fspath(path), list(by_name))])
    return _REAL_SCANDIR(path)


def install() -> None:
    """Idempotent. The wrappers are transparent unless a ``shuffled(...)`` block is active."""
    if os.walk is not _walk:
        os.walk = _walk
        pathlib.Path.iterdir = _iterdir


def install_low_level() -> None:
    """Also wrap os.listdir / os.scandir (for code that would bypass os.walk / Path.iterdir)."""
    os.listdir = _listdir
    os.scandir = _scandir


def uninstall() -> None:
    os.walk = _REAL_WALK
    pathlib.Path.iterdir = _REAL_ITERDIR
    os.listdir = _REAL_LISTDIR
    os.scandir = _REAL_SCANDIR


@contextmanager
def shuffled(k: int, seed: int = 0, only_under: str | None = None, policy=None):  # noqa: ANN001
    """Listing order number ``k`` (or the custom ``policy(directory, sorted_names)``) is in force inside the block
    (only below ``only_under`` when given)."""
    install()
    prev = (ORDER.active, ORDER.k, ORDER.seed, ORDER.only_under, ORDER.policy)
    ORDER.active, ORDER.k, ORDER.seed, ORDER.only_under, ORDER.policy = True, k, seed, only_under, policy
    try:
        yield ORDER
    finally:
        ORDER.active, ORDER.k, ORDER.seed, ORDER.only_under, ORDER.policy = prev
