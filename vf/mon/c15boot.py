"""Bootstrap for the C15 command-line leg: ``python -m vf.mon.c15boot OUT PREFIX NAMES -- <griffe args>``.

Installs the execution witnesses (audit hook + sys.monitoring) and the state snapshot, then runs the real
``python -m griffe`` entry module (``griffe/__main__.py``) with ``runpy`` exactly as ``-m`` would, and writes
what was observed to ``OUT`` as JSON.  Nothing of the repository is patched.
"""
from __future__ import annotations

import json
import os
import runpy
import sys


def main() -> int:
    out, prefix, names = sys.argv[1:4]
    args = sys.argv[5:]
    from vf.mon.audit import ExecWitness, StateSnapshot

    owned = [n for n in names.split(",") if n]
    witness = ExecWitness()
    witness.install(prefix)
    import griffe  # noqa: F401  (imported before the snapshot: only the analysed package is under watch)

    repo_src = os.path.join(os.path.realpath(os.environ.get("VERIF_REPO", "/repo")), "src")
    from_repo = os.path.realpath(griffe.__file__).startswith(repo_src + os.sep)
    sys.argv = ["griffe", *args]
    snap = StateSnapshot()
    witness.arm(owned)
    code: object = None
    error = None
    try:
        runpy.run_module("griffe", run_name="__main__", alter_sys=True)
    except SystemExit as exc:
        code = exc.code
    except BaseException as exc:  # noqa: BLE001
        error = f"{type(exc).__name__}: {exc}"[:500]
    seen = witness.disarm()
    doc = {"exit": code, "error": error, "witness": seen, "mon_active": witness.mon_active,
           "audit_events": witness.total_events, "from_repo": from_repo,
           "path_delta": snap.path_delta(), "other_delta": snap.other_delta(set(owned), witness.prefix)}
    with open(out, "w") as fh:
        json.dump(doc, fh)
    return 0


if __name__ == "__main__":
    sys.exit(main())
