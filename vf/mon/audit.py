"""M-AUD / M-STATE for C15: witnesses of *execution* of code that lives in a generated tree.

Three independent witnesses, all attached from outside the repository:

* ``sys.addaudithook``  — ``import`` events whose module name belongs to the owned top-level names,
  ``exec`` events whose code object's ``co_filename`` lies under the owned directory (this is what the
  import machinery raises right before running a module body), ``compile`` events for files of the tree
  (informational: the static visitor *parses* files with ``compile(..., PyCF_ONLY_AST)``, parsing is not
  execution).
* ``sys.monitoring`` ``PY_START`` (tool id 2; the core uses 3 and 4) for code objects whose
  ``co_filename`` lies under the owned directory.
* process state snapshots: ``sys.path`` (identity and contents), ``sys.modules`` keys, ``sys.meta_path``,
  cwd, environment.

Audit hooks cannot be removed, therefore the hook is installed once per process and only looks at events
while ``armed``; it is a handful of comparisons per event.
"""
from __future__ import annotations

import os
import sys

TOOL_ID = 2  # sys.monitoring.PROFILER_ID; vf.core.mon uses 3 and 4


class ExecWitness:
    def __init__(self) -> None:
        self.armed = False
        self.prefix = "\0"          # directory prefix (with trailing separator) of the generated trees
        self.names: frozenset[str] = frozenset()   # owned top-level module names
        self.imports: list[str] = []
        self.execs: list[str] = []
        self.compiles = 0
        self.starts: list[str] = []
        self.installed = False
        self.mon_active = False
        self.total_events = 0

    # -- installation -------------------------------------------------------------------
    def install(self, prefix: str) -> None:
        self.prefix = os.path.join(os.path.realpath(prefix), "")
        if self.installed:
            return
        sys.addaudithook(self._hook)
        mon = sys.monitoring
        try:
            mon.use_tool_id(TOOL_ID, "vf-c15-exec")
            mon.register_callback(TOOL_ID, mon.events.PY_START, self._py_start)
            mon.set_events(TOOL_ID, mon.events.PY_START)
            self.mon_active = True
        except ValueError:
            self.mon_active = False
        self.installed = True

    # -- callbacks (must never raise) ---------------------------------------------------
    def _hook(self, event: str, args: tuple) -> None:
        if not self.armed:
            return
        if event == "import":
            self.total_events += 1
            name = args[0]
            if isinstance(name, str) and name.partition(".")[0] in self.names:
                self.imports.append(name)
        elif event == "exec":
            self.total_events += 1
            fn = getattr(args[0], "co_filename", None)
            if isinstance(fn, str) and fn.startswith(self.prefix):
                self.execs.append(fn[len(self.prefix):])
        elif event == "compile":
            self.total_events += 1
            fn = args[1] if len(args) > 1 else None
            if isinstance(fn, bytes):
                fn = os.fsdecode(fn)
            if isinstance(fn, str) and fn.startswith(self.prefix):
                self.compiles += 1

    def _py_start(self, code, offset):  # noqa: ANN001, ARG002
        if code.co_filename.startswith(self.prefix):
            if self.armed:
                self.starts.append(code.co_filename[len(self.prefix):] + "::" + code.co_qualname)
            return None
        return sys.monitoring.DISABLE

    # -- windows ------------------------------------------------------------------------
    def arm(self, names) -> None:  # noqa: ANN001
        self.names = frozenset(names)
        self.imports = []
        self.execs = []
        self.starts = []
        self.compiles = 0
        self.armed = True

    def disarm(self) -> dict:
        self.armed = False
        return {"imports": list(self.imports), "execs": list(self.execs), "py_starts": list(self.starts),
                "compiles": self.compiles}


class StateSnapshot:
    """M-STATE: process-global interpreter state that a load must not disturb."""

    def __init__(self) -> None:
        self.path_obj = sys.path
        self.path_id = id(sys.path)
        self.path = list(sys.path)
        self.modules = set(sys.modules)
        self.meta_obj = sys.meta_path
        self.meta = list(sys.meta_path)
        self.hooks = list(sys.path_hooks)
        self.cwd = os.getcwd()
        self.env = dict(os.environ)

    def path_delta(self) -> list[str]:
        """Differences of the import path (the part of the statement that holds on *every* outcome)."""
        out = []
        if sys.path is not self.path_obj:
            out.append("sys.path is a different list object")
        if list(sys.path) != self.path:
            now = list(sys.path)
            added = [p for p in now if p not in self.path]
            removed = [p for p in self.path if p not in now]
            out.append(f"sys.path contents changed: added={added!r} removed={removed!r}"
                       + ("" if added or removed else " (reordered)"))
        return out

    def other_delta(self, owned_names, prefix: str) -> list[str]:  # noqa: ANN001
        """Differences of the rest of the state (judged only when dynamic analysis is disallowed)."""
        out = []
        new = set(sys.modules) - self.modules
        owned = sorted(k for k in new if k.partition(".")[0] in owned_names)
        if owned:
            out.append(f"sys.modules gained {owned!r}")
        for k in new:
            f = getattr(sys.modules.get(k), "__file__", None)
            if isinstance(f, str) and f.startswith(prefix) and k not in owned:
                out.append(f"sys.modules[{k!r}] loaded from the analysed tree ({f})")
        if sys.meta_path is not self.meta_obj or list(sys.meta_path) != self.meta:
            out.append("sys.meta_path changed")
        if list(sys.path_hooks) != self.hooks:
            out.append("sys.path_hooks changed")
        if os.getcwd() != self.cwd:
            out.append(f"cwd changed to {os.getcwd()}")
        env = dict(os.environ)
        if env != self.env:
            ch = sorted(set(env.items()) ^ set(self.env.items()))
            out.append(f"environment changed: {ch[:4]!r}")
        return out

    def restore(self, owned_names) -> None:  # noqa: ANN001
        """Harness hygiene after a case has been judged (never part of the verdict)."""
        if sys.path is not self.path_obj:
            sys.path = self.path_obj
        if list(sys.path) != self.path:
            sys.path[:] = self.path
        for k in [k for k in sys.modules if k.partition(".")[0] in owned_names]:
            del sys.modules[k]
        if sys.meta_path is not self.meta_obj:
            sys.meta_path = self.meta_obj
        sys.meta_path[:] = self.meta
        if os.getcwd() != self.cwd:
            os.chdir(self.cwd)
        for k in set(os.environ) - set(self.env):
            del os.environ[k]
        for k, v in self.env.items():
            if os.environ.get(k) != v:
                os.environ[k] = v
