"""M-REF: CPython itself as reference oracle, in a separate long-lived child interpreter.

The child never imports griffe.  Requests are JSON lines on stdin, replies JSON lines on stdout.
``import_package``: really import a generated package (and every sub-module found on disk) and
dump, per module, every name with the *defining identity* of its value.
"""
from __future__ import annotations

import json
import os
import subprocess
import sys

SERVER_CODE = r'''
import importlib, json, os, sys, types, inspect, traceback

# Dunder names the interpreter binds in a module by itself; every other name (dunder-shaped or not) was bound by a statement
# of the module or by an import side effect and is reported.
INTERPRETER_DUNDERS = frozenset(["__name__", "__doc__", "__package__", "__loader__", "__spec__", "__path__", "__file__",
                                 "__cached__", "__builtins__", "__annotations__", "__annotate__",
                                 "__conditional_annotations__", "__warningregistry__", "__firstlineno__",
                                 "__static_attributes__"])

def ident(v):
    if isinstance(v, types.ModuleType):
        return {"k": "module", "id": v.__name__}
    if isinstance(v, type):
        return {"k": "class", "id": (getattr(v, "__module__", None) or "?") + "." + v.__qualname__}
    if isinstance(v, (types.FunctionType, types.BuiltinFunctionType)):
        # bound builtin methods (e.g. `module.__dir__` inherited from the module type) have __module__ None
        return {"k": "function", "id": (getattr(v, "__module__", None) or "?") + "." + v.__qualname__}
    if isinstance(v, str):
        return {"k": "value", "id": v}
    return {"k": "other", "id": repr(v)[:80]}

def import_package(req):
    root, tops = req["root"], req["tops"]
    sys.path.insert(0, root)
    importlib.invalidate_caches()
    out = {"modules": {}, "errors": {}}
    try:
        names = []
        for top in tops:
            names.append(top)
            base = os.path.join(root, top)
            for dirpath, dirnames, filenames in os.walk(base):
                dirnames.sort(); filenames.sort()
                relp = os.path.relpath(dirpath, root).replace(os.sep, ".")
                for fn in filenames:
                    if fn.endswith(".py") and fn != "__init__.py":
                        names.append(relp + "." + fn[:-3])
                for d in dirnames:
                    if os.path.exists(os.path.join(dirpath, d, "__init__.py")):
                        names.append(relp + "." + d)
        entry = req.get("entry") or names
        for n in entry:
            try:
                importlib.import_module(n)
            except BaseException as e:
                out["errors"][n] = type(e).__name__ + ": " + str(e)[:300]
        for n in names:
            m = sys.modules.get(n)
            if m is None:
                continue
            d = {}
            for k, v in vars(m).items():
                if k in INTERPRETER_DUNDERS:
                    continue
                d[k] = ident(v)
            out["modules"][n] = {"names": d, "all": list(getattr(m, "__all__", None)) if hasattr(m, "__all__") else None,
                                 "doc": m.__doc__}
        if req.get("eval"):
            out["eval"] = {}
            for key, spec in req["eval"].items():
                try:
                    mod = sys.modules[spec["module"]]
                    scope = dict(vars(mod))
                    loc = {}
                    for cname in spec.get("classes", []):
                        obj = scope.get(cname) if not loc else loc.get(cname)
                        obj = (loc or scope)[cname]
                        loc = dict(vars(obj))
                    v = eval(spec["expr"], scope, loc)
                    out["eval"][key] = ident(v)
                except NameError:
                    out["eval"][key] = {"k": "unbound", "id": None}
                except BaseException as e:
                    out["eval"][key] = {"k": "error", "id": type(e).__name__ + ": " + str(e)[:200]}
    finally:
        for k in [k for k in sys.modules if any(k == t or k.startswith(t + ".") for t in tops)]:
            del sys.modules[k]
        if root in sys.path:
            sys.path.remove(root)
        importlib.invalidate_caches()
    return out

def main():
    sys.dont_write_bytecode = True
    for line in sys.stdin:
        req = json.loads(line)
        try:
            rep = {"ok": True, "result": globals()[req["op"]](req)}
        except BaseException as e:
            rep = {"ok": False, "error": traceback.format_exc()[-1500:]}
        sys.stdout.write(json.dumps(rep) + "\n")
        sys.stdout.flush()

main()
'''


class RefServer:
    def __init__(self) -> None:
        self.proc: subprocess.Popen | None = None
        self.requests = 0
        self.restarts = 0

    def _start(self) -> None:
        env = {k: v for k, v in os.environ.items() if k not in ("PYTHONPATH",)}
        env["PYTHONDONTWRITEBYTECODE"] = "1"
        self.proc = subprocess.Popen([sys.executable, "-I", "-c", SERVER_CODE], stdin=subprocess.PIPE, stdout=subprocess.PIPE,
                                     stderr=subprocess.DEVNULL, text=True, env=env)
        self.restarts += 1

    def call(self, op: str, **kw) -> dict:  # noqa: ANN003
        if self.proc is None or self.proc.poll() is not None:
            self._start()
        assert self.proc and self.proc.stdin and self.proc.stdout
        self.requests += 1
        try:
            self.proc.stdin.write(json.dumps({"op": op, **kw}) + "\n")
            self.proc.stdin.flush()
            line = self.proc.stdout.readline()
        except (BrokenPipeError, OSError):
            line = ""
        if not line:
            self.close()
            return {"ok": False, "error": "reference child died"}
        return json.loads(line)

    def import_package(self, root: str, tops: list[str], **kw) -> dict:  # noqa: ANN003
        return self.call("import_package", root=str(root), tops=tops, **kw)

    def close(self) -> None:
        if self.proc is not None:
            try:
                self.proc.kill()
            except OSError:
                pass
            self.proc = None
