"""bin/check entry: ``python -m vf.main <ID> [--tier quick|thorough] [--replay FILE]``."""
from __future__ import annotations

import argparse
import importlib
import os
import sys


def main() -> int:
    ap = argparse.ArgumentParser()
    ap.add_argument("prop")
    ap.add_argument("--tier", default=os.environ.get("VERIF_TIER") or "quick", choices=["quick", "thorough"])
    ap.add_argument("--replay")
    ap.add_argument("--seed", type=int, default=None)
    args = ap.parse_args()
    seed = args.seed if args.seed is not None else int(os.environ.get("VERIF_SEED", "0") or 0)
    from vf.core import driver

    check = importlib.import_module("vf.checks." + args.prop.lower())
    return driver.run(check, args.tier, seed, replay=args.replay)


if __name__ == "__main__":
    sys.exit(main())
