"""Generators shared by the docstring checks (C12 hostile texts, parent objects, option sets).

Everything is driven by an explicit ``random.Random``; nothing here imports Griffe except
``build_parents`` (which visits literal module sources so that docstrings get real parents).
"""
from __future__ import annotations

import random

# ------------------------------------------------------------------------------------------
# parents: small literal modules; a parent is addressed as (module key, dotted path) so that a
# replay file can carry the literal source of the one module it needs.
PARENT_MODULES: dict[str, str] = {
    "sigs": (
        '"""Module docstring."""\n'
        "from typing import Iterator, Generator\n"
        "import typing\n"
        "attr: int = 0\n"
        "other = 's'\n"
        "def f0(): ...\n"
        "def f1(a, b: int, c=3, *args, d: str = 'x', **kwargs) -> int: ...\n"
        "def f2(a: 'str', /, b: list[int] = [], *, flag: bool = False): ...\n"
        "def f3(*args: int, **kwargs: str) -> None: ...\n"
        "async def f4(self, x: int | None = None) -> 'int': ...\n"
    ),
    "rets": (
        "from typing import Iterator, Generator\n"
        "import typing\n"
        "def t0() -> tuple[()]: ...\n"
        "def t1() -> tuple[int]: ...\n"
        "def t2() -> tuple[int, str]: ...\n"
        "def t3() -> tuple[int, str, float]: ...\n"
        "def tv() -> tuple[int, ...]: ...\n"
        "def it0() -> Iterator[tuple[()]]: ...\n"
        "def it1() -> Iterator[tuple[int]]: ...\n"
        "def it2() -> Iterator[tuple[int, str]]: ...\n"
        "def it3() -> Iterator[tuple[int, str, float]]: ...\n"
        "def iti() -> Iterator[int]: ...\n"
        "def itb() -> Iterator: ...\n"
        "def g0() -> Generator: ...\n"
        "def g1() -> Generator[int]: ...\n"
        "def g2() -> Generator[int, str]: ...\n"
        "def g3() -> Generator[int, str, bool]: ...\n"
        "def gt0() -> Generator[tuple[()], tuple[()], tuple[()]]: ...\n"
        "def gt1() -> Generator[tuple[int], tuple[str], tuple[bool]]: ...\n"
        "def gt2() -> Generator[tuple[int, str], tuple[str, int], tuple[bool, int]]: ...\n"
        "def gt3() -> Generator[tuple[int, str, float], tuple[str, int, float], tuple[bool, int, float]]: ...\n"
        "def gs() -> 'Generator[int, str, None]': ...\n"
        "def ty() -> typing.Iterator[typing.Tuple[int, str]]: ...\n"
        "def rn() -> None: ...\n"
    ),
    "classes": (
        "import functools\n"
        "from typing import Iterator\n"
        "from vfp_missing import Base, helper\n"
        "class K:\n"
        '    """K."""\n'
        "    x: int = 0\n"
        "    y = 1\n"
        "    def __init__(self, a: int = 1, *args: str, flag: bool = False, **kw) -> None:\n"
        "        self.inst: str = ''\n"
        "    def meth(self, a, b: int = 2) -> tuple[int, str]: ...\n"
        "    @property\n"
        "    def prop(self) -> int: ...\n"
        "    @property\n"
        "    def tprop(self) -> tuple[int, str]: ...\n"
        "    @property\n"
        "    def gprop(self) -> Iterator[tuple[int, str]]: ...\n"
        "    @functools.cached_property\n"
        "    def cprop(self): ...\n"
        "    @staticmethod\n"
        "    def sm(a): ...\n"
        "    class Inner:\n"
        "        def __init__(self): ...\n"
        "class Sub(K):\n"
        "    z: str = ''\n"
        "    def __init__(self, q): ...\n"
        "class Ext(Base):\n"
        "    w: int = 0\n"
        "class Imp:\n"
        "    from vfp_missing import __init__\n"
        "    u: int = 0\n"
        "class NoInit:\n"
        "    __init__ = None\n"
        # statically cyclic hierarchies (every link single inheritance / through a two-base class / reached from outside):
        # the parsers consult parent.parameters and parent[name], which walk the MRO
        "class CycA(CycB):\n"
        "    a: int = 0\n"
        "class CycB(CycA):\n"
        "    def __init__(self, a: int): ...\n"
        "class CycC(CycD):\n"
        "    c: int = 0\n"
        "class CycD(CycE, K):\n"
        "    d: int = 0\n"
        "class CycE(CycC):\n"
        "    e: int = 0\n"
        "class IntoCyc(CycA):\n"
        "    i: int = 0\n"
        "class SelfBase(SelfBase):\n"
        "    s: int = 0\n"
    ),
}

PARENT_REFS: list[tuple[str, str] | None] = (
    [None, ("sigs", ""), ("sigs", "f0"), ("sigs", "f1"), ("sigs", "f2"), ("sigs", "f3"), ("sigs", "f4"), ("sigs", "attr")]
    + [("rets", n) for n in ("t0", "t1", "t2", "t3", "tv", "it0", "it1", "it2", "it3", "iti", "itb", "g0", "g1", "g2", "g3",
                             "gt0", "gt1", "gt2", "gt3", "gs", "ty", "rn")]
    + [("classes", ""), ("classes", "K"), ("classes", "Sub"), ("classes", "K.__init__"), ("classes", "Sub.__init__"),
       ("classes", "K.Inner.__init__"), ("classes", "K.meth"), ("classes", "K.prop"), ("classes", "K.tprop"),
       ("classes", "K.gprop"), ("classes", "K.cprop"), ("classes", "K.x"), ("classes", "K.sm"), ("classes", "Ext"), ("classes", "Imp"),
       ("classes", "NoInit"), ("classes", "CycA"), ("classes", "CycB"), ("classes", "CycC"), ("classes", "CycD"), ("classes", "IntoCyc"),
       ("classes", "SelfBase"), ("classes", "CycB.__init__")]
    # objects built through the API instead of visited: no file path (built-in-like module), plain-string annotations,
    # and one function that has no parent at all ("@" marks objects that are not members of the module)
    + [("api", ""), ("api", "f"), ("api", "C"), ("api", "C.__init__"), ("api", "C.x"), ("api", "C.p"), ("api", "@lonely")]
)
API_SENTINEL = "#built-through-the-api: vf.gen.docstrings.build_api_module()"


def parent_kind(ref) -> str:  # noqa: ANN001
    """Coarse kind label of a parent reference (used for coverage evidence only)."""
    if ref is None:
        return "none"
    _mod, path = ref
    if not path:
        return "module"
    last = path.rsplit(".", 1)[-1]
    if last == "__init__":
        return "init-method"
    if last in ("prop", "tprop", "gprop", "cprop", "p"):
        return "property"
    if last in ("attr", "x"):
        return "attribute"
    if last in ("K", "Sub", "C", "Ext", "Imp", "NoInit", "CycA", "CycB", "CycC", "CycD", "IntoCyc", "SelfBase"):
        return "class"
    return "function"


# ------------------------------------------------------------------------------------------
# options
GOOGLE_BOOLS = ["ignore_init_summary", "trim_doctest_flags", "returns_multiple_items", "returns_named_value",
                "returns_type_in_property_summary", "receives_multiple_items", "receives_named_value", "warn_unknown_params"]
NUMPY_BOOLS = ["ignore_init_summary", "trim_doctest_flags", "warn_unknown_params"]
SPHINX_BOOLS = ["warn_unknown_params"]
STYLE_BOOLS = {"google": GOOGLE_BOOLS, "numpy": NUMPY_BOOLS, "sphinx": SPHINX_BOOLS}
UNKNOWN_OPTION = "vf_unknown_option"


def options_from_bits(style: str, bits: int, unknown: bool = False) -> dict:
    names = STYLE_BOOLS[style]
    out = {n: bool(bits >> i & 1) for i, n in enumerate(names)}
    if unknown:
        out[UNKNOWN_OPTION] = 1
    return out


def random_options(rng: random.Random, style: str) -> dict:
    r = rng.random()
    if r < 0.06:
        return {}
    names = STYLE_BOOLS[style]
    return options_from_bits(style, rng.getrandbits(len(names)), unknown=rng.random() < 0.15)


# ------------------------------------------------------------------------------------------
# token pools
GOOGLE_KEYS = ["args", "arguments", "params", "parameters", "keyword args", "keyword arguments", "other args",
               "other arguments", "other params", "other parameters", "raises", "exceptions", "returns", "yields",
               "receives", "examples", "attributes", "functions", "methods", "classes", "modules", "warns", "warnings"]
NUMPY_KEYS = ["deprecated", "parameters", "other parameters", "returns", "yields", "receives", "raises", "warns",
              "examples", "attributes", "functions", "methods", "classes", "modules"]
ADMONITIONS = ["note", "notes", "warning", "see also", "tip", "example", "todo", "important", "references", "danger zone"]
SPHINX_FIELDS = ["param", "parameter", "arg", "argument", "key", "keyword", "type", "var", "ivar", "cvar", "vartype",
                 "returns", "return", "rtype", "raises", "raise", "except", "exception"]

NAMES = ["a", "b", "c", "d", "args", "kwargs", "*args", "**kwargs", "x", "y", "z", "flag", "self", "foo", "K", "prop", "inst",
         "q", "kw", "", " ", "a b", "a.b", "1x", "Iterator", "typing", "typing.List", "functools", "helper", "helper.attr", "Base", "w", "\u00fcn\u00ef", "_p", "None", "x, y", "a,b", "f1", "Inner", "*", "**"]
TYPES = ["int", "str", "list[int]", "Optional[Union[int, Tuple[float, float]]]", "a.b.C", "int or None", "'quoted'",
         "lambda: 0", "1 +", "", " ", "[", "dict[str,", "int, optional", "\u00dcn\u00ef", "x if y else z", "f'{x}'", "*args",
         "yield", "(yield)", "a := 1", "await x", "...", "None", "tuple[()]", "{a, b}", "{1, 2, 3}", "int, default 3",
         "int, default: 3", "int, default=3", "(int)", "((int))", "int)", "(int", "a:b", "a : b", "\"", "\\", "0x", "not",
         "list[", "]", "typing.Iterator[int]", "Generator[int, str, None]", "x.y.z", "1", "-1", "a if", "[x for x in y]",
         # characters a docstring can hold through escapes in its literal but that no source text can: lone surrogates, NUL
         "\ud800", "a\udfff", "\x00", "int\x00"]
DESCS = ["Description.", "desc", "", " ", "The value: it matters.", "Ends with colon:", "- bullet", "-", "--", ">>> 1 + 1",
         "`code`", "\u00e9t\u00e9 \u2603 \U0001f600", "x" * 80, "a: b: c", ":param x: nested", "Returns:", "Note: inline", "(parenthesised)",
         "tab\there", "``` fence", "# doctest: +SKIP", "<BLANKLINE>", "1.2.0", "ValueError: again"]
PROSE = ["A summary line.", "Some more prose, with punctuation; and (parentheses).", "another line", "Word", "x = 1",
         "\u00e9t\u00e9 \u2603 \U0001f600 \u4e2d\u6587", "a - b - c", "- a bullet", "* another bullet", "1. numbered", "> quote", "| table | row |",
         "trailing spaces   ", "#hash", "...", "50% of 100", "e.g. something", "<html>", "back\\slash", "under_score", "=====",
         "~~~~", "====  ====", "+---+---+", "a -- b", "-- not only dashes", "\tstarts with a tab", "has\ta tab", "'quotes' \"both\""]
PROSE_COLON = ["Note: this is inline.", "Returns: nothing special", "Args:", "Parameters", "see: http://example.com/x",
               "key: value", "Examples:", "Warning: be careful:", "time 12:30", "a::b", "Raises:", "Yields", "Attributes:",
               "Tip: Check this out:", "mid :param x: line"]
FENCES = ["```", "```python", "```pycon", "````", "~~~"]
DOCTEST = [">>> print('hello')", "hello", ">>> a = 0", ">>> a += 1  # doctest: +SKIP", "... more", "<BLANKLINE>", ">>> ", ">>>",
           ">>> x # doctest: +ELLIPSIS", "Traceback (most recent call last):", "  File \"<stdin>\", line 1, in <module>",
           "StopIteration", "1"]
BLANKS = ["", "", "", "   ", " ", "\t", "        "]
LONG = ["word " * 600, "-" * 2000, "-" * 1500 + "a", "a." * 1200 + "a", "(" * 500, "a[" * 100 + "a" + "]" * 100, "x" * 5000,
        ":" * 1000, "a, " * 800 + "a", "a: " * 500, " " * 3000 + "x", "not " * 1200 + "a", "[" * 300,
        "-" * 3500 + "a", "a." * 3500 + "a", "lambda: " * 3500 + "0", "a**" * 5000 + "a"]
INDENTS = [0, 0, 0, 0, 1, 2, 3, 4, 4, 4, 5, 6, 7, 8, 8, 9, 10, 11, 12]


def case_variant(rng: random.Random, word: str) -> str:
    r = rng.randrange(7)
    if r <= 1:
        return word.capitalize()
    if r == 2:
        return word.lower()
    if r == 3:
        return word.upper()
    if r == 4:
        return word.title()
    if r == 5:
        return "".join(c.upper() if rng.random() < 0.5 else c for c in word)
    return word.capitalize()


def _pick(rng: random.Random, pool: list[str], long_p: float = 0.004) -> str:
    if rng.random() < long_p:
        return rng.choice(LONG)
    return rng.choice(pool)


def google_item(rng: random.Random) -> str:
    name, typ, desc = _pick(rng, NAMES), _pick(rng, TYPES), _pick(rng, DESCS)
    form = rng.randrange(16)
    if form <= 2:
        return f"{name}: {desc}"
    if form <= 4:
        return f"{name} ({typ}): {desc}"
    if form == 5:
        return f"({typ}): {desc}"
    if form == 6:
        return f": {desc}"
    if form == 7:
        return f"{name}"
    if form == 8:
        return f"{name}:"
    if form == 9:
        return f"{name} ({typ}, optional): {desc}"
    if form == 10:
        return f"{typ}: {desc}"
    if form == 11:
        return f"{name}({name}, b=1): {desc}"
    if form == 12:
        return f"{name} {typ}: {desc}"
    if form == 13:
        return f" : {desc}"
    if form == 14:
        return f"{name} (:{desc}"
    return desc


def numpy_item(rng: random.Random) -> str:
    name, typ = _pick(rng, NAMES), _pick(rng, TYPES)
    form = rng.randrange(14)
    if form <= 2:
        return f"{name} : {typ}"
    if form <= 4:
        return name
    if form == 5:
        return f"{name} :"
    if form == 6:
        return f": {typ}"
    if form == 7:
        return ":"
    if form == 8:
        return f"{name}: {typ}"
    if form == 9:
        return f"{name}, {_pick(rng, NAMES)} : {typ}"
    if form == 10:
        return typ
    if form == 11:
        return f"{name}({name}, b=1)"
    if form == 12:
        return f" : {typ}"
    return f"{name} : {typ}, optional"


def sphinx_field(rng: random.Random) -> str:
    field = rng.choice(SPHINX_FIELDS) if rng.random() < 0.93 else rng.choice(["unknown", "meta", "paramx", "", "returnsx"])
    if rng.random() < 0.1:
        field = case_variant(rng, field)
    name, typ, desc = _pick(rng, NAMES), _pick(rng, TYPES), _pick(rng, DESCS)
    form = rng.randrange(14)
    if form <= 3:
        return f":{field} {name}: {desc}"
    if form == 4:
        return f":{field} {typ} {name}: {desc}"
    if form == 5:
        return f":{field}: {desc}"
    if form == 6:
        return f":{field} {name}: {typ}"
    if form == 7:
        return f":{field}"
    if form == 8:
        return f":{field} {name}"
    if form == 9:
        return f":{field} : {desc}"
    if form == 10:
        return f":{field}  {name}: {desc}"
    if form == 11:
        return f":{field} {name}:"
    if form == 12:
        return f":{field}:"
    return f":{field} {name} {name} {name}: {desc}"


def _cont(rng: random.Random, indent: int, pool: list[str]) -> str:
    if rng.random() < 0.2:
        return rng.choice(BLANKS)
    return " " * indent + _pick(rng, pool)


def chunk_google(rng: random.Random, base: int) -> list[str]:
    key = rng.choice(GOOGLE_KEYS) if rng.random() < 0.8 else rng.choice(ADMONITIONS)
    key = case_variant(rng, key)
    title = _pick(rng, DESCS)
    head = rng.choice(["{k}:"] * 8 + ["{k}: {t}"] * 3 + ["{k} :", "{k}:   ", "{k}", "{k}::", ":{k}:", "{k}:{t}"]).format(k=key, t=title)
    step = rng.choice([1, 2, 3, 4, 4, 4, 4, 5, 8])
    lines = [" " * base + head]
    if rng.random() < 0.12:
        lines.append(rng.choice(BLANKS))
    for _ in range(rng.choice([0, 1, 1, 2, 2, 3, 4])):
        ind = base + step if rng.random() < 0.9 else rng.choice(INDENTS)
        lines.append(" " * ind + google_item(rng))
        for _ in range(rng.choice([0, 0, 0, 1, 1, 2, 3])):
            ci = rng.choice([base + 2 * step, base + 2 * step, base + 2 * step, base + step + 1, base + 3 * step,
                             max(0, base + step - 1), base, 0, rng.choice(INDENTS)])
            lines.append(_cont(rng, ci, DESCS + PROSE))
    return lines


def chunk_numpy(rng: random.Random, base: int) -> list[str]:
    key = rng.choice(NUMPY_KEYS) if rng.random() < 0.8 else rng.choice(ADMONITIONS + GOOGLE_KEYS)
    key = case_variant(rng, key)
    dashes = "-" * rng.choice([len(key), len(key), len(key), 1, 2, 3, len(key) + 3, 40])
    if rng.random() < 0.08:
        dashes = rng.choice([" " + dashes, dashes + "  ", "- -", "--- ---", "=" * len(key), "\t" + dashes])
    lines = [" " * base + key + rng.choice(["", "", "", " ", ":"]), " " * base + dashes]
    if rng.random() < 0.1:
        lines.insert(1, rng.choice(BLANKS))
    if rng.random() < 0.1:
        lines.append(rng.choice(BLANKS))
    for _ in range(rng.choice([0, 1, 1, 2, 2, 3, 4])):
        ind = base if rng.random() < 0.9 else rng.choice(INDENTS)
        lines.append(" " * ind + numpy_item(rng))
        for _ in range(rng.choice([0, 1, 1, 1, 2, 3])):
            ci = rng.choice([base + 4, base + 4, base + 4, base + 2, base + 8, base + 1, base, 3, rng.choice(INDENTS)])
            lines.append(_cont(rng, ci, DESCS + PROSE + DOCTEST))
    return lines


def chunk_sphinx(rng: random.Random, base: int) -> list[str]:
    lines = []
    for _ in range(rng.choice([1, 1, 2, 3, 5])):
        lines.append(" " * (base if rng.random() < 0.85 else rng.choice(INDENTS)) + sphinx_field(rng))
        for _ in range(rng.choice([0, 0, 0, 1, 2])):
            lines.append(_cont(rng, rng.choice([base, base + 4, base + 2, 0, rng.choice(INDENTS)]), DESCS + PROSE))
    return lines


def chunk_prose(rng: random.Random, base: int) -> list[str]:
    return [" " * (base if rng.random() < 0.8 else rng.choice(INDENTS)) + _pick(rng, PROSE + PROSE_COLON + DESCS)
            for _ in range(rng.choice([1, 1, 2, 3]))]


def chunk_fence(rng: random.Random, base: int) -> list[str]:
    fence = rng.choice(FENCES)
    body = []
    for _ in range(rng.choice([0, 1, 2, 3])):
        kind = rng.randrange(4)
        if kind == 0:
            body.extend(chunk_google(rng, base)[:3])
        elif kind == 1:
            body.extend(chunk_numpy(rng, base)[:4])
        elif kind == 2:
            body.extend(chunk_sphinx(rng, base)[:2])
        else:
            body.append(" " * base + _pick(rng, PROSE + DOCTEST))
    closing = [] if rng.random() < 0.2 else [" " * (base if rng.random() < 0.8 else rng.choice(INDENTS)) + rng.choice([fence, "```"])]
    return [" " * base + fence, *body, *closing]


def chunk_doctest(rng: random.Random, base: int) -> list[str]:
    return [" " * base + rng.choice(DOCTEST) if rng.random() < 0.85 else rng.choice(BLANKS) for _ in range(rng.choice([1, 2, 3, 5]))]


CHUNKS = [chunk_google] * 5 + [chunk_numpy] * 5 + [chunk_sphinx] * 4 + [chunk_prose] * 3 + [chunk_fence, chunk_doctest]


def hostile_text(rng: random.Random, big: bool = False) -> str:
    """A docstring source text mixing the section syntaxes of all three styles in arbitrary arrangement."""
    lines: list[str] = []
    if rng.random() < 0.8:
        lines.append(_pick(rng, PROSE + PROSE_COLON))
        if rng.random() < 0.75:
            lines.append(rng.choice(BLANKS))
    nchunks = rng.choice([0, 1, 1, 2, 2, 3, 3, 4, 5, 6, 8]) if not big else rng.randint(20, 60)
    dominant = rng.choice([None, chunk_google, chunk_google, chunk_numpy, chunk_numpy, chunk_sphinx])
    tidy = rng.random() < 0.5           # half of the texts keep the chunks flush left and separated by blank lines
    for _ in range(nchunks):
        base = 0 if tidy and rng.random() < 0.9 else rng.choice([0, 0, 0, 0, 0, 0, 0, 0, 1, 2, 3, 4, 4, 5, 7, 8, 12])
        if rng.random() < (0.95 if tidy else 0.6) and lines:
            lines.extend(rng.choice(BLANKS) for _ in range(rng.choice([1, 1, 1, 2, 3])))
        chunk = dominant if dominant is not None and rng.random() < 0.75 else rng.choice(CHUNKS)
        lines.extend(chunk(rng, base))
    # mutations: arbitrary order / repetition / indentation
    for _ in range(rng.choice([0, 0, 0, 0, 0, 1, 1, 2, 4]) if not tidy else rng.choice([0, 0, 0, 1])):
        if not lines:
            break
        i = rng.randrange(len(lines))
        m = rng.randrange(9)
        if m == 0:
            lines.insert(rng.randrange(len(lines) + 1), lines[i])
        elif m == 1:
            del lines[i]
        elif m == 2:
            lines[i] = " " * rng.choice(INDENTS) + lines[i].lstrip(" ")
        elif m == 3:
            j = rng.randrange(len(lines))
            lines[i], lines[j] = lines[j], lines[i]
        elif m == 4:
            lo = rng.randrange(len(lines))
            hi = min(len(lines), lo + rng.randint(2, 6))
            window = lines[lo:hi]
            rng.shuffle(window)
            lines[lo:hi] = window
        elif m == 5:
            lines[i] = lines[i].replace("    ", "\t", 1)
        elif m == 6:
            lines[i] = lines[i] + rng.choice(["\r", "  ", "\t", "\x0c", "\x0b", "\u2028", ":", " :"])
        elif m == 7:
            lines.insert(i, rng.choice(BLANKS))
        else:
            lines[i] = rng.choice(LONG) if rng.random() < 0.1 else lines[i] * 2
    # as written in source: first line flush, the rest indented by the body indentation
    r = rng.random()
    if r < 0.25 and len(lines) > 1:
        pad = " " * rng.choice([4, 4, 8, 2, 3])
        lines = [lines[0]] + [pad + ln if ln else ln for ln in lines[1:]]
    elif r < 0.3:
        lines = ["", *lines, ""]
    elif r < 0.33:
        lines = ["   ", *lines, "    "]
    return "\n".join(lines)


def prose_text(rng: random.Random) -> tuple[str, str]:
    """Text without any section syntax of any style.  Returns (text, mode).

    mode "nocolon": no colon anywhere (no Google/Sphinx syntax possible), arbitrary indentation, no dash-only line.
    mode "flat":    colons allowed but never at the start of a line and no line is indented (a Google section/admonition
                    needs indented contents below its title), no dash-only line.
    """
    mode = "nocolon" if rng.random() < 0.6 else "flat"
    lines: list[str] = []
    n = rng.choice([1, 1, 2, 3, 4, 6, 9, 15, 30])
    pool = PROSE + DOCTEST + FENCES + [d for d in DESCS if ":" not in d and d.strip("- ") and d.strip()]
    pool = [p for p in pool if ":" not in p]
    flat_pool = [p.lstrip() for p in pool if p.lstrip()] + PROSE_COLON
    for i in range(n):
        if i and rng.random() < 0.2:
            lines.append(rng.choice(BLANKS))
            continue
        if mode == "nocolon":
            word = rng.choice(LONG[:1] + LONG[6:7]) if rng.random() < 0.004 else rng.choice(pool)
            lines.append(" " * rng.choice(INDENTS) + word)
        else:
            lines.append(rng.choice(flat_pool))
    r = rng.random()
    if mode == "nocolon" and r < 0.25 and len(lines) > 1:
        pad = " " * rng.choice([4, 8, 2])
        lines = [lines[0]] + [pad + ln if ln else ln for ln in lines[1:]]
    elif r < 0.3:
        lines = ["", *lines, ""]
    return "\n".join(lines), mode


def is_prose_only(text: str) -> bool:
    """Independent re-check of the prose-only precondition on the *source* text (used for replayed inputs)."""
    lines = text.split("\n")
    for ln in lines:
        s = ln.strip()
        if s and not s.replace("-", "").strip():
            return False
        if s.startswith(":"):
            return False
    if not any(":" in ln for ln in lines):
        return True
    return all(ln == ln.lstrip() or not ln.strip() for ln in lines)


def pick_parent(rng: random.Random):  # noqa: ANN201
    """Parent kinds are drawn uniformly (functions three times as often), then a reference of that kind."""
    groups: dict[str, list] = {}
    for ref in PARENT_REFS:
        groups.setdefault(parent_kind(ref), []).append(ref)
    kinds = sorted(groups) + ["function", "function"]
    return rng.choice(groups[rng.choice(kinds)])


def module_source(key: str) -> str:
    return API_SENTINEL if key == "api" else PARENT_MODULES[key]


def build_api_module():  # noqa: ANN201
    """(module, {"@name": detached object}) built with the public model API."""
    import griffe

    kind = griffe.ParameterKind
    mod = griffe.Module("vfp_api")
    f = griffe.Function("f", parameters=griffe.Parameters(
        griffe.Parameter("a", annotation="int", default="1", kind=kind.positional_or_keyword),
        griffe.Parameter("args", kind=kind.var_positional, default="()"),
        griffe.Parameter("kw", annotation="str", kind=kind.var_keyword, default="{}")), returns="tuple[int, str]")
    mod.set_member("f", f)
    cls = griffe.Class("C")
    mod.set_member("C", cls)
    cls.set_member("x", griffe.Attribute("x", annotation="int", value="0"))
    cls.set_member("__init__", griffe.Function("__init__", parameters=griffe.Parameters(
        griffe.Parameter("self", kind=kind.positional_or_keyword), griffe.Parameter("b", kind=kind.keyword_only, default="None"))))
    prop = griffe.Attribute("p", annotation="Iterator[int]")
    prop.labels.add("property")
    cls.set_member("p", prop)
    lonely = griffe.Function("lonely", parameters=griffe.Parameters(griffe.Parameter("a")), returns=None)
    return mod, {"@lonely": lonely}


def build_parents(keys=None) -> dict:  # noqa: ANN001
    """Visit the literal parent modules; returns {module key: griffe Module}."""
    from vf.core.util import visit_source

    return {k: visit_source(src, "vfp_" + k) for k, src in PARENT_MODULES.items() if keys is None or k in keys}
