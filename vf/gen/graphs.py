"""Random import graphs over a small set of modules and names (C06): cycles, self-imports,
cyclic wildcards, missing modules/names, relative imports past the top are all allowed."""
from __future__ import annotations

import random

MODULES = ["p", "p.a", "p.b", "p.s", "p.s.c", "q", "q.d"]
PACKAGES = {"p", "p.s", "q"}
NAMES = ["X", "Y", "Z", "W"]
MISSING_MODULES = ["p.zz", "nope", "p.s.nope", "q.d.e"]


def mod_file(mod: str) -> str:
    return mod.replace(".", "/") + ("/__init__.py" if mod in PACKAGES else ".py")


def gen_statement(rng: random.Random, mod: str, hostile: bool) -> tuple[str, dict]:
    """One top-level statement and a descriptor used by the non-triviality / classifier logic."""
    r = rng.random()
    name = rng.choice(NAMES)
    if r < 0.25:
        form = rng.choice(["def {n}(): ...", "class {n}: ...", "{n} = 1", "{n}: int = 2"])
        return form.format(n=name), {"t": "def", "name": name}
    targets = MODULES + (MISSING_MODULES if hostile else [])
    if hostile and rng.random() < 0.18:
        # a dotted path that goes *through a name* bound in a package (possibly an alias of a module, possibly of the very
        # module that contains this import)
        targets = [f"{rng.choice(['p', 'q', 'p.s'])}.{rng.choice(NAMES)}"]
    target = rng.choice(targets)
    if r < 0.55:
        # from-import, absolute or relative
        asname = rng.choice([None, None, rng.choice(NAMES)])
        imported = rng.choice(NAMES + (["nothing"] if hostile else []) + [m.rsplit(".", 1)[-1] for m in MODULES if "." in m][:2])
        if rng.random() < 0.35:
            level = rng.randint(1, 3 if hostile else 2)
            rel = rng.choice(["", "a", "b", "s", "s.c", "d", "c"])
            stmt = f"from {'.' * level}{rel} import {imported}"
            desc = {"t": "from", "rel": level, "module": rel, "name": imported}
        else:
            stmt = f"from {target} import {imported}"
            desc = {"t": "from", "module": target, "name": imported}
        if asname:
            stmt += f" as {asname}"
            desc["as"] = asname
        return stmt, desc
    if r < 0.70:
        asname = rng.choice([None, rng.choice(NAMES)])
        stmt = f"import {target}" + (f" as {asname}" if asname else "")
        return stmt, {"t": "import", "module": target, "as": asname}
    if r < 0.90:
        if rng.random() < 0.3:
            level = rng.randint(1, 3 if hostile else 2)
            rel = rng.choice(["", "a", "b", "s", "d", "c"])
            if not rel and level == 1 and not hostile:
                rel = "a"
            return f"from {'.' * level}{rel} import *", {"t": "wild", "rel": level, "module": rel}
        return f"from {target} import *", {"t": "wild", "module": target}
    k = rng.randint(0, 3)
    names = rng.sample(NAMES + ["ghost"], k) if hostile else rng.sample(NAMES, k)
    return f"__all__ = {names!r}", {"t": "all", "names": names}


def gen_graph(rng: random.Random, hostile: bool = True) -> tuple[dict[str, str], dict[str, list[dict]]]:
    files: dict[str, str] = {}
    descs: dict[str, list[dict]] = {}
    for mod in MODULES:
        n = rng.randint(0, 4)
        lines, ds = [], []
        for _ in range(n):
            s, d = gen_statement(rng, mod, hostile)
            lines.append(s)
            ds.append(d)
        if rng.random() < 0.15:
            s, d = gen_statement(rng, mod, hostile)
            if d["t"] in ("from", "import", "wild"):
                lines.append("class K:\n    " + s)
                ds.append({"t": "class-import", "inner": d})
        files[mod_file(mod)] = "\n".join(lines) + "\n"
        descs[mod] = ds
    return files, descs


def absolute(mod: str, d: dict) -> str | None:
    """Absolute module path a from/wildcard statement in ``mod`` refers to (None when past the top)."""
    if "rel" not in d:
        return d["module"]
    is_pkg = mod in PACKAGES
    parts = mod.split(".")
    if not is_pkg:
        parts = parts[:-1]
    up = d["rel"] - 1
    if up > len(parts):
        return None
    base = parts[: len(parts) - up] if up else parts
    if not base and up:
        return None
    return ".".join(base + ([d["module"]] if d["module"] else []))


def wildcard_edges(descs: dict[str, list[dict]]) -> dict[str, set[str]]:
    edges: dict[str, set[str]] = {m: set() for m in descs}
    for mod, ds in descs.items():
        for d in ds:
            if d["t"] == "wild":
                tgt = absolute(mod, d)
                if tgt:
                    edges[mod].add(tgt)
    return edges


def has_wildcard_cycle(descs: dict[str, list[dict]]) -> bool:
    edges = wildcard_edges(descs)
    for start in edges:
        seen, todo = set(), list(edges[start])
        while todo:
            m = todo.pop()
            if m == start:
                return True
            if m in seen or m not in edges:
                continue
            seen.add(m)
            todo.extend(edges[m])
    return False


def gen_ring(rng: random.Random) -> tuple[dict[str, str], dict[str, list[dict]]]:
    """Re-export rings across the two packages: every module of the ring imports the name from the next one (explicitly or
    by wildcard), some also define it locally before/after the import, some list it in __all__.  Loaded incrementally
    (load, resolve, load more, resolve) such rings get closed *after* part of them was already resolved."""
    k = rng.randint(2, 5)
    ring = rng.sample(MODULES, k)
    if not any(m.split(".")[0] == "q" for m in ring):
        ring[rng.randrange(k)] = rng.choice(["q", "q.d"])
    if not any(m.split(".")[0] == "p" for m in ring):
        ring[rng.randrange(k)] = rng.choice(["p", "p.a", "p.b"])
    ring = list(dict.fromkeys(ring))
    name = rng.choice(NAMES)
    files = {mod_file(m): "" for m in MODULES}
    descs: dict[str, list[dict]] = {m: [] for m in MODULES}
    for i, mod in enumerate(ring):
        nxt = ring[(i + 1) % len(ring)]
        lines, ds = [], []
        local = rng.random() < 0.4
        local_first = rng.random() < 0.5
        definition = rng.choice([f"def {name}(): ...", f"class {name}: ...", f"{name} = 1"])
        if local and local_first:
            lines.append(definition)
            ds.append({"t": "def", "name": name})
        if rng.random() < 0.45:
            lines.append(f"from {nxt} import *")
            ds.append({"t": "wild", "module": nxt})
        else:
            asname = rng.choice([None, None, name, rng.choice(NAMES)])
            lines.append(f"from {nxt} import {name}" + (f" as {asname}" if asname else ""))
            ds.append({"t": "from", "module": nxt, "name": name, **({"as": asname} if asname else {})})
        if local and not local_first:
            lines.append(definition)
            ds.append({"t": "def", "name": name})
        if rng.random() < 0.4:
            lines.append(f"__all__ = [{name!r}]")
            ds.append({"t": "all", "names": [name]})
        files[mod_file(mod)] = "\n".join(lines) + "\n"
        descs[mod] = ds
    # sometimes reach the next module through an alias of it bound in its package: `from p import a as X` + `from p.X import n`
    if rng.random() < 0.35:
        mod = rng.choice(ring)
        nxt = rng.choice([m for m in MODULES if "." in m])
        pkgname, leaf = nxt.rsplit(".", 1)
        alias = rng.choice(NAMES)
        files[mod_file(pkgname)] = files.get(mod_file(pkgname), "") + f"from {pkgname} import {leaf} as {alias}\n"
        descs.setdefault(pkgname, []).append({"t": "from", "module": pkgname, "name": leaf, "as": alias})
        files[mod_file(mod)] += f"from {pkgname}.{alias} import {name}\n"
        descs[mod].append({"t": "from", "module": f"{pkgname}.{alias}", "name": name})
        if rng.random() < 0.5:
            files[mod_file(nxt)] = files.get(mod_file(nxt), "") + f"from {pkgname}.{alias} import {name}\n"
            descs.setdefault(nxt, []).append({"t": "from", "module": f"{pkgname}.{alias}", "name": name})
    # a little noise elsewhere
    for mod in MODULES:
        if mod not in ring and rng.random() < 0.3:
            s, d = gen_statement(rng, mod, True)
            files[mod_file(mod)] = s + "\n"
            descs[mod] = [d]
    return files, descs
