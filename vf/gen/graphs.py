"""Random import graphs over a small set of modules and names (C06): cycles, self-imports,
cyclic wildcards, missing modules/names, relative imports past the top are all allowed."""
from __future__ import annotations

import random

MODULES = ["p", "p.a", "p.b", "p.s", "p.s.c", "q", "q.d"]
PACKAGES = {"p", "p.s", "q"}
NAMES = ["X", "Y", "Z", "W"]
MISSING_MODULES = ["p.zz", "nope", "p.s.nope", "q.d.e"]


def mod_file(mod: str) -> str:
    return mod.replace(".", "/") + ("/__init__.py" if mod in PACKAGES else ".py")


def gen_base(rng: random.Random) -> str:
    """A base-class (or decorator) expression: a name of the module's scope - possibly an import, i.e. an alias that may be
    unresolvable or cyclic -, the class ``K`` that holds imports in its body, or a dotted path through a module name."""
    r = rng.random()
    if r < 0.5:
        return rng.choice(NAMES)
    if r < 0.7:
        return "K"
    return f"{rng.choice(['a', 'b', 's', 'c', 'd', 'p', 'q', 'p.a', 'q.d', *NAMES])}.{rng.choice([*NAMES, 'K'])}"


def gen_statement(rng: random.Random, mod: str, hostile: bool) -> tuple[str, dict]:
    """One top-level statement and a descriptor used by the non-triviality / classifier logic."""
    r = rng.random()
    name = rng.choice(NAMES)
    if r < 0.25:
        form = rng.choice(["def {n}(): ...", "class {n}: ...", "{n} = 1", "{n}: int = 2", "class {n}({b}): ...",
                           "class {n}({b}):\n    m_{n} = 1\n    def f_{n}(self): ...", "@{b}\ndef {n}(): ..."])
        return form.format(n=name, b=gen_base(rng)), {"t": "def", "name": name}
    targets = MODULES + (MISSING_MODULES if hostile else [])
    if hostile and rng.random() < 0.18:
        # a dotted path that goes *through a name* bound in a package (possibly an alias of a module, possibly of the very
        # module that contains this import)
        targets = [f"{rng.choice(['p', 'q', 'p.s'])}.{rng.choice(NAMES)}"]
    target = rng.choice(targets)
    if r < 0.55:
        # from-import, absolute or relative
        asname = rng.choice([None, None, rng.choice(NAMES)])
        imported = rng.choice(NAMES + (["nothing"] if hostile else []) + [m.rsplit(".", 1)[-1] for m in MODULES if "." in m][:2])
        if rng.random() < 0.35:
            level = rng.randint(1, 3 if hostile else 2)
            rel = rng.choice(["", "a", "b", "s", "s.c", "d", "c"])
            stmt = f"from {'.' * level}{rel} import {imported}"
            desc = {"t": "from", "rel": level, "module": rel, "name": imported}
        else:
            stmt = f"from {target} import {imported}"
            desc = {"t": "from", "module": target, "name": imported}
        if asname:
            stmt += f" as {asname}"
            desc["as"] = asname
        return stmt, desc
    if r < 0.70:
        asname = rng.choice([None, rng.choice(NAMES)])
        stmt = f"import {target}" + (f" as {asname}" if asname else "")
        return stmt, {"t": "import", "module": target, "as": asname}
    if r < 0.90:
        if rng.random() < 0.3:
            level = rng.randint(1, 3 if hostile else 2)
            rel = rng.choice(["", "a", "b", "s", "d", "c"])
            if not rel and level == 1 and not hostile:
                rel = "a"
            return f"from {'.' * level}{rel} import *", {"t": "wild", "rel": level, "module": rel}
        return f"from {target} import *", {"t": "wild", "module": target}
    k = rng.randint(0, 3)
    names = rng.sample(NAMES + ["ghost"], k) if hostile else rng.sample(NAMES, k)
    if rng.random() < 0.45:
        # __all__ composed from another module's __all__: the module is named by a bare name (bound here or not, to a
        # module, to an alias of a module, to anything), by a dotted path (possibly through a name bound in a package),
        # or is this very module (`__all__ += __all__`)
        kind = rng.random()
        if kind < 0.45:
            ref = rng.choice(NAMES + ["a", "b", "s", "c", "d"])
        elif kind < 0.85:
            ref = target
        else:
            ref = ""
        expr = f"{ref}.__all__" if ref else "__all__"
        if kind < 0.45 and rng.random() < 0.2:
            expr = ref   # a bare name standing for a list (`from m import __all__ as X`)
        bare = not expr.endswith("__all__")
        return compose_all(rng, names, expr), {"t": "allref", "ref": expr if bare else expr.removesuffix("__all__").rstrip("."),
                                               "bare": bare, "names": names}
    return f"__all__ = {names!r}", {"t": "all", "names": names}


COMPOSITIONS = ["augment", "augment-only", "plus-right", "plus-left", "star-list", "star-tuple", "bare", "annotated", "augment-star"]


def compose_all(rng: random.Random, names: list[str], expr: str, form: str | None = None) -> str:
    """One or two statements that build ``__all__`` from the literal ``names`` and from the list ``expr``."""
    form = form or rng.choice(COMPOSITIONS)
    lit = repr(list(names))
    if form == "augment":
        return f"__all__ = {lit}\n__all__ += {expr}"
    if form == "augment-only":   # valid only after an earlier assignment; griffe sees it with exports possibly unset
        return f"__all__ += {expr}"
    if form == "plus-right":
        return f"__all__ = {lit} + {expr}"
    if form == "plus-left":
        return f"__all__ = {expr} + {lit}"
    if form == "star-list":
        return f"__all__ = [*{expr}, " + ", ".join(repr(n) for n in names) + "]"
    if form == "star-tuple":
        return "__all__ = (" + "".join(repr(n) + ", " for n in names) + f"*{expr},)"
    if form == "bare":
        return f"__all__ = {expr}"
    if form == "annotated":
        return f"__all__: list[str] = {lit} + [*{expr}]"
    return f"__all__ = {lit}\n__all__ += [*{expr}]"


def gen_graph(rng: random.Random, hostile: bool = True) -> tuple[dict[str, str], dict[str, list[dict]]]:
    files: dict[str, str] = {}
    descs: dict[str, list[dict]] = {}
    for mod in MODULES:
        n = rng.randint(0, 4)
        lines, ds = [], []
        for _ in range(n):
            s, d = gen_statement(rng, mod, hostile)
            lines.append(s)
            ds.append(d)
        if rng.random() < 0.22:
            # a class holding imports in its body (aliases nested in a class), sometimes with bases: classes that name it as
            # a base (gen_base) inherit those aliases
            body, inner = [], []
            for _ in range(rng.choice([1, 1, 2])):
                s, d = gen_statement(rng, mod, hostile)
                if d["t"] in ("from", "import", "wild"):
                    body.append(s)
                    inner.append(d)
            if body:
                head = f"class K({gen_base(rng)}):" if rng.random() < 0.4 else "class K:"
                lines.append(head + "".join("\n    " + s for s in body))
                ds.extend({"t": "class-import", "inner": d} for d in inner)
        files[mod_file(mod)] = "\n".join(lines) + "\n"
        descs[mod] = ds
    if rng.random() < 0.3:
        add_hierarchy(rng, files, descs, hostile)
    return files, descs


def add_hierarchy(rng: random.Random, files: dict[str, str], descs: dict[str, list[dict]], hostile: bool) -> None:
    """A base class holding plain members and imports in its body, and - in another module - a class deriving from it through
    an import (an alias, possibly renamed, possibly travelling through a third module): the derived class inherits aliases."""
    home, user = rng.sample(MODULES, 2)
    body, inner = ["attr = 1", "def meth(self): ..."], []
    for _ in range(rng.randint(1, 2)):
        s, d = gen_statement(rng, home, hostile)
        if d["t"] in ("from", "import", "wild"):
            body.append(s)
            inner.append(d)
    rng.shuffle(body)
    files[mod_file(home)] += "class Base:" + "".join("\n    " + s for s in body) + "\n"
    descs[home] += [{"t": "def", "name": "Base"}, *({"t": "class-import", "inner": d} for d in inner)]
    via = home
    if rng.random() < 0.3:   # re-exported by a third module first
        via = rng.choice([m for m in MODULES if m not in (home, user)])
        files[mod_file(via)] += f"from {home} import Base\n"
        descs[via].append({"t": "from", "module": home, "name": "Base"})
    local = rng.choice(["Base", "Base", "Root"])
    files[mod_file(user)] += f"from {via} import Base" + (f" as {local}" if local != "Base" else "") + "\n"
    descs[user].append({"t": "from", "module": via, "name": "Base", **({"as": local} if local != "Base" else {})})
    extra = rng.choice(["", "", f", {rng.choice(NAMES)}"])
    derived = [f"class Derived({local}{extra}):", "    own = 2"]
    if rng.random() < 0.4:
        s, d = gen_statement(rng, user, hostile)
        if d["t"] in ("from", "import", "wild"):
            derived.append("    " + s)
            descs[user].append({"t": "class-import", "inner": d})
    files[mod_file(user)] += "\n".join(derived) + "\n"
    descs[user].append({"t": "def", "name": "Derived"})
    if rng.random() < 0.4:   # and somebody imports the derived class: an alias whose inherited members are views of views
        third = rng.choice(MODULES)
        if third != user:
            files[mod_file(third)] += f"from {user} import Derived\n"
            descs[third].append({"t": "from", "module": user, "name": "Derived"})


def absolute(mod: str, d: dict, packages: set[str] | None = None) -> str | None:
    """Absolute module path a from/wildcard statement in ``mod`` refers to (None when past the top)."""
    if "rel" not in d:
        return d["module"]
    is_pkg = mod in (PACKAGES if packages is None else packages)
    parts = mod.split(".")
    if not is_pkg:
        parts = parts[:-1]
    up = d["rel"] - 1
    if up > len(parts):
        return None
    base = parts[: len(parts) - up] if up else parts
    if not base and up:
        return None
    return ".".join(base + ([d["module"]] if d["module"] else []))


def wildcard_edges(descs: dict[str, list[dict]]) -> dict[str, set[str]]:
    edges: dict[str, set[str]] = {m: set() for m in descs}
    for mod, ds in descs.items():
        for d in ds:
            if d["t"] == "wild":
                tgt = absolute(mod, d)
                if tgt:
                    edges[mod].add(tgt)
    return edges


def has_wildcard_cycle(descs: dict[str, list[dict]]) -> bool:
    edges = wildcard_edges(descs)
    for start in edges:
        seen, todo = set(), list(edges[start])
        while todo:
            m = todo.pop()
            if m == start:
                return True
            if m in seen or m not in edges:
                continue
            seen.add(m)
            todo.extend(edges[m])
    return False


def gen_ring(rng: random.Random) -> tuple[dict[str, str], dict[str, list[dict]]]:
    """Re-export rings across the two packages: every module of the ring imports the name from the next one (explicitly or
    by wildcard), some also define it locally before/after the import, some list it in __all__.  Loaded incrementally
    (load, resolve, load more, resolve) such rings get closed *after* part of them was already resolved."""
    k = rng.randint(2, 5)
    ring = rng.sample(MODULES, k)
    if not any(m.split(".")[0] == "q" for m in ring):
        ring[rng.randrange(k)] = rng.choice(["q", "q.d"])
    if not any(m.split(".")[0] == "p" for m in ring):
        ring[rng.randrange(k)] = rng.choice(["p", "p.a", "p.b"])
    ring = list(dict.fromkeys(ring))
    name = rng.choice(NAMES)
    files = {mod_file(m): "" for m in MODULES}
    descs: dict[str, list[dict]] = {m: [] for m in MODULES}
    for i, mod in enumerate(ring):
        nxt = ring[(i + 1) % len(ring)]
        lines, ds = [], []
        local = rng.random() < 0.4
        local_first = rng.random() < 0.5
        definition = rng.choice([f"def {name}(): ...", f"class {name}: ...", f"{name} = 1"])
        if local and local_first:
            lines.append(definition)
            ds.append({"t": "def", "name": name})
        if rng.random() < 0.45:
            lines.append(f"from {nxt} import *")
            ds.append({"t": "wild", "module": nxt})
        else:
            asname = rng.choice([None, None, name, rng.choice(NAMES)])
            lines.append(f"from {nxt} import {name}" + (f" as {asname}" if asname else ""))
            ds.append({"t": "from", "module": nxt, "name": name, **({"as": asname} if asname else {})})
        if local and not local_first:
            lines.append(definition)
            ds.append({"t": "def", "name": name})
        if rng.random() < 0.4:
            lines.append(f"__all__ = [{name!r}]")
            ds.append({"t": "all", "names": [name]})
        files[mod_file(mod)] = "\n".join(lines) + "\n"
        descs[mod] = ds
    # sometimes reach the next module through an alias of it bound in its package: `from p import a as X` + `from p.X import n`
    if rng.random() < 0.35:
        mod = rng.choice(ring)
        nxt = rng.choice([m for m in MODULES if "." in m])
        pkgname, leaf = nxt.rsplit(".", 1)
        alias = rng.choice(NAMES)
        files[mod_file(pkgname)] = files.get(mod_file(pkgname), "") + f"from {pkgname} import {leaf} as {alias}\n"
        descs.setdefault(pkgname, []).append({"t": "from", "module": pkgname, "name": leaf, "as": alias})
        files[mod_file(mod)] += f"from {pkgname}.{alias} import {name}\n"
        descs[mod].append({"t": "from", "module": f"{pkgname}.{alias}", "name": name})
        if rng.random() < 0.5:
            files[mod_file(nxt)] = files.get(mod_file(nxt), "") + f"from {pkgname}.{alias} import {name}\n"
            descs.setdefault(nxt, []).append({"t": "from", "module": f"{pkgname}.{alias}", "name": name})
    # spectators: modules outside the ring that import the name from a ring member and, often, rebind it right away
    # (`from m import X` ... `X = wrap(X)`): the visitor looks at the import while it handles the assignment, i.e. it
    # dereferences into the ring while the packages are only partly loaded
    for mod in MODULES:
        if mod not in ring and not files[mod_file(mod)] and rng.random() < 0.4:
            src = rng.choice(ring)
            local = rng.choice([name, name, rng.choice(NAMES)])
            lines = [f"from {src} import {name}" + (f" as {local}" if local != name else "")]
            ds = [{"t": "from", "module": src, "name": name, **({"as": local} if local != name else {})}]
            if rng.random() < 0.6:
                lines.append(rng.choice([f"{local} = 1", f"{local}: int = 2", f"{local} = [{local}]", f"{local} += 1",
                                         f"class K:\n    from {src} import {name}\n    {name} = {name}"]))
                ds.append({"t": "def", "name": local})
            files[mod_file(mod)] = "\n".join(lines) + "\n"
            descs[mod] = ds
    # a little noise elsewhere
    for mod in MODULES:
        if mod not in ring and not files[mod_file(mod)] and rng.random() < 0.3:
            s, d = gen_statement(rng, mod, True)
            files[mod_file(mod)] = s + "\n"
            descs[mod] = [d]
    return files, descs


# -- __all__ composition (`__all__ += other.__all__`) ---------------------------------------------------------------------
OWN = ["A0", "A1", "A2", "A3"]
HOPS_DIRECT = ["from", "import", "import-as", "relative", "all-name"]
HOPS_ALIASED = ["facade", "facade-as", "facade-dotted", "facade-chain", "facade-all-name"]
HOPS_OTHER = ["facade-wildcard", "facade-cyclic", "unbound"]


def _bind(rng: random.Random, where: str, name: str, module: str) -> tuple[str, dict]:
    """A statement placed in module ``where`` that binds ``name`` to the module ``module``."""
    if "." in module and rng.random() < 0.6:
        pkg, leaf = module.rsplit(".", 1)
        rel = _relative(where, pkg)
        if rel is not None and rng.random() < 0.4:
            return f"from {'.' * rel} import {leaf} as {name}", {"t": "from", "rel": rel, "module": "", "name": leaf, "as": name}
        return f"from {pkg} import {leaf} as {name}", {"t": "from", "module": pkg, "name": leaf, "as": name}
    return f"import {module} as {name}", {"t": "import", "module": module, "as": name}


def _relative(mod: str, pkg: str) -> int | None:
    """Level of the relative import that names package ``pkg`` from inside ``mod`` (None when ``pkg`` does not contain it)."""
    base = mod.split(".") if mod in PACKAGES else mod.split(".")[:-1]
    parts = pkg.split(".")
    if base[: len(parts)] != parts:
        return None
    return len(base) - len(parts) + 1


def gen_allring(rng: random.Random) -> tuple[dict[str, str], dict[str, list[dict]]]:  # noqa: C901, PLR0912, PLR0915
    """Chains and rings of ``__all__`` compositions: every module builds its ``__all__`` from its own names and from the
    ``__all__`` of the next module, which it names directly (from-import, dotted import, import-as, relative import, the
    list itself imported under a name) or *through aliases* bound in other modules (a facade re-exporting the module under
    another name, a dotted path through such a name, a chain of two facades, the list imported through the facade), or not
    at all (name only reachable through a wildcard, name that is an alias cycle, unbound name).  Rings of 1-4 modules, closed or open (an open chain
    ends in a plain list, a missing module or a non-module), one hop style for the whole ring or one per hop."""
    k = rng.choice([1, 2, 2, 3, 3, 4])
    ring = rng.sample(MODULES, k)
    closed = rng.random() < 0.7
    styles = HOPS_DIRECT + HOPS_ALIASED + HOPS_OTHER
    pool = rng.choice([HOPS_DIRECT, HOPS_ALIASED, HOPS_ALIASED, styles, styles])
    uniform = rng.choice(pool) if rng.random() < 0.4 else None
    stmts: dict[str, list[tuple[str, dict]]] = {m: [] for m in MODULES}
    tail: dict[str, list[tuple[str, dict]]] = {m: [] for m in MODULES}
    for i, mod in enumerate(ring):
        own = OWN[i]
        name = NAMES[i]
        body = stmts[mod]
        body.append((rng.choice([f"def {own}(): ...", f"class {own}: ...", f"{own} = 1"]), {"t": "def", "name": own}))
        last = i == len(ring) - 1
        if last and not closed:
            end = rng.random()
            if end < 0.4:
                body.append((f"__all__ = [{own!r}]", {"t": "all", "names": [own]}))
                continue
            nxt = rng.choice(MISSING_MODULES) if end < 0.7 else f"{mod}.{own}"   # a missing module / a function, class or attribute
        else:
            nxt = ring[(i + 1) % len(ring)]
        style = uniform or rng.choice(pool)
        facade = rng.choice([m for m in MODULES if m != mod] if rng.random() < 0.9 else MODULES)
        bare = False
        if style in ("from", "relative") and "." in nxt:
            pkg, leaf = nxt.rsplit(".", 1)
            rel = _relative(mod, pkg) if style == "relative" else None
            if rel is not None:
                imp = (f"from {'.' * rel} import {leaf}", {"t": "from", "rel": rel, "module": "", "name": leaf})
            else:
                imp = (f"from {pkg} import {leaf}", {"t": "from", "module": pkg, "name": leaf})
            ref = leaf
        elif style in ("from", "relative", "import"):
            imp = (f"import {nxt}", {"t": "import", "module": nxt, "as": None})
            ref = nxt
        elif style == "import-as":
            imp = (f"import {nxt} as {name}", {"t": "import", "module": nxt, "as": name})
            ref = name
        elif style == "all-name":
            imp = (f"from {nxt} import __all__ as {name}", {"t": "from", "module": nxt, "name": "__all__", "as": name})
            ref, bare = name, True
        elif style == "unbound":
            imp = None
            ref = rng.choice([name, nxt, f"{facade}.{name}"])
        elif style == "facade-cyclic":
            # the name the module is reached through is an alias cycle (two facades importing it from each other)
            second = rng.choice([m for m in MODULES if m not in (mod, facade)])
            tail[facade].append((f"from {second} import {name}", {"t": "from", "module": second, "name": name}))
            tail[second].append((f"from {facade} import {name}", {"t": "from", "module": facade, "name": name}))
            if rng.random() < 0.5:
                imp = (f"from {facade} import {name}", {"t": "from", "module": facade, "name": name})
                ref = name
            else:
                imp = (f"import {facade}", {"t": "import", "module": facade, "as": None})
                ref = f"{facade}.{name}"
        else:
            tail[facade].append(_bind(rng, facade, name, nxt))
            if style == "facade":
                imp = (f"from {facade} import {name}", {"t": "from", "module": facade, "name": name})
                ref = name
            elif style == "facade-as":
                other = rng.choice(NAMES)
                imp = (f"from {facade} import {name} as {other}", {"t": "from", "module": facade, "name": name, "as": other})
                ref = other
            elif style == "facade-dotted":
                imp = (f"import {facade}", {"t": "import", "module": facade, "as": None})
                ref = f"{facade}.{name}"
            elif style == "facade-chain":
                second = rng.choice([m for m in MODULES if m not in (mod, facade)])
                tail[second].append((f"from {facade} import {name}", {"t": "from", "module": facade, "name": name}))
                imp = (f"from {second} import {name}", {"t": "from", "module": second, "name": name})
                ref = name
            elif style == "facade-all-name":
                imp = (f"from {facade}.{name} import __all__ as {name}", {"t": "from", "module": f"{facade}.{name}", "name": "__all__", "as": name})
                ref, bare = name, True
            else:   # facade-wildcard: the name only arrives through a wildcard import of the facade
                imp = (f"from {facade} import *", {"t": "wild", "module": facade})
                ref = name
        expr = ref if bare else f"{ref}.__all__"
        form = rng.choice(COMPOSITIONS)
        composed = compose_all(rng, [own], expr, form)
        desc = {"t": "allref", "ref": ref, "bare": bare, "names": [own]}
        if form == "augment" and imp is not None:
            # the runtime-valid spelling of a circular composition: assign, import, augment
            first, second_ = composed.split("\n")
            body.append((first, {"t": "all", "names": [own]}))
            body.append(imp)
            body.append((second_, desc))
        else:
            if imp is not None:
                body.append(imp)
            if form == "augment-only" and rng.random() < 0.7:
                body.append((f"__all__ = [{own!r}]", {"t": "all", "names": [own]}))
            body.append((composed, desc))
        if "." in nxt and nxt in MODULES and rng.random() < 0.3:
            body.insert(rng.randrange(len(body) + 1), (f"from {nxt} import *", {"t": "wild", "module": nxt}))
    files: dict[str, str] = {}
    descs: dict[str, list[dict]] = {}
    for mod in MODULES:
        both = stmts[mod] + tail[mod] if rng.random() < 0.5 else tail[mod] + stmts[mod]
        if not both and rng.random() < 0.3:
            both = [gen_statement(rng, mod, True)]
        files[mod_file(mod)] = "".join(s + "\n" for s, _ in both)
        descs[mod] = [d for _, d in both]
    return files, descs


def bindings(descs: dict[str, list[dict]]) -> dict[str, dict[str, str | None]]:
    """Per module: name -> dotted path it is an alias of (None for a local definition); the last binding wins."""
    out: dict[str, dict[str, str | None]] = {}
    for mod, ds in descs.items():
        table: dict[str, str | None] = {}
        for d in ds:
            if d["t"] == "def":
                table[d["name"]] = None
            elif d["t"] == "from":
                base = absolute(mod, d)
                if base is not None:
                    table[d.get("as") or d["name"]] = f"{base}.{d['name']}" if base else d["name"]
            elif d["t"] == "import":
                if d.get("as"):
                    table[d["as"]] = d["module"]
                else:
                    top = d["module"].split(".")[0]
                    table[top] = top
        out[mod] = table
    return out


def follow(path: str, table: dict[str, dict[str, str | None]], budget: int = 12) -> tuple[str | None, bool]:
    """Walk a dotted path down the static module tree, going through name bindings where a component is not a submodule.
    Returns (module reached or None, whether an alias binding was crossed)."""
    crossed = False
    while budget > 0:
        budget -= 1
        parts = path.split(".")
        if parts[0] not in table:
            return None, crossed
        cur = parts[0]
        for i, comp in enumerate(parts[1:], 1):
            if f"{cur}.{comp}" in table:
                cur = f"{cur}.{comp}"
                continue
            if comp in table[cur] and table[cur][comp] is not None:
                crossed = True
                path = ".".join([table[cur][comp], *parts[i + 1:]])
                break
            return None, crossed
        else:
            return cur, crossed
    return None, crossed


def export_hops(descs: dict[str, list[dict]]) -> list[tuple[str, str | None, bool, str | None]]:
    """For every ``__all__`` composition: (module holding it, module whose ``__all__`` it names or None, whether naming it
    crosses an alias *after* the first name was looked up in the module's own scope -- i.e. the dotted path that names the
    other module is not that module's real path, that dotted path)."""
    table = bindings(descs)
    hops = []
    for mod, ds in descs.items():
        for d in ds:
            if d["t"] != "allref":
                continue
            if not d["ref"]:
                hops.append((mod, mod, False, mod))
                continue
            head, _, rest = d["ref"].partition(".")
            scope = table.get(mod, {})
            if head in scope:
                start = scope[head] if scope[head] is not None else f"{mod}.{head}"
            else:
                start = head
            full = start + (f".{rest}" if rest else "")
            if d["bare"]:   # the name stands for the list: its target is `<module path>.__all__`
                if "." not in full:
                    hops.append((mod, None, False, None))
                    continue
                full = full.rsplit(".", 1)[0]
            reached, crossed = follow(full, table)
            hops.append((mod, reached, crossed, full))
    return hops


def export_cycles(descs: dict[str, list[dict]], loaded: set[str] | None = None) -> tuple[bool, bool]:
    """(some cycle of ``__all__`` compositions exists, some such cycle has every hop crossing an alias)."""
    hops = [(a, b, c) for a, b, c, _ in export_hops(descs) if b is not None and (loaded is None or (a.split(".")[0] in loaded and b.split(".")[0] in loaded))]

    def cyclic(edges: list[tuple[str, str]]) -> bool:
        nxt: dict[str, set[str]] = {}
        for a, b in edges:
            nxt.setdefault(a, set()).add(b)
        for start in nxt:
            seen, todo = set(), list(nxt[start])
            while todo:
                m = todo.pop()
                if m == start:
                    return True
                if m not in seen:
                    seen.add(m)
                    todo.extend(nxt.get(m, ()))
        return False

    return cyclic([(a, b) for a, b, _ in hops]), cyclic([(a, b) for a, b, c in hops if c])


def gen_extchain(rng: random.Random) -> tuple[dict[str, str], list[str]]:
    """Re-export chains across 3-4 top-level packages of which only a prefix is loaded explicitly: every further hop needs
    resolve_aliases(external=True) to pull in one more package (a package loaded *during* resolution carries aliases and
    wildcards of its own).  Returns (files, packages in chain order)."""
    k = rng.randint(3, 4)
    pkgs = ["p", "q", "r", "t"][:k]
    names = rng.sample(NAMES, rng.randint(1, 2))
    files: dict[str, str] = {}
    for i, pk in enumerate(pkgs):
        lines = []
        if i == k - 1:
            for n in names:
                lines.append(rng.choice([f"def {n}(): ...", f"class {n}: ...", f"{n} = 1"]))
            if rng.random() < 0.3:
                lines.append(f"from nowhere import {rng.choice(NAMES)} as ghost")
        else:
            nxt = pkgs[i + 1]
            in_sub = rng.random() < 0.3          # the hop sits in a submodule the package wildcard-imports / re-exports
            hop = []
            for n in names:
                hop.append(rng.choice([f"from {nxt} import {n}", f"from {nxt} import {n} as {n}", f"from {nxt} import *",
                                       f"import {nxt}\nfrom {nxt} import {n}", f"from {nxt} import {n} as alias_{n}\n{n} = alias_{n}" if False else f"from {nxt} import {n}"]))
            if in_sub:
                files[f"{pk}/hop.py"] = "\n".join(hop) + "\n"
                lines.append(rng.choice([f"from {pk}.hop import *", *(f"from {pk}.hop import {n}" for n in names)]))
            else:
                lines += hop
            if rng.random() < 0.25:
                lines.append(f"__all__ = {names!r}")
        files[f"{pk}/__init__.py"] = "\n".join(lines) + "\n"
    return files, pkgs


def gen_extmix(rng: random.Random) -> tuple[dict[str, str], list[str], list[str]]:
    """Import graphs over 2-4 top-level packages of which only a subset is loaded explicitly: wildcard and named imports
    going back and forth between the packages (cross-package wildcard cycles, mixes of both forms, hops sitting in a
    submodule), so that a package pulled in *during* expansion / resolution (external=True, or external=None for the
    private sibling ``_pkg`` of a loaded ``pkg``) imports back from the very object that is being walked.
    Returns (files, packages, packages to load explicitly)."""
    pool = rng.choice([["p", "_p"], ["p", "_p", "q"], ["p", "q"], ["p", "q", "r"], ["p", "_p", "q", "_q"], ["p", "q", "r", "_r"],
                       ["q", "_q", "p"]])
    k = len(pool)
    files: dict[str, str] = {}
    edges: list[tuple[str, str]] = []
    # a spine that closes a cycle through all packages (70%) or a chain, plus random chords
    for i, pk in enumerate(pool):
        if i + 1 < k or rng.random() < 0.7:
            edges.append((pk, pool[(i + 1) % k]))
    for _ in range(rng.randint(0, k)):
        a, b = rng.sample(pool, 2)
        edges.append((a, b))
    if rng.random() < 0.5:   # the private sibling imports back from its public package (as _ast / ast do, and the reverse)
        for pk in pool:
            if pk.startswith("_") and pk[1:] in pool:
                edges.append((pk, pk[1:]))
    npre = rng.randint(1, k - 1)
    explicit = pool[:npre] if rng.random() < 0.6 else rng.sample(pool, npre)
    subs = {pk: rng.random() < 0.35 for pk in pool}
    forced: dict[tuple[str, str], str] = {}
    if rng.random() < 0.4:
        # pincer: a package loaded up front reaches one that is not through an alias-of-a-module wildcard, and that one
        # wildcard-imports back from the very module holding it
        a = rng.choice(explicit)
        b = rng.choice([x for x in pool if x not in explicit])
        edges += [(a, b), (b, a)]
        forced[(a, b)] = "through"
        forced[(b, a)] = "back"
    for pk in pool:
        lines = []
        own = rng.sample(NAMES, rng.randint(0, 2))
        for n in own:
            lines.append(rng.choice([f"def {n}(): ...", f"class {n}: ...", f"{n} = 1"]))
        hop: list[str] = []
        in_sub = subs[pk]
        holder = f"{pk}.sub" if in_sub else pk
        for a, b in edges:
            if a != pk:
                continue
            if forced.get((a, b)) == "back":
                hop.append(f"from {b}.sub import *" if subs[b] else f"from {b} import *")
                forced[(a, b)] = "done"
                continue
            if forced.get((a, b)) == "through":
                n = rng.choice(NAMES)
                through = [f"from {holder}.{n} import *", f"import {b} as {n}"]
                if rng.random() < 0.3:
                    through.reverse()
                hop.append("\n".join(through))
                forced[(a, b)] = "done"
                continue
            n = rng.choice(NAMES)
            src = b if rng.random() < 0.8 else f"{b}.sub"
            # "through an alias": the wildcard names a module of the *own* package that is an alias of the other package, so
            # it cannot be expanded before that package is there - and then it is expanded by whoever walks this module next
            # (the other package's own wildcard back, in the middle of the resolution loop that pulled it in)
            through = [f"from {holder}.{n} import *", f"import {src} as {n}"]
            rng.shuffle(through)
            hop.append(rng.choice([f"from {src} import *", f"from {src} import *", f"from {src} import {n}",
                                   f"from {src} import {n} as {rng.choice(NAMES)}", f"import {src}",
                                   f"from {src} import *\nfrom {src} import {n}",
                                   f"class K:\n    from {src} import *", "\n".join(through), "\n".join(through)]))
        rng.shuffle(hop)
        in_sub = in_sub and bool(hop)
        sub = []
        if in_sub:
            sub = hop
            lines.append(rng.choice([f"from {pk}.sub import *", f"from .sub import *", f"from {pk}.sub import {rng.choice(NAMES)}"]))
        else:
            cut = rng.randint(0, len(lines))
            lines[cut:cut] = hop
        if rng.random() < 0.4:
            sub = [*sub, rng.choice([f"from {pk} import *", f"from .. import *", f"{rng.choice(NAMES)} = 2", f"from {pk} import {rng.choice(NAMES)}"])]
        if rng.random() < 0.2:
            lines.append(f"__all__ = {rng.sample(NAMES, 2)!r}")
        files[f"{pk}/__init__.py"] = "\n".join(lines) + "\n"
        if sub or rng.random() < 0.3:
            files[f"{pk}/sub.py"] = "\n".join(sub) + "\n"
    return files, pool, explicit
